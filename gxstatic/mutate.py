"""Self-validation: apply single-site edits to a scratch copy of /repo/src/genjax and require the
named check to report a VIOLATION naming the edited construct (thorough tier / developer tool).

A mutant is (id, file, old, new, [property ids], optional occurrence index).  Edits are applied to
a copy under a temp dir (removed afterwards); the mutated file must still compile.
usage: python -m gxstatic.mutate [--only PID] [--jobs N] [--list]
"""
from __future__ import annotations

import argparse
import concurrent.futures as cf
import json
import os
import shutil
import subprocess
import sys
import tempfile

from .model import REPO

VERIF = os.path.dirname(os.path.dirname(os.path.abspath(__file__)))


def load_mutants():
    from . import mutants_table
    return mutants_table.MUTANTS


def apply_mutant(m, root):
    path = os.path.join(root, m["file"])
    with open(path, encoding="utf-8") as fh:
        src = fh.read()
    n = src.count(m["old"])
    occ = m.get("occ")
    if n == 0:
        return "stale: pattern not found"
    if occ is None and n != 1:
        return f"stale: pattern occurs {n} times"
    if occ is None:
        new = src.replace(m["old"], m["new"], 1)
    else:
        idx = -1
        for _ in range(occ + 1):
            idx = src.find(m["old"], idx + 1)
            if idx < 0:
                return "stale: occurrence not found"
        new = src[:idx] + m["new"] + src[idx + len(m["old"]):]
    try:
        compile(new, path, "exec")
    except SyntaxError as e:
        return f"mutant does not compile: {e}"
    with open(path, "w", encoding="utf-8") as fh:
        fh.write(new)
    return None


def run_one(m):
    tmp = tempfile.mkdtemp(prefix="gxstatic-mut-")
    try:
        os.makedirs(os.path.join(tmp, "src"))
        shutil.copytree(os.path.join(REPO, "src", "genjax"), os.path.join(tmp, "src", "genjax"),
                        ignore=shutil.ignore_patterns("__pycache__"))
        err = apply_mutant(m, tmp)
        if err:
            return m["id"], "skip", err, {}
        res = {}
        for pid in m["props"]:
            p = subprocess.run([sys.executable, "-B", "-m", "gxstatic.run", pid, "--repo", tmp, "--no-evidence", "--json"],
                               cwd=VERIF, capture_output=True, text=True)
            out = p.stdout
            js = None
            for line in out.splitlines():
                if line.startswith("JSON:"):
                    js = json.loads(line[5:])
            res[pid] = dict(rc=p.returncode, violations=(js or {}).get("violations", []), tail=out[-600:] if p.returncode not in (0, 1) else "")
        killed = all(r["rc"] == 1 for r in res.values())
        return m["id"], "killed" if killed else "SURVIVED", "", res
    finally:
        shutil.rmtree(tmp, ignore_errors=True)


def main(argv=None):
    ap = argparse.ArgumentParser()
    ap.add_argument("--only")
    ap.add_argument("--id")
    ap.add_argument("--jobs", type=int, default=16)
    ap.add_argument("--list", action="store_true")
    ap.add_argument("-v", action="store_true")
    a = ap.parse_args(argv)
    ms = load_mutants()
    if a.only:
        ms = [dict(m, props=[p for p in m["props"] if p == a.only.upper()]) for m in ms if a.only.upper() in m["props"]]
    if a.id:
        ms = [m for m in ms if m["id"] == a.id]
    if a.list:
        for m in ms:
            print(m["id"], m["props"], m["file"])
        return 0
    bad = 0
    with cf.ProcessPoolExecutor(max_workers=a.jobs) as ex:
        for mid, status, err, res in ex.map(run_one, ms):
            line = f"{status:9s} {mid} {err}"
            if status == "SURVIVED":
                bad += 1
                line += " " + json.dumps({k: v["rc"] for k, v in res.items()})
                for k, v in res.items():
                    if v["tail"]:
                        line += "\n      " + v["tail"].replace("\n", "\n      ")
            elif a.v and status == "killed":
                line += " " + "; ".join(f"{k}:{','.join(sorted({x['construct'] for x in v['violations']}))}" for k, v in res.items())
            print(line)
    print(f"mutants={len(ms)} survived={bad}")
    return 1 if bad else 0


if __name__ == "__main__":
    sys.exit(main())

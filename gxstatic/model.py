"""E1 program model: parse src/genjax, index symbols, resolve imports (stdlib ast only)."""
from __future__ import annotations

import ast
import hashlib
import os

REPO = os.environ.get("GXSTATIC_REPO", "/repo")
PKG_ROOT = "src/genjax"


class AnalysisError(Exception):
    """Anchor vanished / shape outside the recognised fragment: exit 2, never a violation."""


class Module:
    def __init__(self, name, path, src):
        self.name = name
        self.path = path
        self.src = src
        self.tree = ast.parse(src, filename=path)
        self.digest = hashlib.sha256(src.encode()).hexdigest()[:16]
        self.imports = {}  # alias -> dotted target
        self.defs = {}  # top-level name -> ast node (FunctionDef / ClassDef / value expr)
        self.assign_nodes = {}  # name -> Assign stmt
        self._index()

    def _index(self):
        pkg = self.name.rsplit(".", 1)[0] if not self.path.endswith("__init__.py") else self.name
        for st in self.tree.body:
            self._index_stmt(st, pkg)

    def _index_stmt(self, st, pkg):
        if isinstance(st, ast.Import):
            for a in st.names:
                if a.asname:
                    self.imports[a.asname] = a.name
                else:
                    self.imports[a.name.split(".")[0]] = a.name.split(".")[0]
        elif isinstance(st, ast.ImportFrom):
            base = st.module or ""
            if st.level:
                parts = pkg.split(".")
                if st.level > 1:
                    parts = parts[: -(st.level - 1)]
                base = ".".join(parts + ([st.module] if st.module else []))
            for a in st.names:
                if a.name == "*":
                    self.imports.setdefault("*", []).append(base)
                else:
                    self.imports[a.asname or a.name] = base + "." + a.name
        elif isinstance(st, (ast.FunctionDef, ast.AsyncFunctionDef, ast.ClassDef)):
            self.defs[st.name] = st
        elif isinstance(st, ast.Assign):
            for t in st.targets:
                if isinstance(t, ast.Name):
                    self.defs[t.id] = st.value
                    self.assign_nodes[t.id] = st
        elif isinstance(st, ast.AnnAssign) and isinstance(st.target, ast.Name) and st.value is not None:
            self.defs[st.target.id] = st.value
            self.assign_nodes[st.target.id] = st
        elif isinstance(st, (ast.If, ast.Try)):
            for sub in ast.iter_child_nodes(st):
                if isinstance(sub, ast.stmt):
                    self._index_stmt(sub, pkg)


class Program:
    def __init__(self, repo=None):
        self.repo = repo or REPO
        self.modules = {}
        root = os.path.join(self.repo, PKG_ROOT)
        if not os.path.isdir(root):
            raise AnalysisError(f"package root {root} not found")
        for dp, dn, fn in os.walk(root):
            dn[:] = [d for d in dn if d != "__pycache__"]
            for f in sorted(fn):
                if not f.endswith(".py"):
                    continue
                path = os.path.join(dp, f)
                rel = os.path.relpath(path, os.path.join(self.repo, "src"))
                name = rel[:-3].replace(os.sep, ".")
                if name.endswith(".__init__"):
                    name = name[: -len(".__init__")]
                try:
                    with open(path, encoding="utf-8") as fh:
                        src = fh.read()
                    self.modules[name] = Module(name, os.path.relpath(path, self.repo), src)
                except SyntaxError as e:
                    raise AnalysisError(f"cannot parse {path}: {e}")

    # ---- resolution -------------------------------------------------
    def resolve_name(self, modname, name, _depth=0):
        """Resolve a global name used in module `modname` to a dotted target."""
        m = self.modules.get(modname)
        if m is None:
            return None
        if name in m.defs:
            return modname + "." + name
        if name in m.imports:
            return self.canonical(m.imports[name], _depth + 1)
        for base in m.imports.get("*", []):
            if base in self.modules and name in self.modules[base].defs:
                return base + "." + name
        return None

    def canonical(self, dotted, _depth=0):
        """Follow re-exports inside the repo: genjax.core.X imported from genjax.pjax -> genjax.pjax.X."""
        if _depth > 6:
            return dotted
        parts = dotted.split(".")
        for i in range(len(parts), 0, -1):
            mod = ".".join(parts[:i])
            if mod in self.modules:
                rest = parts[i:]
                if not rest:
                    return dotted
                m = self.modules[mod]
                head = rest[0]
                if head in m.defs:
                    return dotted
                if head in m.imports and head != "*":
                    tgt = self.canonical(m.imports[head], _depth + 1)
                    return ".".join([tgt] + rest[1:])
                for base in m.imports.get("*", []):
                    if base in self.modules and head in self.modules[base].defs:
                        return ".".join([base] + rest)
                return dotted
        return dotted

    def lookup(self, dotted):
        """dotted -> (kind, node, module, owner_class_node|None); kind in func/class/value/method."""
        dotted = self.canonical(dotted)
        parts = dotted.split(".")
        for i in range(len(parts), 0, -1):
            mod = ".".join(parts[:i])
            if mod in self.modules:
                m = self.modules[mod]
                rest = parts[i:]
                if not rest:
                    return ("module", m.tree, m, None)
                node = m.defs.get(rest[0])
                if node is None:
                    return None
                owner = None
                for r in rest[1:]:
                    if isinstance(node, ast.ClassDef):
                        owner = node
                        node = self.class_member(node, r, m)
                    elif isinstance(node, (ast.FunctionDef,)):
                        sub = None
                        for st in ast.walk(node):
                            if isinstance(st, (ast.FunctionDef, ast.ClassDef)) and st.name == r and st is not node:
                                sub = st
                                break
                        node = sub
                    else:
                        return None
                    if node is None:
                        return None
                if isinstance(node, ast.FunctionDef):
                    return ("method" if owner is not None else "func", node, m, owner)
                if isinstance(node, ast.ClassDef):
                    return ("class", node, m, None)
                return ("value", node, m, owner)
        return None

    def class_member(self, cls, name, mod, _seen=None):
        for st in cls.body:
            if isinstance(st, (ast.FunctionDef, ast.ClassDef)) and st.name == name:
                return st
            if isinstance(st, ast.AnnAssign) and isinstance(st.target, ast.Name) and st.target.id == name:
                return st
            if isinstance(st, ast.Assign):
                for t in st.targets:
                    if isinstance(t, ast.Name) and t.id == name:
                        return st.value
        # bases inside the repo
        _seen = _seen or set()
        for b in cls.bases:
            bn = base_name(b)
            if bn and bn not in _seen:
                _seen.add(bn)
                tgt = self.resolve_name(mod.name, bn.split(".")[0])
                if tgt:
                    r = self.lookup(tgt)
                    if r and r[0] == "class":
                        got = self.class_member(r[1], name, r[2], _seen)
                        if got is not None:
                            return got
        return None

    def get_function(self, dotted):
        r = self.lookup(dotted)
        if r is None or r[0] not in ("func", "method"):
            raise AnalysisError(f"anchor vanished: function {dotted} not found")
        return r

    def get_class(self, dotted):
        r = self.lookup(dotted)
        if r is None or r[0] != "class":
            raise AnalysisError(f"anchor vanished: class {dotted} not found")
        return r

    def classes(self):
        for mn, m in self.modules.items():
            for n, node in m.defs.items():
                if isinstance(node, ast.ClassDef):
                    yield mn + "." + n, node, m

    def subclasses_of(self, base_simple_name):
        """All classes (transitively) deriving from a class whose simple name is given."""
        out = []
        changed = True
        names = {base_simple_name}
        while changed:
            changed = False
            for dotted, node, m in self.classes():
                if node.name in names:
                    continue
                for b in node.bases:
                    bn = base_name(b)
                    if bn and bn.split(".")[-1] in names:
                        names.add(node.name)
                        out.append((dotted, node, m))
                        changed = True
                        break
        return out

    def dataclass_fields(self, cls):
        """Ordered field names of a (Pytree.)dataclass class body (own AnnAssigns)."""
        out = []
        for st in cls.body:
            if isinstance(st, ast.AnnAssign) and isinstance(st.target, ast.Name):
                out.append(st.target.id)
        return out

    def digests(self):
        return {m.path: m.digest for m in self.modules.values()}


def base_name(b):
    if isinstance(b, ast.Subscript):
        b = b.value
    if isinstance(b, ast.Name):
        return b.id
    if isinstance(b, ast.Attribute):
        try:
            return ast.unparse(b)
        except Exception:
            return None
    return None


def decorators(node):
    out = []
    for d in getattr(node, "decorator_list", []):
        try:
            out.append(ast.unparse(d))
        except Exception:
            pass
    return out

"""C05 traces stay coherent under any history (induction steps, DESIGN §4-C05)."""
from __future__ import annotations

import ast

from . import gfi, infer
from ..model import AnalysisError
from .util import CORE, mk_ev, mk_lin, summarize, func_loc, short, spine_cases, items, N, C
from ..symeval import subterms

EXPLANATION = ("Induction step of the coherence invariant for every operation that produces a trace: all trace-construction sites of "
               "all five GFI methods of all five implementors (fields of one and the same run, arguments of this call recorded), the "
               "telescoping identity, whole-trace select in the three kernels, single-index resampling, get_args format agreement, "
               "and ownership of trace fields.")

SELF = ("param", "self")


def all_methods(ctx):
    gfi.dist_simulate(ctx); gfi.dist_generate(ctx); gfi.dist_update(ctx); gfi.dist_regenerate(ctx)
    for h in ("Simulate", "Generate", "Update", "Regenerate"):
        gfi.handler_rule(ctx, h)
    for m in ("simulate", "generate", "update", "regenerate"):
        gfi.fn_rule(ctx, m)
        gfi.vmap_rule(ctx, m)
        gfi.scan_rule(ctx, m)
        gfi.cond_rule(ctx, m)
    gfi.cond_update_telescopes(ctx)
    gfi.cond_regenerate_rebased(ctx)
    gfi.cond_trace_rules(ctx)


def dist_telescopes(ctx, rule="ALG-telescope"):
    ev = gfi.dist_summary(ctx, "update")[0]
    s = summarize(ctx, ev, CORE + "Distribution.update")
    lin = mk_lin(ev)
    TR = ("param", "tr")
    for asg, leaf in spine_cases(s.ret):
        it = items(leaf)
        if it is None or len(it) != 3:
            continue
        new_score = ev.simplify_call(("call", ("attr", it[0], "get_score"), (), ()), None, None)
        if new_score is None:
            continue
        total = ("binop", "-", ("binop", "+", it[1], new_score), gfi.SC(TR))
        ok, res = lin.is_zero(total)
        if ok:
            ctx.ok(rule, "core.Distribution.update", "weight + S(new) − S(old) ≡ 0")
        else:
            from ..linform import fmt_lf
            ctx.bad(rule, "core.Distribution.update", "weight + S(new) - S(old) == 0: residual " + fmt_lf(res[1]),
                    f"update weights do not telescope: residual {fmt_lf(res[1])}", func_loc(ctx, CORE + "Distribution.update"))


def get_args_format(ctx, rule="SIB-get_args"):
    """Every Trace.get_args returns the (args, kwargs) pair that Trace.update / mh / mala / hmc unpack."""
    ev = gfi.cond_ev(ctx)
    gfis, traces = gfi.hierarchy(ctx)
    for name in sorted(traces):
        dotted = CORE + name + ".get_args"
        s = summarize(ctx, ev, dotted)
        r = s.ret
        ok = False
        if r[0] == "attr" and r[1] == SELF:
            # returns a stored field: every construction site stores (args, kwargs) there (checked by the method rules)
            ok = True
        else:
            it = items(r)
            ok = it is not None and len(it) == 2 and it[1][0] != "star" and not any(x[0] == "star" for x in (it[0], it[1]))
        if ok:
            ctx.ok(rule, f"core.{name}.get_args", short(r, ev, 120))
        else:
            ctx.bad(rule, f"core.{name}.get_args", "returns (args, kwargs)", f"get_args returns {short(r, ev, 200)}, consumers unpack it as (args, kwargs)", func_loc(ctx, dotted))
    trace_update_reuses_args(ctx, rule)


def trace_update_reuses_args(ctx, rule="SIB-get_args"):
    """Trace.update(x) without arguments re-runs update with the trace's own recorded (args, kwargs); with arguments it forwards them.
    Decided by evaluating the method's value on a finite model (a trace whose get_args() is ((a0, a1), {'k': v}))."""
    from ..absint import Model, Unknown, Opq
    ev = mk_ev(ctx)
    dotted = CORE + "Trace.update"
    s = summarize(ctx, ev, dotted)
    kind, node, mod, owner = ctx.p.get_function(dotted)
    SELF_, X_, A_, K_ = ("param", "self"), ("param", "x"), ("param", "args"), ("param", "kwargs")
    a0, a1, v, gf = Opq("a0"), Opq("a1"), Opq("v"), Opq("gen_fn")
    problems = []
    for given_args, given_kw, label in (((), {}, "no arguments"), ((Opq("b0"),), {}, "new positional arguments"), ((), {"k": Opq("w")}, "new keyword arguments")):
        m = Model(evaluator=ev)
        m.bind(A_, given_args)
        m.bind(K_, given_kw)
        m.bind(("call", ("attr", SELF_, "get_args"), (), ()), ((a0, a1), {"k": v}))
        m.bind(("call", ("attr", SELF_, "get_gen_fn"), (), ()), gf)
        try:
            got = m.ev(s.ret)
        except Unknown as e:
            raise AnalysisError(f"core.Trace.update: cannot evaluate ({label}): {e}")
        if given_args or given_kw:
            want = Opq("call", Opq("attr", gf, "update"), (m.ev(SELF_), m.ev(X_)) + tuple(given_args), tuple(sorted(given_kw.items())))
        else:
            want = Opq("call", Opq("attr", gf, "update"), (m.ev(SELF_), m.ev(X_), a0, a1), (("k", v),))
        if got != want:
            problems.append(f"[{label}] calls {got!r}; expected {want!r}")
    if problems:
        ctx.bad(rule, "core.Trace.update", "re-uses recorded (args, kwargs)", "; ".join(problems), ctx.loc(mod, node))
    else:
        ctx.ok(rule, "core.Trace.update", "without arguments: gen_fn.update(self, x, *recorded args, **recorded kwargs); with arguments: forwards them")


def trace_field_ownership(ctx, rule="OWN-trace-fields"):
    """No assignment to a trace field outside constructors; Trace classes are Pytree dataclasses without static data fields."""
    gfis, traces = gfi.hierarchy(ctx)
    fields = set()
    for name, (d, node, m) in traces.items():
        fields |= set(ctx.p.dataclass_fields(node))
        decos = [ast.unparse(x) for x in node.decorator_list]
        if "Pytree.dataclass" not in decos:
            ctx.bad(rule, f"core.{name}", "Pytree.dataclass", f"{name} is not a @Pytree.dataclass (not jit/vmap transparent)", ctx.loc(m, node))
        for st in node.body:
            if isinstance(st, ast.AnnAssign) and st.value is not None and "Pytree.static" in ast.unparse(st.value):
                ctx.bad(rule, f"core.{name}.{st.target.id}", "static data field", "a trace field is static: its value would be baked into the treedef", ctx.loc(m, st))
    n = 0
    for mn, m in ctx.p.modules.items():
        for node in ast.walk(m.tree):
            if isinstance(node, (ast.Assign, ast.AugAssign)):
                tgts = node.targets if isinstance(node, ast.Assign) else [node.target]
                for t in tgts:
                    if isinstance(t, ast.Attribute) and t.attr in fields and t.attr.startswith("_") or \
                            (isinstance(t, ast.Attribute) and t.attr in ("traces", "trs", "final_carry", "outs") and not (isinstance(t.value, ast.Name) and t.value.id == "self" and False)):
                        if isinstance(t.value, ast.Name) and t.value.id in ("self",) and t.attr in ("traces", "trs"):
                            continue
                        n += 1
                        ctx.bad(rule, f"{mn}", f"assignment to {ast.unparse(t)}", "a trace field is assigned outside a constructor", ctx.loc(m, node))
    if n == 0:
        ctx.ok(rule, "all modules", f"no store into trace fields {sorted(fields)} outside constructors")


def kernels(ctx):
    infer.mh_rule(ctx)
    infer.mala_rule(ctx)
    infer.hmc_rule(ctx)
    infer.resample_index_rule(ctx)
    # the SMC operations are trace producers too: what init/extend/rejuvenate hand to generate/update (constraints win over proposed
    # values at an observed address; the kernel's output trace is kept whole) decides whether particle traces stay coherent
    infer.smc_init_rule(ctx)
    infer.smc_extend_rule(ctx)
    infer.smc_rejuvenate_rule(ctx)


RULES = [all_methods, gfi.trace_accessors, dist_telescopes, get_args_format, trace_field_ownership, kernels]
FLOOR = 40

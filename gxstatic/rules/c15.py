"""C15 on deterministic code ADEV is ordinary forward-mode AD (structural clauses, DESIGN §4-C15)."""
from . import adevr

EXPLANATION = ("Default path dispatches to JAX's primitive JVP rule with canonicalised tangents; zero tangents are manufactured from their primals; "
               "cond's reversed branch order is compensated exactly once; Dual-tree plumbing of jvp_estimate/grad_estimate/estimate.")
RULES = [adevr.default_jvp_path, adevr.zero_tangent_shapes, adevr.cond_rule, adevr.interpreter_rule]
FLOOR = 12

"""C15 on deterministic code ADEV is ordinary forward-mode AD (structural clauses, DESIGN §4-C15)."""
from . import adevi

EXPLANATION = ("Default path dispatches to JAX's primitive JVP rule with canonicalised tangents; zero tangents are manufactured from their primals; "
               "cond's reversed branch order is compensated exactly once; Dual-tree plumbing of jvp_estimate/grad_estimate/estimate.  All decided by "
               "evaluating the interpreter's arms and the Dual helpers on finite model equations (absint), not by matching their text.")
RULES = [adevi.dual_helpers_rule, adevi.default_jvp_path, adevi.zero_tangent_shapes, adevi.cond_rule, adevi.interpreter_rule]
FLOOR = 12

"""C18 chain returns the burnt-in, thinned kernel iterates and diagnostics (DESIGN §4-C18)."""
from . import infer

EXPLANATION = ("The symbolic summary of chain(kernel).run_chain is decomposed: scan body emits and carries the post-kernel trace, one index "
               "term arange(burn_in, n_steps, thinning) subscripts every trace leaf and the accepts collected by the same state-wrapped run, "
               "diagnostics are functions of the retained accepts, the multi-chain path maps replicas over a leading axis.")
RULES = [infer.chain_rule]
FLOOR = 1

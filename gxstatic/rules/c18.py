"""C18 chain returns the burnt-in, thinned kernel iterates and diagnostics (DESIGN §4-C18)."""
from . import infer, c19

EXPLANATION = ("The symbolic summary of chain(kernel).run_chain is decomposed: scan body emits and carries the post-kernel trace, one index "
               "term arange(burn_in, n_steps, thinning) subscripts every trace leaf and the accepts collected by the same state-wrapped run, "
               "diagnostics are functions of the retained accepts, the multi-chain path maps replicas over a leading axis; the state interpreter's "
               "collection of saved values across scan iterations (the source of accepts) is checked with the finite-model rules of C19.")


def state_collection(ctx):
    """chain obtains `accepts` from the dictionary collected by the state interpreter across the scan over kernel steps: the interpreter's
    dispatch (scan arm selected by the primitive alone, values saved in the body stacked along the iteration axis, transparent results) is
    part of the mechanism the property is anchored in (state.py:280-320), so its rules are run for C18 as well."""
    c19.interpreter_rules(ctx)
    c19.state_fallthrough(ctx)


RULES = [infer.chain_rule, state_collection]
FLOOR = 1

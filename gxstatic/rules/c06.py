"""C06 a seeded function is a pure function of key and arguments (structural clauses, DESIGN §4-C06)."""
from . import pjaxr

EXPLANATION = ("Ownership of the process-global key counter, escape analysis of the keyless sampler and of the Seed interpreter, the sampling branch "
               "of Seed (no re-bind; output from the flat keyful sampler and a fresh sub-key), key linearity, staged-sampler cache key, dispatch-set agreement.")
RULES = [pjaxr.seed_wrapper_plumbing, pjaxr.counter_ownership, pjaxr.seed_sample_branch_events, pjaxr.seed_fresh_interpreter, pjaxr.flat_cache_key, pjaxr.flat_sampler_staging, pjaxr.dispatch_sets_events,
         pjaxr.key_linearity_events, pjaxr.nested_jaxpr_seeded_events, pjaxr.seed_fallthrough_events, pjaxr.sample_transform_rules]
FLOOR = 10

"""C12 resampling copies particles faithfully and preserves the estimate (structural clauses, DESIGN §4-C12)."""
from . import infer

EXPLANATION = ("One index term subscripts axis 0 of every leaf through one whole-trace tree_map; count/zeros/estimate algebra of resample; "
               "symbolic invariance of log_marginal_likelihood() with the axiom logsumexp(zeros(N)) = log N; systematic offsets from one scalar u.")
RULES = [infer.resample_index_rule, infer.smc_resample_rule, infer.systematic_rule, infer.smc_accessors_rule, infer.particle_collection_helper]
FLOOR = 5

"""C16 selections are a Boolean algebra; filter/merge partition (DESIGN §4-C16, §3 selection-algebra table)."""
from __future__ import annotations

import ast
import itertools

from ..model import AnalysisError
from ..symeval import ts, subterms, is_const, C, NONE
from .util import (CORE, N, call, mk_ev, mk_lin, summarize, spine_cases, items, is_call, func_loc, short, cf_conds)
from . import gfi

EXPLANATION = ("The symbolic return term of every Selection `match` method is evaluated under every truth assignment of its atomic "
               "conditions and compared with the selection-algebra table (flag and remainder); by structural induction this gives the "
               "Boolean-algebra clause for every path. filter/merge consumers are checked for leaf-decision agreement and partition pairing.")

SELF = ("param", "self")
ADDR = ("param", "addr")


def ctor(name, *args):
    return call(N(CORE + name), *args)


NEG = {"!=": "==", "not in": "in", "is not": "is"}


def bool_atoms(t, acc):
    h = t[0]
    if h == "cmp" and t[1] in NEG:
        return bool_atoms(("cmp", NEG[t[1]], t[2], t[3]), acc)
    if h == "boolop":
        for x in t[2]:
            bool_atoms(x, acc)
    elif h == "unop" and t[1] == "not":
        bool_atoms(t[2], acc)
    elif h == "ifexp":
        bool_atoms(t[1], acc)
        bool_atoms(t[2], acc)
        bool_atoms(t[3], acc)
    elif h == "const":
        pass
    else:
        if t not in acc:
            acc.append(t)


def bool_eval(t, asg):
    h = t[0]
    if h == "cmp" and t[1] in NEG:
        r = bool_eval(("cmp", NEG[t[1]], t[2], t[3]), asg)
        return None if r is None else (not r)
    if h == "const":
        return bool(t[1])
    if h == "boolop":
        vals = [bool_eval(x, asg) for x in t[2]]
        if any(v is None for v in vals):
            return None
        return all(vals) if t[1] == "and" else any(vals)
    if h == "unop" and t[1] == "not":
        v = bool_eval(t[2], asg)
        return None if v is None else (not v)
    if h == "ifexp":
        c = bool_eval(t[1], asg)
        if c is None:
            return None
        return bool_eval(t[2] if c else t[3], asg)
    return asg.get(t)


def resolve_all(t, asg):
    """Resolve every ifexp (also nested inside tuples) whose condition is decided by asg."""
    if not isinstance(t, tuple):
        return t
    if t and t[0] == "ifexp":
        c = bool_eval(t[1], asg)
        if c is not None:
            return resolve_all(t[2] if c else t[3], asg)
    return tuple(resolve_all(x, asg) if isinstance(x, tuple) else x for x in t)


def cases_of(ret):
    """[(assignment over atomic conditions, resolved return)]; atoms = conditions of every ifexp plus the atoms of
    the flag component of every resolved (flag, remainder) leaf."""
    atoms = []
    for x in subterms(ret):
        if x[0] == "ifexp":
            bool_atoms(x[1], atoms)
    for _ in range(3):
        grew = False
        for bits in itertools.product([True, False], repeat=len(atoms)):
            r = resolve_all(ret, dict(zip(atoms, bits)))
            it = items(r) if r[0] == "tuple" else None
            if it:
                before = len(atoms)
                bool_atoms(it[0], atoms)
                grew = grew or len(atoms) > before
        if not grew:
            break
    atoms = [a for a in atoms if a[0] not in ("tuple",)]
    if len(atoms) > 7:
        raise AnalysisError("too many atomic conditions")
    out = []
    for bits in itertools.product([True, False], repeat=len(atoms)):
        asg = dict(zip(atoms, bits))
        out.append((asg, resolve_all(ret, asg)))
    return atoms, out


def check_match(ctx, ev, cls, expect, rule="ALG-selection"):
    """expect(asg_by_name) -> (flag: bool|term, remainder term) ; names map atoms via classifier."""
    dotted = CORE + cls + ".match"
    s = summarize(ctx, ev, dotted)
    construct = f"core.{cls}.match"
    loc = func_loc(ctx, dotted)
    # equality / inequality of two Boolean conditions of the contract (c1 == c2, c1 != c2) is a compound condition, not an atom
    from ..symeval import subst as _subst

    def _booleq(x):
        if x[0] == "cmp" and x[1] in ("==", "!=", "is", "is not") and expect["classify"](x) is None \
                and expect["classify"](x[2]) is not None and expect["classify"](x[3]) is not None:
            same = ("boolop", "or", (("boolop", "and", (x[2], x[3])), ("boolop", "and", (("unop", "not", x[2]), ("unop", "not", x[3])))))
            return same if x[1] in ("==", "is") else ("unop", "not", same)
        return None
    atoms, cs = cases_of(_subst(s.ret, _booleq))
    names = {}
    for a in atoms:
        nm = expect["classify"](a)
        if nm is None:
            raise AnalysisError(f"{construct}: unrecognised condition {short(a, ev)}")
        names[a] = nm
    failed = False
    for asg, r in cs:
        named = {names[a]: v for a, v in asg.items()}
        if expect.get("feasible") and not expect["feasible"](named):
            continue
        it = items(r)
        if it is None or len(it) != 2:
            ctx.bad(rule, construct, "returns (flag, remainder)", f"match returns {short(r, ev)}", loc)
            failed = True
            continue
        flag = bool_eval(it[0], asg)
        want_flag, want_rest = expect["table"](named)
        when = ", ".join(f"{k}={v}" for k, v in sorted(named.items())) or "always"
        if flag is None or flag != want_flag:
            ctx.bad(rule, construct, f"flag [{when}]", f"when {when}: flag should be {want_flag}, found {short(it[0], ev)}", loc)
            failed = True
        if it[1] != want_rest:
            ctx.bad(rule, construct, f"remainder [{when}]", f"when {when}: remainder should be {short(want_rest, ev)}, found {short(it[1], ev)}", loc)
            failed = True
    if not failed:
        ctx.ok(rule, construct, f"{len(cs)} condition cases match the table")
    ctx.sample({"rule": rule, "construct": construct, "return": short(s.ret, ev, 300)})


def selection_algebra(ctx):
    ev = mk_ev(ctx)
    sval = ("attr", ("attr", SELF, "s"), "value")
    eq_s = ("cmp", "==", ADDR, sval)
    check_match(ctx, ev, "AllSel", dict(classify=lambda a: None, table=lambda n: (True, SELF)))
    check_match(ctx, ev, "NoneSel", dict(classify=lambda a: None, table=lambda n: (False, SELF)))
    # the three classes that compare the address with stored *values* are decided by evaluating match() on a finite model: concrete stored
    # values x concrete addresses (strings that occur / do not occur, and the empty address () that consumers use as the leaf probe), against
    # the specification of §3 computed directly — any spelling of the comparison (==, slicing, prefix tests, isinstance dispatch) is one rule
    from ..absint import Model, Unknown, Opq

    def model_match(cls, field_term, stored_values, addrs, spec, show):
        dotted = CORE + cls + ".match"
        s_ = summarize(ctx, ev, dotted)
        construct = f"core.{cls}.match"
        loc = func_loc(ctx, dotted)
        n, bad = 0, []
        for stored in stored_values:
            for addr in addrs:
                m = Model(evaluator=ev)
                m.bind(field_term, stored)
                m.bind(ADDR, addr)
                try:
                    got = m.ev(s_.ret)
                    want_flag, want_rest_term = spec(stored, addr)
                    want = (want_flag, Model(evaluator=ev).ev(want_rest_term) if isinstance(want_rest_term, tuple) else want_rest_term)
                except Unknown as e:
                    raise AnalysisError(f"{construct}: cannot evaluate match({addr!r}) for {show(stored)}: {e}")
                except Exception as e:   # the modelled code itself fails on this input
                    bad.append(f"{show(stored)}.match({addr!r}) raises {type(e).__name__}: {e}")
                    continue
                n += 1
                if isinstance(got, list):
                    got = tuple(got)
                if not (isinstance(got, tuple) and len(got) == 2 and bool(got[0]) == want[0] and got[1] == want[1]):
                    bad.append(f"{show(stored)}.match({addr!r}) returns {got!r}, the selection algebra requires {want!r}")
        if bad:
            for b in bad[:4]:
                ctx.bad("ALG-selection", construct, b[:140], b, loc)
        else:
            ctx.ok("ALG-selection", construct, f"{n} (stored value, address) cases match the table")

    def T_(*items_):
        return ("tuple", tuple(C(x) for x in items_))
    NONE_SEL, ALL_SEL = ctor("NoneSel"), ctor("AllSel")
    ADDRS = ("a", "b", "zz", ())
    model_match("StrSel", sval, ("a", "b"), ADDRS, lambda st, ad: (ad == st, ALL_SEL if ad == st else NONE_SEL), lambda st: f"StrSel({st!r})")
    path = ("attr", ("attr", SELF, "t"), "value")

    def tuple_spec(pth, ad):
        if not pth or ad != pth[0]:
            return False, NONE_SEL
        if len(pth) == 1:
            return True, ALL_SEL
        return True, ctor("TupleSel", call(N(CORE + "const"), T_(*pth[1:])))
    model_match("TupleSel", path, ((), ("a",), ("a", "b"), ("a", "b", "c"), ("b", "k")), ADDRS, tuple_spec, lambda st: f"TupleSel({st!r})")
    d = ("attr", SELF, "d")
    S1, S2 = Opq("sub-selection-1"), Opq("sub-selection-2")
    model_match("DictSel", d, ({"a": S1, "b": S2}, {}), ADDRS,
                lambda st, ad: (ad in st, st[ad] if ad in st else NONE_SEL), lambda st: f"DictSel({sorted(st)!r})")

    def sub(field, i):
        return ("idx", ("call", ("attr", ("attr", SELF, field), "match"), (ADDR,), ()), C(i))

    check_match(ctx, ev, "ComplSel", dict(
        classify=lambda a: "c" if a == sub("s", 0) else None,
        table=lambda n: (not n["c"], ctor("ComplSel", sub("s", 1)))))
    for cls, op in (("InSel", all), ("OrSel", any)):
        check_match(ctx, ev, cls, dict(
            classify=lambda a: "c1" if a == sub("s1", 0) else "c2" if a == sub("s2", 0) else None,
            table=lambda n, op=op, cls=cls: (op([n["c1"], n["c2"]]), ctor(cls, sub("s1", 1), sub("s2", 1)))))
    # Selection.match wraps a non-Selection remainder
    dotted = CORE + "Selection.match"
    s = summarize(ctx, ev, dotted)
    construct = "core.Selection.match"
    r0, r1 = sub("s", 0), sub("s", 1)
    isn = call(N("builtins.isinstance"), r1, N(CORE + "Selection"))
    ok = True
    atoms, cs = cases_of(s.ret)
    for asg, r in cs:
        it = items(r)
        if it is None or len(it) != 2 or it[0] != r0:
            ctx.bad("ALG-selection", construct, "flag passthrough", f"expected flag {short(r0, ev)}, found {short(r, ev)}", func_loc(ctx, dotted))
            ok = False
            continue
        known = asg.get(isn)
        if known is None and isn not in asg:
            ok_rest = it[1] in (ctor("Selection", r1), r1)
        else:
            ok_rest = it[1] == (r1 if known else ctor("Selection", r1))
        if not ok_rest:
            ctx.bad("ALG-selection", construct, "remainder wrapped", f"remainder should be the inner remainder (wrapped in Selection when it is not one), found {short(it[1], ev)}", func_loc(ctx, dotted))
            ok = False
    if ok:
        ctx.ok("ALG-selection", construct)
    # operators
    other = ("param", "other")
    for m, want in (("__or__", ctor("Selection", ctor("OrSel", SELF, other))),
                    ("__xor__", ctor("Selection", ctor("InSel", SELF, other))),
                    ("__invert__", ctor("Selection", ctor("ComplSel", SELF)))):
        dotted = CORE + "Selection." + m
        s = summarize(ctx, ev, dotted)
        if s.ret == want:
            ctx.ok("ALG-selection", f"core.Selection.{m}")
        else:
            ctx.bad("ALG-selection", f"core.Selection.{m}", "operator table", f"expected {short(want, ev)}, found {short(s.ret, ev)}", func_loc(ctx, dotted))
    s = summarize(ctx, ev, CORE + "Selection.__contains__")
    want = ("idx", ("call", ("attr", SELF, "match"), (ADDR,), ()), C(0))
    if s.ret == want:
        ctx.ok("ALG-selection", "core.Selection.__contains__")
    else:
        ctx.bad("ALG-selection", "core.Selection.__contains__", "membership = match flag", f"found {short(s.ret, ev)}", func_loc(ctx, CORE + "Selection.__contains__"))


def sel_constructor(ctx, rule="ALG-sel()"):
    ev = mk_ev(ctx)
    dotted = CORE + "sel"
    s = summarize(ctx, ev, dotted)
    V = ("param", "v")
    v0 = ("idx", V, C(0))
    lenv = call(N("builtins.len"), V)

    def classify(a):
        if a == ("cmp", "==", lenv, C(1)):
            return "one"
        if a == ("cmp", "is", v0, NONE):
            return "none"
        if a == ("cmp", "==", v0, ("tuple", ())):
            return "empty"
        if a == call(N("builtins.isinstance"), v0, N("builtins.dict")):
            return "dict"
        if a == call(N("builtins.isinstance"), v0, N("builtins.tuple")):
            return "tuple"
        if a[0] == "call" and a[1] == N("builtins.all"):
            return "allstr"
        if a == call(N("builtins.isinstance"), v0, N("builtins.str")):
            return "str"
        return None

    atoms, cs = cases_of(s.ret)
    names = {}
    for a in atoms:
        nm = classify(a)
        if nm is None:
            raise AnalysisError(f"core.sel: unrecognised condition {short(a, ev)}")
        names[a] = nm
    S = lambda inner: call(N(CORE + "Selection"), inner)
    cst = lambda x: call(N(CORE + "const"), x)
    failed = False
    seen = set()
    for asg, r in cs:
        n = {names[a]: v for a, v in asg.items()}
        if not n.get("one", True):
            want = S(call(N(CORE + "NoneSel")))
            key = "no-arg"
        elif n.get("none"):
            want, key = S(call(N(CORE + "NoneSel"))), "None"
        elif n.get("empty"):
            want, key = S(call(N(CORE + "AllSel"))), "()"
        elif n.get("dict"):
            want, key = S(call(N(CORE + "DictSel"), v0)), "dict"
        elif n.get("tuple") and n.get("allstr", True):
            want, key = S(call(N(CORE + "TupleSel"), cst(v0))), "tuple"
        else:
            want, key = S(call(N(CORE + "StrSel"), cst(v0))), "str"
        seen.add(key)
        if r != want:
            ctx.bad(rule, "core.sel", f"case {key}", f"sel() case {key}: expected {short(want, ev)}, found {short(r, ev)}", func_loc(ctx, dotted))
            failed = True
    ctx.need(len(seen) >= 5, f"core.sel: only {len(seen)} dispatch cases recognised")
    if not failed:
        ctx.ok(rule, "core.sel", f"{len(seen)} dispatch cases")


def leaf_consumers(ctx, rule="SIB-leaf-decision"):
    """Distribution.filter decides leaf membership as match(())[0]; Vmap/Scan/Cond delegate."""
    ev = mk_ev(ctx)
    dotted = CORE + "Distribution.filter"
    s = summarize(ctx, ev, dotted)
    X, SELP = ("param", "x"), ("param", "selection")
    ok = True
    for asg, leaf in spine_cases(s.ret):
        pol = None
        for c, v in asg.items():
            r = gfi.leaf_selected_test(c, SELP)
            if r is None:
                raise AnalysisError(f"core.Distribution.filter: unrecognised condition {short(c, ev)}")
            pol = (r == v)
        want = ("tuple", (X, NONE)) if pol else ("tuple", (NONE, X))
        if leaf != want:
            ctx.bad(rule, "core.Distribution.filter", f"selected={pol}", f"expected {short(want, ev)}, found {short(leaf, ev)}", func_loc(ctx, dotted))
            ok = False
    if ok:
        ctx.ok(rule, "core.Distribution.filter")
    for cls, fld in (("Scan", "callee"), ("Cond", "callee")):
        dotted = CORE + cls + ".filter"
        s = summarize(ctx, ev, dotted)
        want = ("call", ("attr", ("attr", SELF, fld), "filter"), (X, SELP), ())
        if s.ret == want:
            ctx.ok(rule, f"core.{cls}.filter")
        else:
            ctx.bad(rule, f"core.{cls}.filter", "delegates to the callee", f"found {short(s.ret, ev)}", func_loc(ctx, dotted))
    dotted = CORE + "Vmap.filter"
    s = summarize(ctx, ev, dotted)
    lanes = [x for x in subterms(s.ret) if x[0] == "lanes"]
    good = False
    if lanes:
        rec = ev.vmaps[lanes[0][1]]
        good = (rec["f"] == ("attr", ("attr", SELF, "gen_fn"), "filter") and rec["in_axes"] == ("tuple", (C(0), NONE))
                and rec["args"] == (X, SELP) and s.ret == ("tuple", (("idx", lanes[0], C(0)), ("idx", lanes[0], C(1)))))
        if not good and items(s.ret):
            L0 = ("lanes", lanes[0][1], rec["body"])
            good = (rec["f"] == ("attr", ("attr", SELF, "gen_fn"), "filter") and rec["in_axes"] == ("tuple", (C(0), NONE))
                    and rec["args"] == (X, SELP) and s.ret == ("tuple", (("idx", L0, C(0)), ("idx", L0, C(1)))))
    if good:
        ctx.ok(rule, "core.Vmap.filter")
    else:
        ctx.bad(rule, "core.Vmap.filter", "maps choices on axis 0, selection shared", f"found {short(s.ret, ev)}", func_loc(ctx, dotted))








def tables_(ctx):
    from . import tables
    tables.fn_merge_table(ctx)
    tables.fn_filter_table(ctx)


RULES = [selection_algebra, sel_constructor, leaf_consumers, tables_,
         gfi.merge_polarity, gfi.dist_regenerate]
FLOOR = 20

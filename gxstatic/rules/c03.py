"""C03 update returns the density ratio, keeps unconstrained choices, is invertible (DESIGN §4-C03)."""
from . import gfi, c05

EXPLANATION = ("ALG/ROLE/DEP rules over every update path plus the telescoping identity weight + S(new) − S(old) ≡ 0 "
               "(with the induction hypothesis on callees) decided by case splitting on where-conditions.")


def combs(ctx):
    gfi.handler_rule(ctx, "Update")
    gfi.fn_rule(ctx, "update")
    gfi.vmap_rule(ctx, "update")
    gfi.scan_rule(ctx, "update")
    gfi.cond_rule(ctx, "update")
    gfi.cond_update_telescopes(ctx)
    gfi.cond_discard_depends_on_old_check(ctx, "update")


RULES = [gfi.dist_update, gfi.address_glue, lambda ctx: gfi.density_reduction(ctx, ['Update', 'update']), combs, gfi.merge_polarity, c05.trace_update_reuses_args]
FLOOR = 8

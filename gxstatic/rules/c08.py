"""C08 modular_vmap and Vmap are lane-wise maps (structural clauses, DESIGN §4-C08)."""
from . import pjaxr, gfi

EXPLANATION = ("Writer/reader agreement on the injected dummy operand, the log-density batch rule's in-axes tree, lane randomness shape rule, the Vmap "
               "combinator's in_axes prefix table and aggregation for all five methods, declared-union narrowing of Vmap.in_axes, first-leaf guard of axis-size inference.")


def vmap_methods(ctx):
    for m in ("simulate", "generate", "assess", "update", "regenerate"):
        gfi.vmap_rule(ctx, m)


RULES = [pjaxr.gfi_vmap_repeat, pjaxr.dummy_protocol_events, pjaxr.logdensity_batch_terms, pjaxr.vmap_lane_randomness, pjaxr.modular_vmap_control_flow_events, vmap_methods, gfi.vmap_narrow,
         pjaxr.first_leaf_guard, pjaxr.sample_batch_axes, pjaxr.dispatch_sets_events, gfi.cond_trace_rules, pjaxr.mvmap_fallthrough,
         gfi.vmap_kwargs_sig]   # keyword arguments are mapped along axis 0 whatever in_axes says, as jax.vmap does (wave 10: the rule existed under C01 only)
FLOOR = 15

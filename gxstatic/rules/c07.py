"""C07 every sample site gets its own randomness (structural clauses, DESIGN §4-C07)."""
from . import pjaxr

EXPLANATION = ("PRNG-key linearity over the Seed interpreter (split once per consuming branch, sub-key consumed once, fold_in(index) per scan iteration, "
               "carried key unchanged), lane randomness by sample-shape extension under modular_vmap, sample_shape threading to the keyful samplers.")
RULES = [pjaxr.key_linearity_events, pjaxr.nested_jaxpr_seeded_events, pjaxr.vmap_lane_randomness, pjaxr.sample_shape_threading, pjaxr.seed_sample_branch_events, pjaxr.dispatch_sets_events]
FLOOR = 10

"""Shared helpers for rules: evaluator factory, term utilities, standard axioms."""
from __future__ import annotations

import ast

from ..model import AnalysisError
from ..symeval import Evaluator, ts, subst, subterms, is_const, C, NONE, NORET
from ..linform import Lin, fmt_lf

CORE = "genjax.core."
STD_INLINE = {CORE + "get_score", CORE + "get_retval"}


def N(name):
    return ("name", name)


def call(fn, *args, **kw):
    return ("call", fn, tuple(args), tuple(kw.items()))


def CH(x):
    return call(N("CHOICES"), x)


def SC(x):
    return call(N("SCORE"), x)


def RV(x):
    return call(N("RETVAL"), x)


def std_axioms(x):
    h = x[0]
    if h == "call":
        fn = x[1]
        if fn == N(CORE + "get_choices") and len(x[2]) == 1:
            return CH(x[2][0])
        if fn == N(CORE + "get_score") and len(x[2]) == 1:
            return SC(x[2][0])
        if fn == N(CORE + "get_retval") and len(x[2]) == 1:
            return RV(x[2][0])
        if fn[0] == "attr" and not x[2] and not x[3]:
            if fn[2] == "get_choices":
                return CH(fn[1])
            if fn[2] == "get_score":
                return SC(fn[1])
            if fn[2] == "get_retval":
                return RV(fn[1])
        # Distribution forwarding wrappers
        if fn[0] == "attr" and fn[2] == "value" and fn[1][0] == "attr" and fn[1][2] in ("_logpdf", "_sample"):
            return ("call", ("attr", fn[1][1], fn[1][2][1:]), x[2], x[3])
    return None


def mk_ev(ctx, inline=(), self_inline=(), depth=3):
    return Evaluator(ctx.p, inline=set(inline) | STD_INLINE, self_inline=self_inline, max_inline_depth=depth)


def mk_lin(ev, extra=()):
    return Lin(ev, axioms=[std_axioms] + list(extra))


def summarize(ctx, ev, dotted, **kw):
    ctx.fn(dotted)
    return ev.eval_dotted(dotted, **kw)


# ------------------------------------------------------------------ control-flow case analysis
def cf_conds(t, acc=None):
    """Conditions of the control-flow ifexps at the spine of a return term."""
    acc = [] if acc is None else acc
    if isinstance(t, tuple) and t and t[0] == "ifexp":
        if t[1] not in acc:
            acc.append(t[1])
        cf_conds(t[2], acc)
        cf_conds(t[3], acc)
    return acc


_NEG = {"is": "is not", "is not": "is", "==": "!=", "!=": "==", "in": "not in", "not in": "in", "<": ">=", ">=": "<", ">": "<=", "<=": ">"}


def positive(c):
    """(canonical condition, flipped?): `x is not None`, `not (x is None)`, `x != y`, `a not in b` are the negations of their positive
    forms, so one truth assignment decides both spellings."""
    flip = False
    while True:
        if c[0] == "unop" and c[1] == "not":
            c, flip = c[2], not flip
        elif c[0] == "cmp" and c[1] in ("is not", "!=", "not in", ">=", "<="):
            c, flip = ("cmp", _NEG[c[1]], c[2], c[3]), not flip
        else:
            return c, flip


def decided(asg, c):
    """Truth value of condition c under asg (looking through negated spellings), or None."""
    if c in asg:
        return asg[c]
    pc, flip = positive(c)
    for k, v in asg.items():
        pk, fk = positive(k)
        if pk == pc:
            return bool(v) ^ fk ^ flip
    return None


def resolve(t, asg):
    """Eliminate spine ifexps under a {cond_term: bool} assignment."""
    while isinstance(t, tuple) and t and t[0] == "ifexp" and decided(asg, t[1]) is not None:
        t = t[2] if decided(asg, t[1]) else t[3]
    return t


def resolve_deep(t, asg):
    """Resolve every ifexp anywhere in t whose condition term is decided by asg."""
    if not asg:
        return t

    def f(x):
        if x[0] == "ifexp":
            d = decided(asg, x[1])
            if d is not None:
                return x[2] if d else x[3]
        return None

    def fold(x):
        # conditions that became constants through the substitution (a decided condition occurring inside another condition)
        if x[0] == "ifexp" and x[1][0] == "const" and isinstance(x[1][1], bool):
            return x[2] if x[1][1] else x[3]
        if x[0] == "unop" and x[1] == "not" and x[2][0] == "const" and isinstance(x[2][1], bool):
            return C(not x[2][1])
        return None
    r = subst(t, f)
    for _ in range(4):
        r2 = subst(r, fold)
        if r2 == r:
            break
        r = r2
    return r


def spine_cases(t):
    """[(assignment, leaf)] for every reachable combination of spine conditions (nested occurrences of an
    already decided condition inside the leaf are resolved consistently)."""
    return [(a, resolve_deep(l, a)) for a, l in _spine_cases(t)]


def _spine_cases(t):
    out = []

    def rec(t, asg):
        if isinstance(t, tuple) and t and t[0] == "ifexp":
            c = t[1]
            d = decided(asg, c)
            if d is not None:
                rec(t[2] if d else t[3], asg)
            else:
                rec(t[2], {**asg, c: True})
                rec(t[3], {**asg, c: False})
        else:
            out.append((asg, t))
    rec(t, {})
    return out


def none_test(c, what):
    """True if `c` true means `what is None`; False if it means not None; None if unrelated."""
    if c[0] == "cmp" and c[2] == what and is_const(c[3], None):
        if c[1] in ("is", "=="):
            return True
        if c[1] in ("is not", "!="):
            return False
    if c[0] == "unop" and c[1] == "not":
        r = none_test(c[2], what)
        return None if r is None else (not r)
    return None


def items(t):
    if isinstance(t, tuple) and t and t[0] in ("tuple", "list") and not any(x[0] == "star" for x in t[1]):
        return list(t[1])
    return None


def is_call(t, fn=None, name=None, attr=None):
    if not (isinstance(t, tuple) and t and t[0] == "call"):
        return False
    if fn is not None and t[1] != fn:
        return False
    if name is not None and t[1] != ("name", name):
        return False
    if attr is not None and not (t[1][0] == "attr" and t[1][2] == attr):
        return False
    return True


def star_args(*pre, args=("param", "args"), kwargs=("param", "kwargs")):
    return tuple(pre) + (("star", args),), ((None, kwargs),)


def mentions(t, sub):
    return any(x == sub for x in subterms(t))


def func_loc(ctx, dotted):
    r = ctx.p.lookup(dotted)
    if r is None:
        return dotted
    return f"{r[2].path}:{getattr(r[1], 'lineno', 0)}"


def short(t, ev=None, n=300):
    s = ts(t, ev)
    return s if len(s) <= n else s[: n - 1] + "…"


def all_cases(t, limit=5):
    """[(assignment, resolved term)] over every ifexp condition occurring anywhere in t."""
    import itertools
    conds = []
    seen_pos = []
    for x in subterms(t):
        if x[0] == "ifexp" and x[1] not in conds:
            pc = positive(x[1])[0]
            if pc in seen_pos:
                continue   # a negated spelling of a condition already enumerated
            seen_pos.append(pc)
            conds.append(x[1])
    if len(conds) > limit:
        raise AnalysisError("too many conditions")
    out = []
    for bits in itertools.product([True, False], repeat=len(conds)):
        asg = dict(zip(conds, bits))
        out.append((asg, resolve_deep(t, asg)))
    return out


def apply_fn(ev, f, args):
    """Value of applying a function-valued term to argument terms: a local closure, functools.partial(...) of either, or a module-level
    repo function (evaluated from its own definition).  None if the term is not one of these."""
    if not isinstance(f, tuple) or not f:
        return None
    if f[0] == "closure":
        return ev.apply_closure(f, tuple(args), ())
    if f[0] == "partial":
        inner = apply_fn(ev, f[1], tuple(f[2]) + tuple(args)) if not f[3] else None
        if inner is not None:
            return inner
        try:
            return ev.call_term(f[1], tuple(f[2]) + tuple(args), tuple(f[3]), None, None)
        except Exception:
            return None
    if f[0] == "name" and f[1].startswith("genjax."):
        look = ev.p.lookup(f[1])
        if look is None or look[0] != "func":
            return None
        try:
            return ev.eval_funcnode(look[1], look[2], f[1], args=tuple(args), kwargs=()).ret
        except Exception:
            return None
    return None


def apply_fn_summary(ev, f, args, kwargs=()):
    """(value, events) of applying a function-valued term (closure, functools.partial of one, module-level repo function) to argument terms,
    or None."""
    if not isinstance(f, tuple) or not f:
        return None
    if f[0] == "partial":
        return apply_fn_summary(ev, f[1], tuple(f[2]) + tuple(args), tuple(f[3]) + tuple(kwargs))
    if f[0] == "closure":
        r = ev.apply_closure(f, tuple(args), tuple(kwargs))
        sm = getattr(ev, "last_closure_summary", None)
        return None if r is None else (r, sm.events if sm is not None else [])
    if f[0] == "name" and f[1].startswith("genjax."):
        look = ev.p.lookup(f[1])
        if look is None or look[0] != "func":
            return None
        try:
            sm = ev.eval_funcnode(look[1], look[2], f[1], args=tuple(args), kwargs=tuple(kwargs))
        except Exception:
            return None
        return sm.ret, sm.events
    return None



def expand_class_calls(ev, t, depth=0):
    """Rewrite calls of a repo classmethod/staticmethod through the class (Cls.make(a, b)) into the value its definition returns on these
    arguments, so that a key/record built by a named constructor is seen through."""
    import ast as _ast
    if not isinstance(t, tuple) or depth > 3:
        return t
    if t and t[0] == "call" and t[1][0] == "name" and t[1][1].startswith("genjax."):
        look = ev.p.lookup(t[1][1])
        if look is not None and look[0] == "method":
            decs = {(_d.id if isinstance(_d, _ast.Name) else getattr(_d, "attr", "")) for _d in look[1].decorator_list}
            pre = None
            if "classmethod" in decs:
                pre = (("name", t[1][1].rsplit(".", 1)[0]),)
            elif "staticmethod" in decs:
                pre = ()
            if pre is not None:
                try:
                    sm = ev.eval_funcnode(look[1], look[2], t[1][1], args=pre + tuple(t[2]), kwargs=tuple(t[3]))
                    return expand_class_calls(ev, sm.ret, depth + 1)
                except Exception:
                    return t
    return tuple(expand_class_calls(ev, x, depth) if isinstance(x, tuple) else x for x in t)

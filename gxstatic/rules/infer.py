"""Rules over genjax.inference (mcmc kernels, chain, smc moves, resampling, vi): shared by C05 C09 C10 C12 C17 C18."""
from __future__ import annotations

import ast

from ..model import AnalysisError
from ..symeval import ts, subterms, subst, is_const, C, NONE
from ..linform import fmt_lf
from .util import (CORE, N, call, CH, SC, RV, mk_ev, mk_lin, summarize, spine_cases, none_test, items, is_call,
                   mentions, func_loc, short, std_axioms, all_cases)
from .gfi import Checker, is_where, where

MCMC = "genjax.inference.mcmc."
SMC = "genjax.inference.smc."
VI = "genjax.inference.vi."
DIST = "genjax.distributions."

CT = ("param", "current_trace")
SELN = ("param", "selection")
STEP = ("param", "step_size")


def m(obj, meth, *args, kw=()):
    return ("call", ("attr", obj, meth), tuple(args), tuple(kw))


GF = m(CT, "get_gen_fn")
TARGS = m(CT, "get_args")
CHS = m(CT, "get_choices")
FILT = m(GF, "filter", CHS, SELN)
SEL, UNSEL = ("idx", FILT, C(0)), ("idx", FILT, C(1))
LD = call(N(MCMC + "_create_log_density_wrt_selected"), GF, TARGS, UNSEL)
A0 = ("star", ("idx", TARGS, C(0)))
AKW = (None, ("idx", TARGS, C(1)))
REGEN = ("call", ("attr", GF, "regenerate"), (CT, SELN, A0), (AKW,))


def upd(x):
    return ("call", ("attr", GF, "update"), (CT, x, A0), (AKW,))


def grad_at(x):
    return ("call", call(N("jax.grad"), LD), (x,), ())


def tree_sum_axiom(x):
    """jtu.tree_reduce(jnp.add, tree) is the sum over the leaves: kept as TREESUM(body) atom."""
    if is_call(x, name="jax.tree_util.tree_reduce") and len(x[2]) == 2 and x[2][0] == N("jax.numpy.add"):
        return call(N("TREESUM"), x[2][1])
    return None


def find_treemap(t):
    return t if (isinstance(t, tuple) and t and t[0] == "treemap") else None


def accept_parts(ck, ev, lin, leaf, proposed, what):
    """leaf must be tree_map(select(accept, new_leaf, old_leaf), proposed, current_trace); returns (accept, W)
    where accept = (log u < min(0, W))."""
    tm = find_treemap(leaf)
    if tm is None:
        ck.fail(what + ": result built by a whole-trace tree_map select", f"found {short(leaf, ev)}")
        return None
    tid, body = tm[1], tm[2]
    rec = ev.treemaps[tid]
    trees = tuple(lin.norm(t) for t in rec["trees"])
    proposed = lin.norm(proposed)
    if len(trees) != 2:
        ck.fail(what + ": select maps over (proposed trace, current trace)", f"{len(trees)} trees")
        return None
    ck.eq("first tree = the proposed trace", trees[0], proposed)
    ck.eq("second tree = the input trace (returned unchanged on reject)", trees[1], CT)
    b = lin.norm(body)
    if not is_where(b):
        ck.fail("leafwise select(accept, proposed leaf, current leaf)", f"found {short(b, ev)}")
        return None
    acc, x, y = b[2]
    if x != lin.norm(ev.leaf_of(tid, trees[0])) or y != lin.norm(ev.leaf_of(tid, trees[1])):
        ck.fail("select arms: accepted → proposed leaf, rejected → current leaf", f"found select(_, {short(x, ev, 80)}, {short(y, ev, 80)})")
    # accept = log(u) < log_alpha
    if not (acc[0] == "cmp" and acc[1] in ("<", "<=")):
        ck.fail("accept iff log u < log alpha", f"found {short(acc, ev, 200)}")
        return None
    lu, la = acc[2], acc[3]
    u = call(N(DIST + "uniform.sample"), C(0.0), C(1.0))
    if lin.norm(lu) != call(N("jax.numpy.log"), u):
        ck.fail("log u with u ~ uniform(0, 1)", f"found {short(lu, ev, 200)}")
    la = lin.norm(la)
    if not (is_call(la, name="jax.numpy.minimum") and len(la[2]) == 2 and any(is_const(a, 0.0) or is_const(a, 0) for a in la[2])):
        ck.fail("log alpha = min(0, log ratio)", f"found {short(la, ev, 200)}")
        return None
    W = [a for a in la[2] if not (is_const(a, 0.0) or is_const(a, 0))][0]
    return acc, W


def saved_accept(ck, ev, s, acc):
    saves = [e for e in s.events if e[1] == "call" and e[2][1] == N("genjax.state.save")]
    main = [e for e in saves if ck.lin.norm(dict(e[2][3]).get("accept", NONE)) == ck.lin.norm(acc)]
    if acc is not None and not main:
        ck.fail("save(accept=<the decision actually applied>)", f"saved: {[short(dict(e[2][3]).get('accept', NONE), ev, 80) for e in saves]}")


def one_uniform(ck, s):
    n = sum(1 for e in s.events if e[1] == "call" and e[2][1] == N(DIST + "uniform.sample"))
    if n != 1:
        ck.fail("one fresh uniform per step", f"{n} uniform.sample calls")


def noop_case(ck, ev, leaf):
    if leaf != CT:
        ck.fail("nothing selected: returns the input trace unchanged", f"found {short(leaf, ev)}")


# ====================================================================== mh
def mh_rule(ctx, rule="ALG-mh"):
    ev = mk_ev(ctx)
    dotted = MCMC + "mh"
    s = summarize(ctx, ev, dotted)
    lin = mk_lin(ev)
    ck = Checker(ctx, ev, lin, rule, "mcmc.mh", func_loc(ctx, dotted))
    for asg, leaf in spine_cases(s.ret):
        r = accept_parts(ck, ev, lin, leaf, ("idx", REGEN, C(0)), "mh")
        if r is None:
            continue
        acc, W = r
        ck.lineq("log ratio = the regenerate weight", W, ("idx", REGEN, C(1)))
        saved_accept(ck, ev, s, acc)
    one_uniform(ck, s)
    ck.done()
    ctx.sample({"rule": rule, "construct": "mcmc.mh", "return": short(s.ret, ev, 400)})


# ====================================================================== mala
def split_spine(ck, ev, s):
    """(noop leaves, main leaves) split on `selected_choices is None`."""
    main = []
    for asg, leaf in spine_cases(s.ret):
        pol = None
        for c, v in asg.items():
            r = none_test(c, SEL)
            if r is None:
                raise AnalysisError(f"{ck.construct}: unrecognised branch condition {short(c, ev)}")
            pol = (r == v)
        if pol:
            noop_case(ck, ev, leaf)
        else:
            main.append(leaf)
    return main


def leaf_shape_dep(t):
    """Does a sampler call's argument list depend on a tree leaf (so the draw has the leaf's shape)?"""
    return any(x[0] == "leaf" for x in subterms(t))


def mala_rule(ctx, rule="ALG-mala"):
    ev = mk_ev(ctx)
    dotted = MCMC + "mala"
    s = summarize(ctx, ev, dotted)
    lin = mk_lin(ev, extra=[tree_sum_axiom])
    ck = Checker(ctx, ev, lin, rule, "mcmc.mala", func_loc(ctx, dotted))
    drift_c = ("binop", "/", ("binop", "**", STEP, C(2)), C(2.0))
    nz = lin.norm
    nSEL, nGF = nz(SEL), nz(GF)
    for leaf in split_spine(ck, ev, s):
        leaf = nz(leaf)
        # the proposed choices: second argument of the update call
        ups = [x for x in subterms(leaf) if is_call(x) and x[1] == ("attr", nGF, "update")]
        ups = list(dict.fromkeys(ups))
        if len(ups) != 1:
            ck.fail("one update with the proposed choices", f"{len(ups)} distinct update calls")
            continue
        U = ups[0]
        if U[2][0] != CT or U[2][2:] != (nz(A0),) or U[3] != ((None, nz(AKW[1])),):
            ck.fail("update(current_trace, proposed, *args, **kwargs) with the recorded arguments", f"found {short(U, ev, 200)}")
        PROP = U[2][1]
        r = accept_parts(ck, ev, lin, leaf, ("idx", U, C(0)), "mala")
        if r is None:
            continue
        acc, W = r
        saved_accept(ck, ev, s, acc)
        # --- proposal, leafwise
        ptm = find_treemap(PROP)
        if ptm is None:
            ck.fail("proposal built leafwise from (selected choices, gradient)", f"found {short(PROP, ev, 200)}")
            continue
        tid = ptm[1]
        cur, g = ("leaf", tid, nSEL), ("leaf", tid, nz(grad_at(SEL)))
        noise_calls = [x for x in subterms(ptm[2]) if is_call(x, name=DIST + "normal.sample")]
        if len(set(noise_calls)) != 1:
            ck.fail("one standard-normal noise draw per leaf", f"{len(set(noise_calls))} normal.sample terms")
            continue
        eps = noise_calls[0]
        ck.lineq("proposal = x + step²/2·∇log p(x) + step·ε (leafwise)", ptm[2],
                 ("binop", "+", ("binop", "+", cur, ("binop", "*", drift_c, g)), ("binop", "*", STEP, eps)))
        if not (len(eps[2]) == 2 and lin.lin(eps[2][0]) == {} and lin.lin(("binop", "-", eps[2][1], C(1))) == {}) and not leaf_shape_dep(eps):
            ck.fail("noise is standard normal", f"found {short(eps, ev)}")
        # --- log ratio = model weight + backward − forward
        lf = lin.lin(W)
        atoms = {k: v for k, v in lf.items()}
        sums = [x for x in subterms(lin.norm(W)) if is_call(x, name="TREESUM")]
        sums = list(dict.fromkeys(sums))
        if len(sums) != 2:
            ck.fail("log ratio = model weight + Σ backward − Σ forward", f"{len(sums)} tree sums found; linear form {fmt_lf(lf)}")
            continue
        sign = {}
        for sm in sums:
            sign[sm] = lf.get(ts(sm, ev))
        fw = [sm for sm in sums if sign[sm] == -1]
        bw = [sm for sm in sums if sign[sm] == 1]
        mw = lf.get(ts(("idx", U, C(1)), ev))
        if len(fw) != 1 or len(bw) != 1 or mw != 1 or len(lf) != 3:
            ck.fail("log ratio = (+1)·model weight + (+1)·Σ backward + (−1)·Σ forward", f"found {fmt_lf(lf)}"[:400])
            continue

        def parts(sm):
            tm = find_treemap(sm[2][0])
            if tm is None:
                return None
            b = lin.norm(tm[2])
            if not (is_call(b, name=DIST + "normal.logpdf") and len(b[2]) == 3):
                return None
            return tm[1], b[2]

        pf, pb = parts(fw[0]), parts(bw[0])
        if pf is None or pb is None:
            ck.fail("proposal densities are per-leaf normal.logpdf(value, mean, step)", "shape not recognised")
            continue
        ftid, (fv, fm, fs) = pf
        btid, (bv, bm, bs) = pb

        def prop_at(t):
            return ev.leaf_of(t, PROP)

        ck.lineq("forward density evaluated at the proposed value", fv, prop_at(ftid))
        ck.lineq("forward mean = x + step²/2·∇log p(x)", fm, ("binop", "+", ("leaf", ftid, nSEL), ("binop", "*", drift_c, ("leaf", ftid, nz(grad_at(SEL))))))
        ck.eq("forward scale = step_size", fs, STEP)
        old = ("idx", m(nGF, "filter", ("idx", U, C(2)), SELN), C(0))
        bvn = lin.norm(bv)
        if bvn not in (("leaf", btid, old), ("leaf", btid, nSEL)):
            ck.fail("backward density evaluated at the old value (the update's discard, filtered by the selection)", f"found {short(bvn, ev, 200)}")
        ck.lineq("backward mean = x' + step²/2·∇log p(x') with the gradient taken at the proposed point", bm,
                 ("binop", "+", prop_at(btid), ("binop", "*", drift_c, ("leaf", btid, nz(("call", call(N("jax.grad"), LD), (PROP,), ()))))))
        ck.eq("backward scale = step_size", bs, STEP)
    one_uniform(ck, s)
    ck.done()


def mala_noise_shape(ctx, rule="SHAPE-proposal-noise"):
    """The per-leaf proposal noise must have the leaf's shape: the leaf has to flow into the draw."""
    ev = mk_ev(ctx)
    dotted = MCMC + "mala"
    s = summarize(ctx, ev, dotted)
    found = False
    for x in subterms(s.ret):
        if x[0] == "treemap":
            for y in subterms(x[2]):
                if is_call(y, name=DIST + "normal.sample"):
                    found = True
                    if leaf_shape_dep(y):
                        ctx.ok(rule, "mcmc.mala.mala_proposal_fn")
                    else:
                        ctx.bad(rule, "mcmc.mala.mala_proposal_fn", "noise = normal.sample(0.0, 1.0) independent of the leaf",
                                "the Gaussian noise is one scalar draw shared by all coordinates of an array-valued choice, while the proposal "
                                "density sums per-coordinate terms (input: any selected address with a vector value)", func_loc(ctx, dotted))
                    return
    ctx.need(found, "mcmc.mala: no noise draw found inside the proposal tree_map")


# ====================================================================== hmc
def hmc_rule(ctx, rule="ALG-hmc"):
    ev = mk_ev(ctx)
    dotted = MCMC + "hmc"
    s = summarize(ctx, ev, dotted)
    lin = mk_lin(ev, extra=[tree_sum_axiom])
    ck = Checker(ctx, ev, lin, rule, "mcmc.hmc", func_loc(ctx, dotted))
    half = ("binop", "/", STEP, C(2.0))
    nz = lin.norm
    for leaf in split_spine(ck, ev, s):
        leaf = nz(leaf)
        sids = sorted({x[1] for x in subterms(leaf) if x[0] == "scan_final"})
        if len(sids) != 1:
            raise AnalysisError("mcmc.hmc: leapfrog scan not found")
        sid = sids[0]
        rec = ev.scans[sid]
        fin = ("scan_final", sid)
        fpos, fmom = ("idx", fin, C(0)), ("idx", fin, C(1))
        U = upd(fpos)
        r = accept_parts(ck, ev, lin, leaf, ("idx", U, C(0)), "hmc")
        if r is None:
            continue
        acc, W = r
        saved_accept(ck, ev, s, acc)
        init = items(rec["init"])
        if init is None or len(init) != 3:
            ck.fail("leapfrog state = (position, momentum, gradient)", f"found {short(rec['init'], ev)}")
            continue
        ck.eq("initial position = the selected choices", init[0], SEL)
        ck.eq("initial gradient = ∇log p at the initial position", init[2], grad_at(SEL))
        init = [nz(x) for x in init]
        p0 = init[1]
        p0tm = find_treemap(p0)
        if p0tm is None or tuple(nz(x) for x in ev.treemaps[p0tm[1]]["trees"]) != (nz(SEL),):
            ck.fail("momentum drawn leafwise over the selected choices", f"found {short(p0, ev)}")
            continue
        pb = lin.norm(p0tm[2])
        if not is_call(pb, name=DIST + "normal.sample"):
            ck.fail("momentum ~ standard normal", f"found {short(pb, ev)}")
        n = ev.kwget(rec["kwargs"], "length")
        xs = rec["xs"]
        if not (is_call(xs, name="jax.numpy.arange") and xs[2] == (("param", "n_steps"),)) and n != ("param", "n_steps"):
            ck.fail("n_steps leapfrog iterations", f"scan over {short(xs, ev)}")
        # body: carry components
        c0, c1, c2 = (("scan_carry", sid, i) for i in range(3))
        body = items(rec["carry_out"])
        if body is None or len(body) != 3:
            ck.fail("leapfrog body returns (position, momentum, gradient)", f"found {short(rec['carry_out'], ev)}")
            continue
        pos, mom, grd = body
        ptm, mtm = find_treemap(pos), find_treemap(mom)
        if ptm is None or mtm is None:
            ck.fail("leapfrog updates are leafwise", "shape not recognised")
            continue

        def lf_(t, tree):
            return ("leaf", t, tree)

        t1 = ptm[1]
        mom_half = ("binop", "+", lf_(t1, c1), ("binop", "*", half, lf_(t1, c2)))
        ck.lineq("position: x' = x + step·(p + step/2·∇(x))", ptm[2], ("binop", "+", lf_(t1, c0), ("binop", "*", STEP, mom_half)))
        ck.eq("gradient re-evaluated at the new position", grd, grad_at(pos))
        grd = nz(grd)
        t2 = mtm[1]
        mom_half2 = ("binop", "+", lf_(t2, c1), ("binop", "*", half, lf_(t2, c2)))
        ck.lineq("momentum: p' = p + step/2·∇(x) + step/2·∇(x')", mtm[2],
                 ("binop", "+", mom_half2, ("binop", "*", half, lf_(t2, grd))))
        # energy difference
        lf = lin.lin(W)
        Wn = lin.norm(W)
        new_model = ts(nz(("call", LD, (fpos,), ())), ev)
        old_model = ts(nz(("call", LD, (SEL,), ())), ev)
        sums = list(dict.fromkeys(x for x in subterms(Wn) if is_call(x, name="TREESUM")))
        ok = lf.get(new_model) == 1 and lf.get(old_model) == -1 and len(sums) == 2 and len(lf) == 4
        if ok:
            plus = [sm for sm in sums if lf.get(ts(sm, ev)) == 1]
            minus = [sm for sm in sums if lf.get(ts(sm, ev)) == -1]
            ok = len(plus) == 1 and len(minus) == 1
        if not ok:
            ck.fail("log ratio = (log p(x') + K(−p')) − (log p(x) + K(p))", f"found {fmt_lf(lf)}"[:500])
            continue

        def kin(sm):
            tm = find_treemap(sm[2][0])
            if tm is None:
                return None
            b = lin.norm(tm[2])
            if is_call(b, name=DIST + "normal.logpdf") and len(b[2]) == 3 and lin.lin(b[2][1]) == {} and lin.lin(("binop", "-", b[2][2], C(1))) == {}:
                return tm[1], b[2][0]
            return None

        kp, km = kin(plus[0]), kin(minus[0])
        if kp is None or km is None:
            ck.fail("kinetic terms are standard-normal log densities of the momenta", "shape not recognised")
            continue
        v = lin.lin(("binop", "+", kp[1], ev.leaf_of(kp[0], fmom)))
        v2 = lin.lin(("binop", "-", kp[1], ev.leaf_of(kp[0], fmom)))
        if v and v2:
            ck.fail("final kinetic term evaluated at ±(final momentum)", f"found {short(kp[1], ev, 200)}")
        ck.lineq("initial kinetic term evaluated at the initial momentum", km[1], ev.leaf_of(km[0], p0))
    one_uniform(ck, s)
    ck.done()


def hmc_momentum_shape(ctx, rule="SHAPE-proposal-noise"):
    ev = mk_ev(ctx)
    dotted = MCMC + "hmc"
    s = summarize(ctx, ev, dotted)
    for sid, rec in ev.scans.items():
        init = items(rec["init"])
        if init and len(init) == 3 and find_treemap(init[1]):
            tm = init[1]
            draws = [y for y in subterms(tm[2]) if is_call(y, name=DIST + "normal.sample")]
            if draws and not any(leaf_shape_dep(y) for y in draws):
                ctx.bad(rule, "mcmc.hmc.sample_momentum", "momentum = normal.sample(0.0, 1.0) independent of the leaf",
                        "one scalar momentum per address whatever the address's shape: the kinetic energy of a scalar is compared with that of the "
                        "broadcast final momentum (input: any selected address with a vector value)", func_loc(ctx, dotted))
            else:
                ctx.ok(rule, "mcmc.hmc.sample_momentum")
            return
    raise AnalysisError("mcmc.hmc: momentum draw not found")


def log_density_closure(ctx, rule="ALG-selected-density"):
    ev = mk_ev(ctx)
    dotted = MCMC + "_create_log_density_wrt_selected"
    s = summarize(ctx, ev, dotted)
    lin = mk_lin(ev)
    ck = Checker(ctx, ev, lin, rule, "mcmc._create_log_density_wrt_selected", func_loc(ctx, dotted))
    ctx.need(s.ret[0] == "closure", f"{dotted}: does not return a closure")
    G, A, UNS = ("param", "target_gf"), ("param", "args"), ("param", "unselected_choices")
    X = ("param", "selected_choices_only")
    r = ev.apply_closure(s.ret, (X,), ())
    saw = set()
    for asg, leaf in all_cases(r):
        pol = None
        for c, v in asg.items():
            rr = none_test(c, UNS)
            if rr is None:
                raise AnalysisError(f"{dotted}: unrecognised condition {short(c, ev)}")
            pol = (rr == v)
        saw.add(pol)
        full = X if pol else ("idx", ("call", ("attr", G, "merge"), (UNS, X), ()), C(0))
        want = ("idx", ("call", ("attr", G, "assess"), (full, ("star", ("idx", A, C(0)))), ((None, ("idx", A, C(1))),)), C(0))
        ck.eq("density = assess(merge(unselected, selected)[0], *args, **kwargs)[0] (selected values take precedence)", leaf, want)
    ck.done()


# ====================================================================== chain (C18)
def chain_rule(ctx, rule="ROLE-chain"):
    ev = mk_ev(ctx, depth=4)
    dotted = MCMC + "chain"
    s = summarize(ctx, ev, dotted)
    lin = mk_lin(ev)
    ck = Checker(ctx, ev, lin, rule, "mcmc.chain.run_chain", func_loc(ctx, dotted))
    ctx.need(s.ret[0] == "closure", "mcmc.chain: does not return run_chain")
    KER = ("param", "mcmc_kernel")
    IT = ("param", "initial_trace")
    P = {n: ("param", n) for n in ("n_steps", "burn_in", "autocorrelation_resampling", "n_chains")}
    r = ev.apply_closure(s.ret, (IT, P["n_steps"]), tuple((k, P[k]) for k in ("burn_in", "autocorrelation_resampling", "n_chains")))
    nv = lambda k: ("attr", P[k], "value")
    single = multi = None
    for asg, leaf in spine_cases(r):
        for c, v in asg.items():
            if c in (("cmp", "==", nv("n_chains"), C(1)), ("cmp", "!=", nv("n_chains"), C(1))):
                if v == (c[1] == "=="):
                    single = leaf
                else:
                    multi = leaf
            elif c == ("cmp", ">", nv("n_chains"), C(1)):
                pass
            else:
                raise AnalysisError(f"mcmc.chain: unrecognised branch condition {short(c, ev)}")
    if single is None or multi is None:
        raise AnalysisError("mcmc.chain: single/multi-chain split not recognised")
    # ---- single chain
    info = ev.ctor_info(single)
    if info is None or not info[0].endswith("MCMCResult"):
        ck.fail("returns an MCMCResult", f"found {short(single, ev)}")
        ck.done()
        return
    f = {k: ev.ctor_field(single, k) for k in ("traces", "accepts", "acceptance_rate", "n_steps", "n_chains")}
    idx_want = call(N("jax.numpy.arange"), nv("burn_in"), nv("n_steps"), nv("autocorrelation_resampling"))
    # the scan under the state interpreter
    sids = [sid for sid, rec in ev.scans.items() if rec["init"] == IT]
    if not sids:
        ck.fail("scan over the kernel from the initial trace", "no scan with init = initial_trace")
        ck.done()
        return
    sid = sids[0]
    rec = ev.scans[sid]
    carry = ("scan_carry", sid, None)
    new = ("call", KER, (carry,), ())
    ck.eq("scan carries the post-kernel trace", rec["carry_out"], new)
    ck.eq("scan emits the post-kernel trace", rec["ys"], new)
    xs = rec["xs"]
    if xs != call(N("jax.numpy.arange"), nv("n_steps")):
        ck.fail("n_steps kernel applications", f"scan over {short(xs, ev)}")
    # traces = tree_map(x[indices]) over the stacked traces collected under state()
    tm = find_treemap(f["traces"])
    if tm is None:
        ck.fail("retained traces selected leafwise", f"found {short(f['traces'], ev, 200)}")
    else:
        tid = tm[1]
        tree = ev.treemaps[tid]["trees"][0]
        if tree != ("stack", sid, new):
            ck.fail("traces = the stacked per-step outputs of the kernel scan", f"found {short(tree, ev, 200)}")
        idxs = [x for x in subterms(tm[2]) if x[0] == "idx" and x[1] == ("leaf", tid, tree)]
        if not idxs or any(lin.norm(x[2]) != idx_want for x in idxs):
            ck.fail("every trace leaf indexed by arange(burn_in, n_steps, thinning)", f"found {[short(x[2], ev, 100) for x in idxs]}")
        acc = f["accepts"]
        if not (acc[0] == "idx" and lin.norm(acc[2]) == idx_want):
            ck.fail("accepts indexed by the same retained-step indices", f"found {short(acc, ev, 200)}")
        else:
            src = acc[1]
            ok = is_call(src) and src[1][0] == "attr" and src[1][2] == "get" and src[2] and src[2][0] == C("accept") \
                and src[1][1][0] == "collected" and ev.states[src[1][1][1]]["body"] == tree
            if not ok:
                ck.fail("accepts = the 'accept' entry of the state collected by the same run", f"found {short(src, ev, 200)}")
        ck.eq("acceptance_rate = mean(retained accepts)", f["acceptance_rate"], call(N("jax.numpy.mean"), f["accepts"]))
        want_n = call(N(CORE + "const"), call(N("builtins.len"), idx_want))
        ck.eq("n_steps = number of retained states", lin.norm(f["n_steps"]), want_n)
        ck.eq("n_chains recorded", f["n_chains"], P["n_chains"])
    # ---- multi chain
    lanes = [x for x in subterms(multi) if x[0] == "lanes"]
    if not lanes:
        ck.fail("multi-chain path vectorises run_chain", "no modular_vmap call found")
    else:
        vrec = ev.vmaps[lanes[0][1]]
        if vrec["which"] != "genjax.pjax.modular_vmap":
            ck.fail("chains vectorised with modular_vmap (independent randomness per chain)", vrec["which"])
        if vrec["in_axes"] not in (C(0), ("tuple", (C(0),))):
            ck.fail("replicated initial traces mapped over axis 0", f"in_axes={short(vrec['in_axes'] or NONE, ev)}")
        mf = {k: ev.ctor_field(multi, k) for k in ("traces", "accepts", "n_chains")} if ev.ctor_info(multi) else None
        if mf is None:
            ck.fail("multi-chain returns an MCMCResult", f"found {short(multi, ev, 200)}")
        else:
            L0 = lanes[0]
            if mf["traces"] != ("attr", L0, "traces") and not mentions(mf["traces"], L0):
                ck.fail("traces keep the leading chain axis", f"found {short(mf['traces'], ev, 200)}")
            if mf["accepts"] != ("attr", L0, "accepts") and not mentions(mf["accepts"], L0):
                ck.fail("accepts keep the leading chain axis", f"found {short(mf['accepts'], ev, 200)}")
        # inner call: same n_steps / burn_in / thinning, one chain
        kind, node, mod, owner = ctx.p.get_function(MCMC + "chain")
        inner = [c for c in ast.walk(node) if isinstance(c, ast.Call) and isinstance(c.func, ast.Name) and c.func.id == "run_chain"]
        if len(inner) != 1:
            ck.fail("one recursive per-chain call", f"{len(inner)} found")
        else:
            c = inner[0]
            kws = {k.arg: ast.unparse(k.value) for k in c.keywords}
            pos = [ast.unparse(a) for a in c.args]
            if pos[1:2] != ["n_steps"] or kws.get("burn_in") != "burn_in" or kws.get("autocorrelation_resampling") != "autocorrelation_resampling" \
                    or kws.get("n_chains") != "const(1)":
                ck.fail("per-chain call re-uses n_steps/burn_in/thinning with n_chains=const(1)", f"found args={pos} kwargs={kws}")
        reps = [x for x in subterms(multi) if is_call(x, name="jax.numpy.repeat")]
        if not reps or any(x[2][1] != nv("n_chains") for x in reps if len(x[2]) > 1):
            ck.fail("initial trace replicated n_chains times along a new leading axis", f"found {[short(x, ev, 120) for x in reps]}")
    ck.done()
    ctx.sample({"rule": rule, "construct": "mcmc.chain.run_chain", "retained_indices": short(idx_want, ev)})


# ====================================================================== resampling (C12, C05)
def resample_index_rule(ctx, rule="ROLE-one-index"):
    """resample_vectorized_trace: one index vector (from the weights) subscripts axis 0 of every leaf of the whole trace."""
    ev = mk_ev(ctx)
    dotted = SMC + "resample_vectorized_trace"
    s = summarize(ctx, ev, dotted)
    lin = mk_lin(ev)
    ck = Checker(ctx, ev, lin, rule, "smc.resample_vectorized_trace", func_loc(ctx, dotted))
    TRC, LW, NS, METH = ("param", "trace"), ("param", "log_weights"), ("param", "n_samples"), ("param", "method")
    seen = {}
    # the path taken for each value of `method` is found by evaluating the path conditions with `method` bound to that value (finite model):
    # any spelling of the dispatch (==, !=, in/not in a tuple, a dict lookup guard, guard clause first) is handled alike
    from ..absint import Model, Unknown
    cases = all_cases(s.ret)
    for which_val in ("categorical", "systematic", "no-such-method"):
        chosen = []
        for asg, leaf in cases:
            m = Model(evaluator=ev)
            m.bind(METH, which_val)
            try:
                if all(bool(m.truth(c)) == bool(v) for c, v in asg.items()):
                    chosen.append(leaf)
            except Unknown as e:
                raise AnalysisError(f"smc.resample_vectorized_trace: path condition not decidable for method={which_val!r}: {e}")
        if len(chosen) != 1:
            raise AnalysisError(f"smc.resample_vectorized_trace: {len(chosen)} paths for method={which_val!r}")
        leaf = chosen[0]
        which = None if which_val == "no-such-method" else which_val
        raises = leaf[0] == "raise" or any(x[0] == "raise" for x in subterms(leaf))
        if which is None:
            if not raises:
                ck.fail("unknown method raises", f"found {short(leaf, ev)}")
            continue
        if raises:
            ck.fail(f"[{which}] method supported", "raises")
            continue
        tm = find_treemap(leaf)
        if tm is None or ev.treemaps[tm[1]]["trees"] != (TRC,):
            ck.fail(f"[{which}] whole-trace tree_map", f"found {short(leaf, ev, 200)}")
            continue
        b = tm[2]
        LEAF = ("leaf", tm[1], TRC)
        # a gather of rows along axis 0 — NumPy-style indexing, or jnp.take(leaf, idx, axis=0)
        if is_call(b) and b[1][0] == "name" and b[1][1] in ("jax.numpy.take",) and len(b[2]) >= 2 and b[2][0] == LEAF \
                and (ev.kwget(b[3], "axis") == C(0) or (len(b[2]) >= 3 and b[2][2] == C(0))):
            mode = ev.kwget(b[3], "mode")
            # value-range argument: the systematic method's indices come from searchsorted(cumulative weights (N entries), positions), whose
            # result ranges over [0, N] *inclusive* (N when a position exceeds the last cumulative weight — the float32 cumsum of normalised
            # weights may end below 1); rows exist for [0, N-1].  leaf[idx] clamps such an index to the last row (the correct ancestor);
            # jnp.take's default mode='fill' returns NaN / INT_MIN rows for it: a particle that is a copy of no input particle.
            if which != "systematic":
                seen[which] = b[2][1]      # categorical indices range over [0, N-1]: every gather mode agrees
                continue
            if mode is None or (mode[0] == "const" and mode[1] not in ("clip", "wrap")):
                ck.fail(f"[{which}] gather is total on the index range of its producer",
                        f"jnp.take(leaf, indices, axis=0{'' if mode is None else ', mode=' + repr(mode[1])}) fills out-of-range rows with NaN/INT_MIN; "
                        "searchsorted against the N cumulative weights ranges over [0, N] (N when the float32 cumsum ends below the last position), "
                        "where NumPy-style leaf[indices] clamps to the last particle")
                continue
            if mode[0] == "const" and mode[1] == "wrap":
                ck.fail(f"[{which}] gather is total on the index range of its producer", "mode='wrap' maps the out-of-range index N to particle 0 (wrong ancestor)")
                continue
            seen[which] = b[2][1]
            continue
        if not (b[0] == "idx" and b[1] == LEAF):
            ck.fail(f"[{which}] every leaf indexed on its first axis", f"found {short(b, ev, 200)}")
            continue
        seen[which] = b[2]
    cat = call(N(DIST + "categorical.sample"), LW)
    cat = ("call", cat[1], (LW,), (("sample_shape", ("tuple", (NS,))),))
    sysr = call(N(SMC + "systematic_resample"), LW, NS)
    if "categorical" in seen:
        ck.eq("[categorical] indices = categorical.sample(log_weights, sample_shape=(n_samples,))", seen["categorical"], cat)
    else:
        ck.fail("categorical method present", "missing")
    if "systematic" in seen:
        ck.eq("[systematic] indices = systematic_resample(log_weights, n_samples)", seen["systematic"], sysr)
    else:
        ck.fail("systematic method present", "missing")
    ck.done()


# ====================================================================== SMC moves (C10, C12)
PARTS = ("param", "particles")


def pc_fields(ev, t):
    info = ev.ctor_info(t)
    if info is None or not info[0].endswith("ParticleCollection"):
        return None
    return {k: ev.ctor_field(t, k) for k in ("traces", "log_weights", "diagnostic_weights", "n_samples", "log_marginal_estimate")}


def smc_ev(ctx):
    ev = mk_ev(ctx, inline={SMC + "_create_particle_collection"}, depth=4)
    # `particles` is a ParticleCollection in every SMC move: its concrete accessors (log_marginal_likelihood(), effective_sample_size(), ...)
    # are inlined, so `particles.log_marginal_likelihood()` and the spelled-out formula are one term
    ev.param_class["particles"] = SMC + "ParticleCollection"
    return ev


def pc_nonnull_axiom(x):
    """Fields of an existing ParticleCollection are arrays, never None (dataclass defaults; every constructor path fills them)."""
    if x[0] == "cmp" and x[1] in ("is", "is not") and is_const(x[3], None) and x[2][0] == "attr" and x[2][1] == PARTS:
        return C(x[1] == "is not")
    return None


def smc_lin(ev):
    return mk_lin(ev, extra=[pc_nonnull_axiom])


def lanes_norm(t):
    """lanes(f(...))[i] for a mapped function that returns a GFI method's result tuple directly is lanes(f(...)[i])."""
    if isinstance(t, tuple) and t and t[0] == "idx" and t[1][0] == "lanes" and t[2][0] == "const" and isinstance(t[2][1], int) \
            and t[1][2][0] == "call" and t[1][2][1][0] == "attr" and t[1][2][1][2] in ("generate", "assess", "update", "regenerate"):
        return ("lanes", t[1][1], ("idx", t[1][2], t[2]))
    return t


def lanes_axiom(x):
    r = lanes_norm(x)
    return r if r is not x and r != x else None


def lanes_body(t):
    t = lanes_norm(t)
    return t[2] if (isinstance(t, tuple) and t and t[0] == "lanes") else None


def lse(x):
    return call(N("jax.scipy.special.logsumexp"), x)


def particle_collection_helper(ctx, rule="ALG-smc"):
    ev = mk_ev(ctx)
    dotted = SMC + "_create_particle_collection"
    s = summarize(ctx, ev, dotted)
    lin = mk_lin(ev)
    ck = Checker(ctx, ev, lin, rule, "smc._create_particle_collection", func_loc(ctx, dotted))
    P = lambda n: ("param", n)
    for asg, leaf in all_cases(s.ret):
        f = pc_fields(ev, leaf)
        if f is None:
            ck.fail("returns a ParticleCollection", f"found {short(leaf, ev)}")
            continue
        ck.eq("traces forwarded", f["traces"], P("traces"))
        ck.eq("log_weights forwarded", f["log_weights"], P("log_weights"))
        ck.eq("n_samples forwarded", f["n_samples"], P("n_samples"))
        est_none = dg_none = None
        for c, v in asg.items():
            r1, r2 = none_test(c, P("log_marginal_estimate")), none_test(c, P("diagnostic_weights"))
            if r1 is not None:
                est_none = (r1 == v)
            elif r2 is not None:
                dg_none = (r2 == v)
            else:
                raise AnalysisError(f"{dotted}: unrecognised condition {short(c, ev)}")
        if est_none:
            ck.lineq("default estimate = 0", f["log_marginal_estimate"], C(0))
        else:
            ck.eq("estimate forwarded", f["log_marginal_estimate"], P("log_marginal_estimate"))
        if dg_none:
            ck.lineq("default diagnostic weights = log-normalised weights", f["diagnostic_weights"], ("binop", "-", P("log_weights"), lse(P("log_weights"))))
        else:
            ck.eq("diagnostic weights forwarded", f["diagnostic_weights"], P("diagnostic_weights"))
    ck.done()


def vmap_axes_ok(ck, ev, rec, n_expected, axes_expected, what):
    if rec["which"] != "genjax.pjax.modular_vmap":
        ck.fail(what + ": particles vectorised with modular_vmap", rec["which"])
    ax = ev.kwget(rec["opts"], "axis_size")
    ck.eq(what + ": axis_size = number of particles", ax or NONE, n_expected)
    ck.eq(what + ": in_axes", rec["in_axes"] or NONE, axes_expected)


def smc_init_rule(ctx, rule="ALG-smc"):
    ev = smc_ev(ctx)
    dotted = SMC + "init"
    s = summarize(ctx, ev, dotted)
    lin = mk_lin(ev, extra=[lanes_axiom])
    ck = Checker(ctx, ev, lin, rule, "smc.init", func_loc(ctx, dotted))
    G, A, NS, CON, PG = (("param", n) for n in ("target_gf", "target_args", "n_samples", "constraints", "proposal_gf"))
    saw = set()
    for asg, leaf in all_cases(s.ret):
        pol = None
        for c, v in asg.items():
            r = none_test(c, PG)
            if r is None:
                raise AnalysisError(f"smc.init: unrecognised condition {short(c, ev)}")
            pol = (r == v)
        saw.add(pol)
        f = pc_fields(ev, leaf)
        if f is None:
            ck.fail("returns a ParticleCollection", f"found {short(leaf, ev, 200)}")
            continue
        f["traces"], f["log_weights"] = lanes_norm(f["traces"]), lanes_norm(f["log_weights"])
        tb, wb = lanes_body(f["traces"]), lanes_body(f["log_weights"])
        if tb is None or wb is None or f["traces"][1] != f["log_weights"][1]:
            ck.fail("traces and weights come from one vectorised importance-sampling call", f"found {short(f['log_weights'], ev, 200)}")
            continue
        rec = ev.vmaps[f["traces"][1]]
        star = ("star", A)
        if pol:
            g = ("call", ("attr", G, "generate"), (CON, star), ())
            ck.eq("[default proposal] trace = target.generate(constraints, *args)[0]", tb, ("idx", g, C(0)))
            ck.lineq("[default proposal] log weight = the generate weight", wb, ("idx", g, C(1)))
            vmap_axes_ok(ck, ev, rec, ("attr", NS, "value"), ("tuple", (NONE, NONE, NONE)), "default")
        else:
            ptr = ("call", ("attr", PG, "simulate"), (CON, star), ())
            merged = ("idx", ("call", ("attr", G, "merge"), (CH(ptr), CON), ()), C(0))
            g = ("call", ("attr", G, "generate"), (merged, star), ())
            ck.eq("[custom proposal] trace = target.generate(merge(proposal choices, constraints)[0], *args)[0]", tb, ("idx", g, C(0)))
            ck.lineq("[custom proposal] log weight = generate weight + proposal score (= −log q)", wb, ("binop", "+", ("idx", g, C(1)), SC(ptr)))
            vmap_axes_ok(ck, ev, rec, ("attr", NS, "value"), ("tuple", (NONE, NONE, NONE, NONE)), "custom")
        ns = lin.norm(f["n_samples"])
        if ns not in (NS, call(N(CORE + "const"), ("attr", NS, "value"))):
            ck.fail("particle count recorded", f"found {short(ns, ev)}")
        ck.lineq("accumulated estimate starts at 0", f["log_marginal_estimate"], C(0))
        ck.lineq("diagnostic weights = log-normalised weights", f["diagnostic_weights"], ("binop", "-", f["log_weights"], lse(f["log_weights"])))
    if saw != {True, False}:
        ck.fail("default and custom proposal paths", f"cases: {saw}")
    ck.done()


def targs(t):
    """args tuple built from a per-particle argument: `a if isinstance(a, tuple) else (a,)`."""
    return ("ifexp", call(N("builtins.isinstance"), t, N("builtins.tuple")), t, ("tuple", (t,)))


def smc_extend_rule(ctx, rule="ALG-smc"):
    ev = smc_ev(ctx)
    dotted = SMC + "extend"
    s = summarize(ctx, ev, dotted)
    lin = smc_lin(ev)
    ck = Checker(ctx, ev, lin, rule, "smc.extend", func_loc(ctx, dotted))
    G, EA, CON, EP = (("param", n) for n in ("extended_target_gf", "extended_target_args", "constraints", "extension_proposal"))
    f = pc_fields(ev, s.ret)
    if f is None:
        raise AnalysisError("smc.extend: result is not a ParticleCollection construction")
    tb, wb = lanes_body(f["traces"]), lanes_body(f["log_weights"])
    if tb is None or wb is None or f["traces"][1] != f["log_weights"][1]:
        raise AnalysisError("smc.extend: vectorised extension not recognised")
    vid = f["traces"][1]
    rec = ev.vmaps[vid]
    vmap_axes_ok(ck, ev, rec, ("attr", ("attr", PARTS, "n_samples"), "value"), ("tuple", (C(0), C(0), C(0))), "extend")
    ck.eq("mapped arguments = (particles.traces, particles.log_weights, per-particle args)", ("tuple", rec["args"]),
          ("tuple", (("attr", PARTS, "traces"), ("attr", PARTS, "log_weights"), EA)))
    otr, ow, pa = (("lane", vid, a, C(0)) for a in (("attr", PARTS, "traces"), ("attr", PARTS, "log_weights"), EA))
    star = ("star", targs(pa))
    saw = set()
    for asg, pair in all_cases(("tuple", (tb, wb))):
        tleaf, wleaf = pair[1]
        pol = None
        for c, v in asg.items():
            r = none_test(c, EP)
            if r is not None:
                pol = (r == v)
        if pol is None:
            continue
        key = tuple(sorted((ts(c, ev), v) for c, v in asg.items() if none_test(c, EP) is None))
        saw.add(pol)
        tleaf, wleaf = lin.norm(tleaf), lin.norm(wleaf)
        # resolve the isinstance split consistently in the expectation too
        def ex(t):
            from .util import resolve_deep
            return lin.norm(resolve_deep(t, asg))
        if pol:
            g = ("call", ("attr", G, "generate"), (CON, star), ())
            ck.eq("[no proposal] trace = target.generate(constraints, *args)[0]", tleaf, ex(("idx", g, C(0))))
            ck.lineq("[no proposal] weight = old weight + generate weight", wleaf, ex(("binop", "+", ow, ("idx", g, C(1)))))
        else:
            etr = ("call", ("attr", EP, "simulate"), (CON, CH(otr), star), ())
            merged = ("idx", ("call", ("attr", G, "merge"), (CON, CH(etr)), ()), C(0))
            g = ("call", ("attr", G, "generate"), (merged, star), ())
            ck.eq("[proposal] trace = target.generate(merge(constraints, extension choices)[0], *args)[0]", tleaf, ex(("idx", g, C(0))))
            ck.lineq("[proposal] weight = old weight + generate weight + proposal score", wleaf,
                     ex(("binop", "+", ("binop", "+", ow, ("idx", g, C(1))), SC(etr))))
    if saw != {True, False}:
        ck.fail("both extension paths analysed", f"cases: {saw}")
    ck.eq("particle count forwarded", f["n_samples"], ("attr", PARTS, "n_samples"))
    ck.eq("accumulated estimate forwarded", f["log_marginal_estimate"], ("attr", PARTS, "log_marginal_estimate"))
    ck.done()


def smc_change_rule(ctx, rule="ALG-smc"):
    ev = smc_ev(ctx)
    dotted = SMC + "change"
    s = summarize(ctx, ev, dotted)
    lin = smc_lin(ev)
    ck = Checker(ctx, ev, lin, rule, "smc.change", func_loc(ctx, dotted))
    G, A, CF = (("param", n) for n in ("new_target_gf", "new_target_args", "choice_fn"))
    f = pc_fields(ev, s.ret)
    if f is None:
        raise AnalysisError("smc.change: result is not a ParticleCollection construction")
    tb, wb = lanes_body(f["traces"]), lanes_body(f["log_weights"])
    if tb is None or wb is None:
        raise AnalysisError("smc.change: vectorised move not recognised")
    vid = f["traces"][1]
    rec = ev.vmaps[vid]
    vmap_axes_ok(ck, ev, rec, ("attr", ("attr", PARTS, "n_samples"), "value"), ("tuple", (C(0), C(0))), "change")
    otr, ow = (("lane", vid, a, C(0)) for a in (("attr", PARTS, "traces"), ("attr", PARTS, "log_weights")))
    g = ("call", ("attr", G, "generate"), (("call", CF, (CH(otr),), ()), ("star", A)), ())
    ck.eq("trace = new_target.generate(choice_fn(old choices), *args)[0]", tb, ("idx", g, C(0)))
    ck.lineq("weight = old weight + generate weight", wb, ("binop", "+", ow, ("idx", g, C(1))))
    ck.eq("particle count forwarded", f["n_samples"], ("attr", PARTS, "n_samples"))
    ck.eq("accumulated estimate forwarded", f["log_marginal_estimate"], ("attr", PARTS, "log_marginal_estimate"))
    ck.done()


def smc_rejuvenate_rule(ctx, rule="ALG-smc"):
    ev = smc_ev(ctx)
    dotted = SMC + "rejuvenate"
    s = summarize(ctx, ev, dotted)
    lin = smc_lin(ev)
    ck = Checker(ctx, ev, lin, rule, "smc.rejuvenate", func_loc(ctx, dotted))
    K = ("param", "mcmc_kernel")
    f = pc_fields(ev, s.ret)
    if f is None:
        raise AnalysisError("smc.rejuvenate: result is not a ParticleCollection construction")
    tb, wb = lanes_body(f["traces"]), lanes_body(f["log_weights"])
    w_in = ("attr", PARTS, "log_weights")
    if tb is None:
        raise AnalysisError("smc.rejuvenate: vectorised move not recognised")
    vid = f["traces"][1]
    rec = ev.vmaps[vid]
    vmap_axes_ok(ck, ev, rec, ("attr", ("attr", PARTS, "n_samples"), "value"), ("tuple", (C(0), C(0))) if len(rec["args"]) == 2 else ("tuple", (C(0),)), "rejuvenate")
    otr = ("lane", vid, ("attr", PARTS, "traces"), C(0))
    ck.eq("trace = kernel(old trace), particle by particle", tb, ("call", K, (otr,), ()))
    if wb is not None:
        ck.eq("weights untouched by the kernel", wb, ("lane", vid, w_in, C(0)))
    else:
        ck.eq("weights untouched by the kernel", f["log_weights"], w_in)
    ck.eq("particle count forwarded", f["n_samples"], ("attr", PARTS, "n_samples"))
    ck.eq("accumulated estimate forwarded", f["log_marginal_estimate"], ("attr", PARTS, "log_marginal_estimate"))
    ck.eq("diagnostic weights forwarded", f["diagnostic_weights"], ("attr", PARTS, "diagnostic_weights"))
    ck.done()


def smc_accessors_rule(ctx, rule="ALG-smc"):
    ev = mk_ev(ctx, inline={SMC + "effective_sample_size"})
    lin = mk_lin(ev)
    S = ("param", "self")
    lw = ("attr", S, "log_weights")
    n = ("attr", ("attr", S, "n_samples"), "value")
    dotted = SMC + "ParticleCollection.log_marginal_likelihood"
    s = summarize(ctx, ev, dotted)
    ck = Checker(ctx, ev, lin, rule, "smc.ParticleCollection.log_marginal_likelihood", func_loc(ctx, dotted))
    ck.lineq("estimate = accumulated + logsumexp(weights) − log N", s.ret,
             ("binop", "+", ("attr", S, "log_marginal_estimate"), ("binop", "-", lse(lw), call(N("jax.numpy.log"), n))))
    ck.done()
    dotted = SMC + "effective_sample_size"
    s = summarize(ctx, ev, dotted)
    ck = Checker(ctx, ev, Lin_nosum(ev), rule, "smc.effective_sample_size", func_loc(ctx, dotted))
    W = ("param", "log_weights")
    wn = call(N("jax.numpy.exp"), ("binop", "-", W, lse(W)))
    ck.lineq("ESS = 1 / Σ (normalised weight)²", s.ret, ("binop", "/", C(1.0), call(N("jax.numpy.sum"), ("binop", "**", wn, C(2)))))
    ck.done()


def smc_estimate_rule(ctx, rule="ALG-smc"):
    """ParticleCollection.estimate(fn) is the self-normalised weighted average Σ_i w̃_i fn(choices_i), w̃ = exp(lw − logsumexp(lw)), with fn mapped
    over the particles' own choices (C10: "estimate-weighted particle averages")."""
    ev = mk_ev(ctx)
    dotted = SMC + "ParticleCollection.estimate"
    s = summarize(ctx, ev, dotted)
    lin = Lin_nosum(ev)
    ck = Checker(ctx, ev, lin, rule, "smc.ParticleCollection.estimate", func_loc(ctx, dotted))
    S = ("param", "self")
    lw = ("attr", S, "log_weights")
    wn = call(N("jax.numpy.exp"), ("binop", "-", lw, lse(lw)))
    vm = [r for r in ev.vmaps.values() if r["f"] == ("param", "fn")]
    if len(vm) != 1:
        ck.fail("fn is mapped over the particles once", f"{len(vm)} vectorised applications of fn")
        ck.done()
        return
    rec = vm[0]
    tr_choices = [CH(("attr", S, "traces")), ("call", ("attr", ("attr", S, "traces"), "get_choices"), (), ())]
    if len(rec["args"]) != 1 or lin.norm(rec["args"][0]) not in [lin.norm(x) for x in tr_choices] or rec["kwargs"]:
        ck.fail("fn is applied to the particles' own choices", f"found {short(('tuple', rec['args']), ev, 120)}")
    if rec["in_axes"] not in (None, C(0), ("tuple", (C(0),))):
        ck.fail("fn is mapped along the particle axis", f"in_axes={short(rec['in_axes'], ev)}")
    vals = [x for x in subterms(s.ret) if x[0] == "lanes" and ev.vmaps.get(x[1]) is rec]
    if not vals:
        raise AnalysisError("smc.ParticleCollection.estimate: mapped values not found in the result")
    V = vals[0]
    seen = 0
    for asg, leaf in all_cases(s.ret):
        if not is_call(leaf, name="jax.numpy.sum") or len(leaf[2]) != 1:
            ck.fail("weighted sum over particles", f"found {short(leaf, ev, 160)}")
            continue
        seen += 1
        prod = leaf[2][0]
        axis = ev.kwget(leaf[3], "axis")
        w_plain = ("binop", "*", wn, V)
        w_col = ("binop", "*", ("idx", wn, ("tuple", (("slice", NONE, NONE, NONE), NONE))), V)
        if axis is None:
            ck.lineq("scalar values: Σ normalised weight · value", prod, w_plain)
        elif axis == C(0):
            got = lin.norm(prod)
            if got not in (lin.norm(w_col), lin.norm(("binop", "*", w_col[3], w_col[2]))):
                # compare through the polynomial form with the broadcast weight as an atom
                ck.lineq("array values: Σ_i normalised weight_i · value_i along the particle axis", prod, w_col)
        else:
            ck.fail("sum runs over the particle axis", f"axis={short(axis, ev)}")
    if seen == 0:
        ck.fail("weighted sum over particles", "no summation found")
    # rank of the per-particle values: the column spelling w[:, None] * values broadcasts the weights along the particle axis only for stacked
    # values of rank 2; decided in the finite situations values.ndim = 2, 3 (the cases' guards are evaluated, whatever they are written with)
    from ..absint import Model, Unknown
    w_col = ("idx", wn, ("tuple", (("slice", NONE, NONE, NONE), NONE)))
    for nd in (2, 3):
        m = Model(evaluator=ev)
        m.bind(("attr", V, "ndim"), nd)
        m.funcs["jax.numpy.ndim"] = lambda x, nd=nd: nd
        for asg, leaf in all_cases(s.ret):
            try:
                live = all(m.truth(c) == bool(v) for c, v in asg.items())
            except Unknown as e:
                raise AnalysisError(f"smc.ParticleCollection.estimate: unrecognised condition on the values' rank ({e})")
            if not live or not is_call(leaf, name="jax.numpy.sum") or len(leaf[2]) != 1 or ev.kwget(leaf[3], "axis") != C(0):
                continue
            prod = lin.norm(leaf[2][0])
            if nd == 3 and prod in (lin.norm(("binop", "*", w_col, V)), lin.norm(("binop", "*", V, w_col))):
                ck.fail("array values of every rank weighted along the particle axis",
                        "for per-particle values of rank >= 2 (stacked rank >= 3) the weights are broadcast as w[:, None], i.e. against the values' second-to-last axis: a shape "
                        "error unless that axis has the particle count's length, in which case the weights land on the wrong axis and the estimate is silently wrong; "
                        "input: N = 3 particles, fn = lambda ch: jnp.outer(jnp.arange(1., 4.), jnp.array([1., ch['x']])) "
                        "(findings_repro/repro_f35_estimate_rank3.py; w.reshape((-1,) + (1,) * (values.ndim - 1)) is the rank-independent form)")
    ck.done()


def Lin_nosum(ev):
    from ..linform import Lin
    return Lin(ev, axioms=[std_axioms], sum_transparent=False)


def smc_resample_rule(ctx, rule="ALG-resample"):
    ev = smc_ev(ctx)
    dotted = SMC + "resample"
    s = summarize(ctx, ev, dotted)
    lin = smc_lin(ev)
    ck = Checker(ctx, ev, lin, rule, "smc.resample", func_loc(ctx, dotted))
    f = pc_fields(ev, s.ret)
    if f is None:
        raise AnalysisError("smc.resample: result is not a ParticleCollection construction")
    w = ("attr", PARTS, "log_weights")
    n = ("attr", ("attr", PARTS, "n_samples"), "value")
    want_tr = ("call", N(SMC + "resample_vectorized_trace"), (("attr", PARTS, "traces"), w, n), (("method", ("param", "method")),))
    ck.eq("traces = resample_vectorized_trace(traces, log_weights, N, method)", f["traces"], want_tr)
    z = lin.norm(f["log_weights"])
    if z != call(N("jax.numpy.zeros"), n):
        ck.fail("weights reset to zeros(N)", f"found {short(z, ev)}")
    ck.lineq("estimate' = estimate + logsumexp(w) − log N", f["log_marginal_estimate"],
             ("binop", "+", ("attr", PARTS, "log_marginal_estimate"), ("binop", "-", lse(w), call(N("jax.numpy.log"), n))))
    ck.lineq("diagnostic weights = pre-resampling normalised weights", f["diagnostic_weights"], ("binop", "-", w, lse(w)))
    ck.eq("particle count forwarded", f["n_samples"], ("attr", PARTS, "n_samples"))
    # invariance of log_marginal_likelihood(): with the axiom logsumexp(zeros(N)) = log N
    def ax(x):
        if is_call(x, name="jax.scipy.special.logsumexp") and len(x[2]) == 1 and is_call(x[2][0], name="jax.numpy.zeros") and x[2][0][2] == (n,):
            return call(N("jax.numpy.log"), n)
        return None
    lin2 = mk_lin(ev, extra=[ax])
    after = ("binop", "+", f["log_marginal_estimate"], ("binop", "-", lse(f["log_weights"]), call(N("jax.numpy.log"), lin.norm(("attr", f["n_samples"], "value")))))
    before = ("binop", "+", ("attr", PARTS, "log_marginal_estimate"), ("binop", "-", lse(w), call(N("jax.numpy.log"), n)))
    ok, res = lin2.equal(after, before)
    if not ok:
        ck.fail("log_marginal_likelihood() unchanged by resampling (axiom logsumexp(zeros(N)) = log N)", f"residual {fmt_lf(res[1])}")
    ck.done()


def systematic_rule(ctx, rule="ALG-systematic"):
    ev = mk_ev(ctx)
    dotted = SMC + "systematic_resample"
    s = summarize(ctx, ev, dotted)
    lin = Lin_nosum(ev)
    ck = Checker(ctx, ev, lin, rule, "smc.systematic_resample", func_loc(ctx, dotted))
    W, NS = ("param", "log_weights"), ("param", "n_samples")
    r = s.ret
    if not (is_call(r, name="jax.numpy.searchsorted") and len(r[2]) == 2):
        ck.fail("indices = searchsorted(cumulative weights, positions)", f"found {short(r, ev)}")
        ck.done()
        return
    cum, pos = r[2]
    side = ev.kwget(r[3], "side")
    if side not in (None, C("left")):
        ctx.observe(rule, "smc.systematic_resample", f"searchsorted side={short(side, ev)}")
    ck.eq("searched array = cumsum(exp(w − logsumexp(w)))", cum, call(N("jax.numpy.cumsum"), call(N("jax.numpy.exp"), ("binop", "-", W, lse(W)))))
    us = [x for x in subterms(pos) if is_call(x, name=DIST + "uniform.sample")]
    if len(set(us)) != 1 or us[0] != call(N(DIST + "uniform.sample"), C(0.0), C(1.0)):
        ck.fail("one scalar offset u ~ uniform(0, 1) shared by all positions", f"found {[short(u, ev) for u in set(us)]}")
    else:
        ck.lineq("positions = (arange(N) + u) / N", pos, ("binop", "/", ("binop", "+", call(N("jax.numpy.arange"), NS), us[0]), NS))
    n_u = sum(1 for e in s.events if e[1] == "call" and e[2][1] == N(DIST + "uniform.sample"))
    if n_u != 1:
        ck.fail("offset drawn once", f"{n_u} uniform draws")
    ck.done()


def rejuvenation_smc_rule(ctx, rule="ROLE-rejuvenation_smc"):
    """Decided on the symbolic summary: particles = J(R(init(model, args, N, obs[0]))); each scan step is
    J(R(extend(carry, model, carry.traces.get_retval(), obs_t, proposal))) carried and emitted, where
    R(P) = lax.cond(P.ess() < N // 2, resample, identity, P) and J(P) = n_rejuvenation_moves × rejuvenate(·, kernel) if a kernel is given."""
    ev = mk_ev(ctx, depth=4)
    # init(target_gf=model, ...) and the positional call are one term
    ev.canon_kw_functions |= {SMC + n for n in ("init", "extend", "resample", "rejuvenate", "change")}
    dotted = SMC + "rejuvenation_smc"
    s = summarize(ctx, ev, dotted)
    loc = func_loc(ctx, dotted)
    construct = "smc.rejuvenation_smc"
    P_ = lambda n: ("param", n)
    MODEL, TP, KER, OBS, ARGS0, NP, RA, NM = (P_(n) for n in ("model", "transition_proposal", "mcmc_kernel", "observations", "initial_model_args",
                                                            "n_particles", "return_all_particles", "n_rejuvenation_moves"))
    problems = []

    def is_R(t, inner_pred):
        """t == lax.cond(inner.ess() < N // 2, resample, identity, inner); returns inner or None."""
        if not (is_call(t, name="jax.lax.cond") and len(t[2]) == 4):
            return None
        pred, f_t, f_f, op = t[2]
        want_pred = ("cmp", "<", ("call", ("attr", op, "effective_sample_size"), (), ()), ("binop", "//", ("attr", NP, "value"), C(2)))
        alt_pred = ("cmp", "<", call(N(SMC + "effective_sample_size"), ("attr", op, "log_weights")), want_pred[3])
        if pred not in (want_pred, alt_pred):
            problems.append(f"resampling is triggered by ess < N // 2 of the particles being resampled (found {short(pred, ev, 160)})")
        X = ("param", "p__")
        for f, want, what in ((f_t, None, "resample"), (f_f, X, "identity")):
            if f[0] != "closure":
                if what == "resample" and f == N(SMC + "resample"):
                    continue
                problems.append(f"cond {what} branch not recognised ({short(f, ev, 80)})")
                continue
            b = ev.apply_closure(f, (X,), ())
            if what == "identity":
                if b != X:
                    problems.append(f"the no-resampling branch must return the particles unchanged (found {short(b, ev, 120)})")
            else:
                if not (is_call(b, name=SMC + "resample") and b[2][:1] == (X,)):
                    problems.append(f"the resampling branch must call resample on the same particles (found {short(b, ev, 120)})")
        return op

    def strip_J(t):
        """t == (final carry of a rejuvenation scan started from X) if kernel is not None else X; returns X."""
        if t[0] == "ifexp":
            c = t[1]
            pol = None
            if c[0] == "cmp" and c[2] == KER and is_const(c[3], None):
                pol = c[1] == "is not"
            if pol is None:
                problems.append(f"rejuvenation is conditional on a kernel being given (found {short(c, ev, 80)})")
                return t
            with_k, without = (t[2], t[3]) if pol else (t[3], t[2])
            if with_k[0] != "scan_final":
                problems.append(f"rejuvenation moves run in a scan (found {short(with_k, ev, 120)})")
                return without
            rec = ev.scans[with_k[1]]
            if rec["init"] != without:
                problems.append("rejuvenation starts from the (possibly resampled) particles of this step")
            carry = ("scan_carry", with_k[1], None)
            if rec["carry_out"] != call(N(SMC + "rejuvenate"), carry, ("attr", KER, "value")):
                problems.append(f"each move = rejuvenate(particles, kernel) (found {short(rec['carry_out'], ev, 160)})")
            if rec["xs"] != call(N("jax.numpy.arange"), ("attr", NM, "value")) and ev.kwget(rec["kwargs"], "length") != ("attr", NM, "value"):
                problems.append(f"n_rejuvenation_moves moves (found scan over {short(rec['xs'], ev, 80)})")
            return without
        return t

    # the outer scan over the remaining observations
    outer = [(sid, rec) for sid, rec in ev.scans.items() if any(x == OBS for x in subterms(rec["xs"]))]
    if len(outer) != 1:
        raise AnalysisError(f"{construct}: scan over the observations not found")
    sid, rec = outer[0]
    xs = rec["xs"]
    ok_xs = xs[0] == "treemap" and xs[2] == ("idx", ("leaf", xs[1], OBS), ("slice", C(1), NONE, NONE))
    if not ok_xs:
        problems.append(f"the scan runs over observations[1:] (found {short(xs, ev, 120)})")
    # initial particles
    first = None
    p0 = is_R(strip_J(rec["init"]), None)
    if p0 is None:
        problems.append(f"initial particles are resampled when degenerate (found {short(rec['init'], ev, 160)})")
    else:
        ok0 = is_call(p0, name=SMC + "init") and len(p0[2]) >= 4 and p0[2][0] == MODEL and p0[2][1] == ARGS0 and p0[2][2] == NP
        fo = p0[2][3] if ok0 else None
        ok0 = ok0 and fo[0] == "treemap" and fo[2] == ("idx", ("leaf", fo[1], OBS), C(0))
        if not ok0:
            problems.append(f"init(model, initial args, N, observations[0]) (found {short(p0, ev, 200)})")
    # step
    carry = ("scan_carry", sid, None)
    if rec["carry_out"] != rec["ys"]:
        problems.append("each step emits the same post-move particles it carries")
    e = is_R(strip_J(rec["carry_out"]), None)
    if e is None:
        problems.append(f"each step resamples when degenerate (found {short(rec['carry_out'], ev, 160)})")
    else:
        obs_t = ("elem", sid, xs)
        want = ("call", N(SMC + "extend"), (carry, MODEL, ("call", ("attr", ("attr", carry, "traces"), "get_retval"), (), ()), obs_t), (("extension_proposal", TP),))
        alt = ("call", N(SMC + "extend"), want[2] + (TP,), ())
        if e not in (want, alt):
            problems.append(f"extend(particles, model, the particles' own retvals, this observation, proposal) (found {short(e, ev, 260)})")
    # result
    for asg, leaf in all_cases(s.ret):
        ra = [v for c, v in asg.items() if c == ("attr", RA, "value")]
        if ra and not ra[0]:
            if leaf != ("scan_final", sid):
                problems.append(f"returns the final particles (found {short(leaf, ev, 120)})")
    if problems:
        for p in dict.fromkeys(problems):
            ctx.bad(rule, construct, p[:160], p, loc)
    else:
        ctx.ok(rule, construct, "init → [resample if ess < N//2] → [rejuvenate]; each step: extend from own retvals → resample → rejuvenate; carry = emitted particles")


# ====================================================================== VI (C17)
def elbo_rule(ctx, rule="ALG-elbo"):
    ev = mk_ev(ctx)
    dotted = VI + "elbo_factory"
    s = summarize(ctx, ev, dotted)
    lin = mk_lin(ev)
    ck = Checker(ctx, ev, lin, rule, "vi.elbo_factory.elbo", func_loc(ctx, dotted))
    r = s.ret
    if not (is_call(r, name="genjax.adev.expectation") and len(r[2]) == 1 and r[2][0][0] == "closure"):
        ck.fail("objective wrapped by @expectation", f"found {short(r, ev)}")
        ck.done()
        return
    VP = ("param", "variational_params")
    body = ev.apply_closure(r[2][0], (("star", VP),), ())
    G, Q, CON, TA = (("param", n) for n in ("target_gf", "variational_family", "constraint", "target_args"))
    tr = ("call", ("attr", Q, "simulate"), (CON, ("star", VP)), ())
    merged = ("idx", ("call", ("attr", G, "merge"), (CON, CH(tr)), ()), C(0))
    p = ("idx", ("call", ("attr", G, "assess"), (merged, ("star", TA)), ()), C(0))
    ck.lineq("elbo = log p(merge(constraint, q choices)) + q score (= log p − log q)", body, ("binop", "+", p, SC(tr)))
    n_sim = sum(1 for x in set(subterms(lin.norm(body))) if is_call(x) and x[1] == ("attr", Q, "simulate"))
    if n_sim != 1:
        ck.fail("one draw from q per evaluation (score and choices from the same trace)", f"{n_sim} distinct simulate terms")
    ck.done()
    ctx.sample({"rule": rule, "construct": "vi.elbo_factory.elbo", "objective": short(lin.norm(body), ev, 300)})


def optimize_rule(ctx, rule="ALG-vi-ascent"):
    ev = mk_ev(ctx)
    dotted = VI + "optimize_vi"
    s = summarize(ctx, ev, dotted)
    lin = mk_lin(ev)
    ck = Checker(ctx, ev, lin, rule, "vi.optimize_vi", func_loc(ctx, dotted))
    E, IP, LR, NI, TH = (("param", n) for n in ("elbo_fn", "init_params", "learning_rate", "n_iterations", "track_history"))
    if len(ev.scans) != 1:
        raise AnalysisError("vi.optimize_vi: expected one scan")
    sid, rec = next(iter(ev.scans.items()))
    ck.eq("scan starts from the initial parameters", rec["init"], IP)
    if rec["xs"] != call(N("jax.numpy.arange"), NI) and ev.kwget(rec["kwargs"], "length") != NI:
        ck.fail("n_iterations iterations", f"scan over {short(rec['xs'], ev)}")
    carry = ("scan_carry", sid, None)
    new = ("binop", "+", carry, ("binop", "*", LR, ("call", ("attr", E, "grad_estimate"), (carry,), ())))
    for asg, leaf in all_cases(rec["carry_out"]):
        ck.lineq("params' = params + learning_rate · grad_estimate(params) (ascent)", leaf, new)
    for asg, leaf in all_cases(rec["ys"]):
        track = None
        for c, v in asg.items():
            if c == TH:
                track = v
        if track:
            it = items(leaf)
            if it is None or len(it) != 2:
                ck.fail("tracked output = (new params, loss)", f"found {short(leaf, ev)}")
            else:
                ck.lineq("history records the post-step iterate", it[0], new)
    for asg, leaf in all_cases(s.ret):
        info = ev.ctor_info(leaf)
        if info is None or not info[0].endswith("VariationalApproximation"):
            ck.fail("returns a VariationalApproximation", f"found {short(leaf, ev, 200)}")
            continue
        ck.eq("final_params = the scan's final carry", ev.ctor_field(leaf, "final_params"), ("scan_final", sid))
        track = asg.get(TH)
        if track:
            ph = lin.norm(ev.ctor_field(leaf, "param_history"))
            ok = ph[0] == "stack" or (ph[0] == "idx" and is_const(ph[2], 0))
            if not ok:
                ck.fail("param_history = every iterate, stacked", f"found {short(ph, ev, 200)}")
        ck.eq("n_iterations recorded", ev.ctor_field(leaf, "n_iterations"), call(N(CORE + "const"), NI))
    ck.done()


def families_rule(ctx, rule="ROLE-vi-family"):
    ev = mk_ev(ctx)
    lin = mk_lin(ev)
    MV = {"reparam": "genjax.adev.multivariate_normal_reparam", "reinforce": "genjax.adev.multivariate_normal_reinforce"}
    for fam in ("mean_field_normal_family", "full_covariance_normal_family"):
        dotted = VI + fam
        s = summarize(ctx, ev, dotted)
        ck = Checker(ctx, ev, lin, rule, f"vi.{fam}", func_loc(ctx, dotted))
        GE = ("param", "gradient_estimator")
        P = ("param", "params")
        ND = ("param", "n_dims")

        # the path taken for each value of `gradient_estimator` is found by evaluating the path conditions with the parameter bound to that
        # value (finite model): ==/!= chains, `in` a tuple, a dict of estimators with a membership guard, a lookup helper ... are handled alike
        from ..absint import Model, Unknown, Opq, Raised
        from .util import resolve_deep

        def pick(cases, est_val, where):
            chosen = []
            for asg, leaf in cases:
                m = Model(evaluator=ev)
                m.bind(GE, est_val)
                try:
                    if all(bool(m.truth(c)) == bool(v) for c, v in asg.items()):
                        chosen.append((asg, leaf))
                except Unknown as e:
                    raise AnalysisError(f"vi.{fam}: {where} path condition not decidable for gradient_estimator={est_val!r}: {e}")
                except KeyError:
                    chosen.append((asg, ("raise", C("KeyError"))))
            if len(chosen) != 1:
                raise AnalysisError(f"vi.{fam}: {len(chosen)} {where} paths for gradient_estimator={est_val!r}")
            return chosen[0]

        seen = set()
        raised_for_unknown = False
        for est in ("reparam", "reinforce", "no-such-estimator"):
            asg, leaf = pick(all_cases(s.ret), est, "outer")
            if leaf[0] == "raise":
                if est not in MV:
                    raised_for_unknown = True
                else:
                    ck.fail(f"[{est}] estimator supported", "raises")
                continue
            if not (is_call(leaf, name=CORE + "gen") and leaf[2] and leaf[2][0][0] == "closure"):
                ck.fail("returns a @gen variational family", f"found {short(leaf, ev, 200)}")
                continue
            body = resolve_deep(ev.apply_closure(leaf[2][0], (("param", "constraint"), P), ()), asg)
            asg2, b = pick(all_cases(body), est, "inner")
            raises = b[0] == "raise" or any(x[0] == "raise" for x in subterms(b))
            if est not in MV:
                if raises:
                    raised_for_unknown = True
                else:
                    ck.fail("unknown estimator raises", f"found {short(b, ev, 120)}")
                continue
            if raises:
                ck.fail(f"[{est}] estimator supported", "raises")
                continue
            seen.add(est)
            if not (b[0] == "binop" and b[1] == "@" and is_call(b[2]) and b[3] == C("x")):
                ck.fail("family samples one addressed multivariate normal", f"found {short(b, ev, 200)}")
                continue
            d = b[2]
            # the estimator primitive may be selected by an expression (a dict lookup): its value under this binding
            m = Model(evaluator=ev)
            m.bind(GE, est)
            try:
                prim = m.ev(d[1])
            except (Unknown, KeyError) as e:
                raise AnalysisError(f"vi.{fam}: estimator expression not evaluable for {est!r}: {e}")
            if prim != Opq("name", MV[est]):
                ck.fail(f"[{est}] estimator primitive", f"expected {MV[est]}, found {prim!r}")
            if len(d[2]) != 2:
                ck.fail("mvnormal(mean, covariance)", f"found {short(d, ev)}")
                continue
            mean, cov = d[2]
            if fam.startswith("mean_field"):
                ck.eq("mean = params[:n_dims]", mean, ("idx", P, ("slice", NONE, ND, NONE)))
                std = call(N("jax.numpy.exp"), ("idx", P, ("slice", ND, NONE, NONE)))
                ck.eq("covariance = diag(exp(log_std)²)", cov, call(N("jax.numpy.diag"), ("binop", "**", std, C(2))))
            else:
                ck.eq("mean = params['mean']", mean, ("idx", P, C("mean")))
                ch = ("idx", P, C("chol_cov"))
                ck.eq("covariance = L Lᵀ", cov, ("binop", "@", ch, ("attr", ch, "T")))
        if seen != {"reparam", "reinforce"}:
            ck.fail("both estimators analysed", f"{sorted(seen)}")
        if not raised_for_unknown:
            ck.fail("unknown estimator raises", "no raising case")
        ck.done()


def elbo_vi_rule(ctx, rule="ROLE-elbo_vi"):
    ev = mk_ev(ctx)
    dotted = VI + "elbo_vi"
    s = summarize(ctx, ev, dotted)
    P = lambda n: ("param", n)
    want = ("call", N(VI + "optimize_vi"), (), (("elbo_fn", call(N(VI + "elbo_factory"), P("target_gf"), P("variational_family"), P("constraint"), P("target_args"))),
                                                   ("init_params", P("init_params")), ("learning_rate", P("learning_rate")),
                                                   ("n_iterations", P("n_iterations")), ("track_history", P("track_history"))))
    lin = mk_lin(ev)
    if lin.norm(s.ret) == lin.norm(want):   # keyword / positional spellings of the two repo-local calls are one term
        ctx.ok(rule, "vi.elbo_vi")
    else:
        ctx.bad(rule, "vi.elbo_vi", "pipeline wiring", f"expected optimize_vi(elbo_factory(target, family, constraint, target_args), ...), found {short(s.ret, ev, 300)}", func_loc(ctx, dotted))


def scalar_reduction_rule(ctx, rule="SHAPE-scalar-terms"):
    """Per-leaf proposal-density (mala) and kinetic-energy (hmc) terms feed a scalar accept test through
    tree_reduce(jnp.add, tree_map(f, …)), which sums across leaves but not inside a leaf: f must reduce each leaf
    completely (jnp.sum with no axis) or array-valued choices give a vector acceptance."""
    for kernel in ("mala", "hmc"):
        ev = mk_ev(ctx)
        dotted = MCMC + kernel
        s = summarize(ctx, ev, dotted)
        sums = [x for x in set(subterms(s.ret)) if is_call(x, name="jax.tree_util.tree_reduce") and len(x[2]) == 2 and x[2][1][0] == "treemap"]
        ctx.need(len(sums) >= 2, f"mcmc.{kernel}: tree-reduced per-leaf terms not found")
        for x in sums:
            body = x[2][1][2]
            ok = is_call(body, name="jax.numpy.sum") and len(body[2]) == 1 and all(k == "axis" and is_const(v, None) for k, v in body[3])
            inner = body[2][0] if ok else body
            what = "normal.logpdf" if any(is_call(y, name=DIST + "normal.logpdf") for y in subterms(inner)) else "term"
            if ok:
                ctx.ok(rule, f"mcmc.{kernel}", f"per-leaf {what} summed over all coordinates")
            else:
                ctx.bad(rule, f"mcmc.{kernel}", f"per-leaf term not reduced: {short(body, ev, 80)}",
                        f"a per-leaf term {short(body, ev, 120)} is combined by tree_reduce(jnp.add, …) without being summed over the leaf's own coordinates: "
                        "for an array-valued choice the log acceptance ratio becomes a vector", func_loc(ctx, dotted))

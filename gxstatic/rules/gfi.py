"""GFI-contract rules shared by C01–C05 (DESIGN §3 GFI table): ALG / ROLE / SIB over the five
implementors (Distribution, Fn(+handlers), Vmap, Scan, Cond) and the three trace classes."""
from __future__ import annotations

import ast

from ..model import AnalysisError
from ..symeval import ts, subterms, subst, is_const, C, NONE
from .util import (CORE, N, call, CH, SC, RV, mk_ev, mk_lin, summarize, spine_cases, none_test, items, is_call,
                   mentions, func_loc, short, std_axioms)
from ..linform import fmt_lf

SELF = ("param", "self")
ARGS = ("param", "args")
KW = ("param", "kwargs")
TR = ("param", "tr")

GFI_FLOOR = {"Vmap", "Distribution", "Fn", "Scan", "Cond"}
TRACE_FLOOR = {"Tr", "ScanTr", "CondTr"}
HANDLER_FLOOR = {"Simulate", "Generate", "Assess", "Update", "Regenerate"}


def hierarchy(ctx):
    gfis = {n.name: (d, n, m) for d, n, m in ctx.p.subclasses_of("GFI") if d.startswith("genjax.core.")}
    traces = {n.name: (d, n, m) for d, n, m in ctx.p.subclasses_of("Trace") if d.startswith("genjax.core.")}
    ctx.need(GFI_FLOOR <= set(gfis), f"anchor vanished: GFI implementors {sorted(GFI_FLOOR - set(gfis))}")
    ctx.need(TRACE_FLOOR <= set(traces), f"anchor vanished: Trace implementors {sorted(TRACE_FLOOR - set(traces))}")
    return gfis, traces


def L(x):
    """self.logpdf(x, *args, **kwargs)"""
    return ("call", ("attr", SELF, "logpdf"), (x, ("star", ARGS)), ((None, KW),))


def S_():
    return ("call", ("attr", SELF, "sample"), (("star", ARGS),), ((None, KW),))


def tr_fields(ev, t):
    """(gen_fn, args, choices, retval, score) of a Tr(...) construction term, else None."""
    if not is_call(t, name=CORE + "Tr"):
        return None
    out = []
    for f in ("_gen_fn", "_args", "_choices", "_retval", "_score"):
        v = ev.ctor_field(t, f)
        if v is None:
            return None
        out.append(v)
    return out


class Checker:
    def __init__(self, ctx, ev, lin, rule, construct, loc):
        self.ctx, self.ev, self.lin, self.rule, self.construct, self.loc = ctx, ev, lin, rule, construct, loc
        self.failed = False

    def eq(self, what, actual, expected):
        a, e = self.lin.norm(actual), self.lin.norm(expected)
        if a == e:
            return True
        self.fail(what, f"expected {short(e, self.ev)}, found {short(a, self.ev)}")
        return False

    def lineq(self, what, actual, expected):
        try:
            ok, res = self.lin.equal(actual, expected)
        except ValueError as ex:
            raise AnalysisError(f"{self.construct}: {what}: {ex}")
        if ok:
            return True
        asg, lf = res
        when = (" when " + ", ".join(f"{k}={v}" for k, v in asg.items())) if asg else ""
        self.fail(what, f"expected {short(self.lin.norm(expected), self.ev)}; residual (found − expected){when}: {fmt_lf(lf)}")
        return False

    def fail(self, what, detail):
        self.failed = True
        self.ctx.bad(self.rule, self.construct, what, f"{what}: {detail}", self.loc)

    def done(self, detail=""):
        if not self.failed:
            self.ctx.ok(self.rule, self.construct, detail)


# ====================================================================== Distribution
def dist_summary(ctx, method):
    ev = mk_ev(ctx, self_inline={"simulate", "assess"})
    s = summarize(ctx, ev, CORE + "Distribution." + method)
    return ev, s


def check_args_recorded(ck, args_field):
    ck.eq("recorded arguments", args_field, ("tuple", (ARGS, KW)))


def simulate_form(ck, t, label):
    """t must be Tr(self, (args, kwargs), S, S, -L(S)) with S = self.sample(*args, **kwargs)."""
    f = tr_fields(ck.ev, ck.lin.norm(t))
    if f is None:
        ck.fail(label, f"expected a Tr(...) built from a fresh sample, found {short(t, ck.ev)}")
        return
    g, a, ch, rv, sc = f
    ck.eq(label + " gen_fn", g, SELF)
    check_args_recorded(ck, a)
    ck.eq(label + " sampled value", ch, S_())
    ck.eq(label + " retval = choice", rv, ch)
    ck.lineq(label + " score = -logpdf(sample; same args)", sc, ("unop", "-", L(ch)))


def value_form(ck, t, v, label):
    """t must be Tr(self, (args, kwargs), v, v, -L(v))."""
    f = tr_fields(ck.ev, ck.lin.norm(t))
    if f is None:
        ck.fail(label, f"expected a Tr(...) holding the given value, found {short(t, ck.ev)}")
        return
    g, a, ch, rv, sc = f
    ck.eq(label + " gen_fn", g, SELF)
    check_args_recorded(ck, a)
    ck.eq(label + " stored value", ch, v)
    ck.eq(label + " retval = choice", rv, v)
    ck.lineq(label + " score = -logpdf(value; new args)", sc, ("unop", "-", L(v)))


def dist_simulate(ctx, rule="ALG-dist"):
    ev, s = dist_summary(ctx, "simulate")
    lin = mk_lin(ev)
    ck = Checker(ctx, ev, lin, rule, "core.Distribution.simulate", func_loc(ctx, CORE + "Distribution.simulate"))
    cases = spine_cases(s.ret)
    for asg, leaf in cases:
        simulate_form(ck, leaf, "simulate")
    n_samples = sum(1 for e in s.calls() if lin.norm(e[2])[1] == ("attr", SELF, "sample"))
    if n_samples != 1:
        ck.fail("one draw per simulate", f"{n_samples} sampler calls on one path")
    ck.done(short(s.ret, ev, 200))
    ctx.sample({"rule": rule, "construct": "core.Distribution.simulate", "normal_form": short(lin.norm(s.ret), ev, 400)})


def dist_assess(ctx, rule="ALG-dist"):
    ev, s = dist_summary(ctx, "assess")
    lin = mk_lin(ev)
    ck = Checker(ctx, ev, lin, rule, "core.Distribution.assess", func_loc(ctx, CORE + "Distribution.assess"))
    X = ("param", "x")
    for asg, leaf in spine_cases(s.ret):
        it = items(leaf)
        if it is None or len(it) != 2:
            ck.fail("assess returns (density, retval)", f"found {short(leaf, ev)}")
            continue
        ck.lineq("density = logpdf(x; args)", it[0], L(X))
        ck.eq("retval = x", it[1], X)
    ck.done()


def dist_generate(ctx, rule="ALG-dist"):
    ev, s = dist_summary(ctx, "generate")
    lin = mk_lin(ev)
    ck = Checker(ctx, ev, lin, rule, "core.Distribution.generate", func_loc(ctx, CORE + "Distribution.generate"))
    X = ("param", "x")
    saw = set()
    for asg, leaf in spine_cases(s.ret):
        pol = None
        for c, v in asg.items():
            r = none_test(c, X)
            if r is None:
                raise AnalysisError(f"core.Distribution.generate: unrecognised branch condition {short(c, ev)}")
            pol = (r == v)
        if pol is None:
            raise AnalysisError("core.Distribution.generate: no `x is None` split found (shape not recognised)")
        saw.add(pol)
        it = items(leaf)
        if it is None or len(it) != 2:
            ck.fail("generate returns (trace, weight)", f"found {short(leaf, ev)}")
            continue
        if pol:  # unconstrained
            simulate_form(ck, it[0], "generate(None)")
            ck.lineq("generate(None) weight = 0", it[1], C(0))
        else:
            value_form(ck, it[0], X, "generate(x)")
            ck.lineq("generate(x) weight = logpdf(x; args)", it[1], L(X))
            if any(mentions(t, ("attr", SELF, "sample")) or mentions(t, ("attr", SELF, "_sample")) for t in it):
                ck.fail("constrained path draws no sample", "sampler reachable on the constrained path")
    if saw != {True, False}:
        ck.fail("both constraint cases handled", f"cases seen: {sorted(saw)}")
    ck.done()


def dist_update(ctx, rule="ALG-dist"):
    ev, s = dist_summary(ctx, "update")
    lin = mk_lin(ev)
    ck = Checker(ctx, ev, lin, rule, "core.Distribution.update", func_loc(ctx, CORE + "Distribution.update"))
    X_ = ("param", "x_")
    saw = set()
    for asg, leaf in spine_cases(s.ret):
        pol = None
        for c, v in asg.items():
            r = none_test(c, X_)
            if r is None:
                raise AnalysisError(f"core.Distribution.update: unrecognised branch condition {short(c, ev)}")
            pol = (r == v)
        if pol is None:
            # a body that treats None uniformly is acceptable only if the value is `x_ or old`: not recognised
            raise AnalysisError("core.Distribution.update: no `x_ is None` split found (shape not recognised)")
        saw.add(pol)
        it = items(leaf)
        if it is None or len(it) != 3:
            ck.fail("update returns (trace, weight, discard)", f"found {short(leaf, ev)}")
            continue
        v = CH(TR) if pol else X_
        value_form(ck, it[0], v, "update(None)" if pol else "update(x_)")
        ck.lineq("weight = logpdf(new value; new args) + score(old trace)", it[1], ("binop", "+", L(v), SC(TR)))
        d = lin.norm(it[2])
        if d not in (RV(TR), CH(TR)):
            ck.fail("discard = old value", f"found {short(d, ev)}")
    if saw != {True, False}:
        ck.fail("both constraint cases handled", f"cases seen: {sorted(saw)}")
    ck.done()


def leaf_selected_test(c, selp):
    """True if c true means `selection selects the leaf ()`: `() in s` or `s.match(())[0]` / s(())[0]."""
    if c[0] == "cmp" and c[1] == "in" and c[2] == ("tuple", ()) and c[3] == selp:
        return True
    if c[0] == "cmp" and c[1] == "not in" and c[2] == ("tuple", ()) and c[3] == selp:
        return False
    if c[0] == "idx" and is_const(c[2], 0) and c[1][0] == "call" and c[1][2] == (("tuple", ()),):
        fn = c[1][1]
        if fn == ("attr", selp, "match") or fn == selp or fn == ("attr", selp, "__call__"):
            return True
    if c[0] == "call" and c[1] == ("attr", selp, "__contains__") and c[2] == (("tuple", ()),):
        return True
    if c[0] == "unop" and c[1] == "not":
        r = leaf_selected_test(c[2], selp)
        return None if r is None else (not r)
    return None


def dist_regenerate(ctx, rule="ALG-dist"):
    ev, s = dist_summary(ctx, "regenerate")
    lin = mk_lin(ev)
    ck = Checker(ctx, ev, lin, rule, "core.Distribution.regenerate", func_loc(ctx, CORE + "Distribution.regenerate"))
    SELP = ("param", "s")
    saw = set()
    for asg, leaf in spine_cases(s.ret):
        pol = None
        for c, v in asg.items():
            r = leaf_selected_test(c, SELP)
            if r is None:
                raise AnalysisError(f"core.Distribution.regenerate: unrecognised branch condition {short(c, ev)}")
            pol = (r == v)
        if pol is None:
            raise AnalysisError("core.Distribution.regenerate: no leaf-selection split found (shape not recognised)")
        saw.add(pol)
        it = items(leaf)
        if it is None or len(it) != 3:
            ck.fail("regenerate returns (trace, weight, discard)", f"found {short(leaf, ev)}")
            continue
        if pol:
            simulate_form(ck, it[0], "regenerate(selected)")
            ck.lineq("regenerate(selected) weight = 0", it[1], C(0))
            d = lin.norm(it[2])
            if d not in (RV(TR), CH(TR)):
                ck.fail("selected: discard = old value", f"found {short(d, ev)}")
        else:
            value_form(ck, it[0], CH(TR), "regenerate(unselected)")
            ck.lineq("unselected weight = logpdf(old value; new args) + score(old trace)", it[1],
                     ("binop", "+", L(CH(TR)), SC(TR)))
            if not is_const(lin.norm(it[2]), None):
                ck.fail("unselected: discard = None", f"found {short(it[2], ev)}")
            if any(mentions(t, ("attr", SELF, "sample")) or mentions(t, ("attr", SELF, "_sample")) for t in it):
                ck.fail("unselected path draws no sample", "sampler reachable on the unselected path")
    if saw != {True, False}:
        ck.fail("both selection cases handled", f"cases seen: {sorted(saw)}")
    ck.done()


# ====================================================================== handlers
ADDR = ("param", "addr")
GF = ("param", "gen_fn")


def more_axioms(x):
    """CHOICES algebra used by the handler/SMC rules (justified by core.get_choices: recursive unwrap,
    idempotent Fixed-stripping, a Fn trace's choices at `addr` are the sub-trace's choices)."""
    if is_call(x, name="CHOICES"):
        a = x[2][0]
        if is_call(a, name="CHOICES"):
            return a
        if a[0] == "ifexp":
            return ("ifexp", a[1], CH(a[2]), CH(a[3]))
        if is_const(a, None):
            return a
        if a[0] == "attr" and a[2] == "_choices":
            return CH(a[1])
    if x[0] == "idx" and is_call(x[1], name="CHOICES"):
        inner = x[1][2][0]
        return CH(("idx", CH(inner), x[2])) if False else CH(("idx", ("attr", inner, "_choices"), x[2]))
    if x[0] == "idx" and x[1][0] == "attr" and x[1][2] == "_choices" and False:
        return None
    return None


def handler_call_args(argname):
    return (("star", ("param", argname)),), ((None, ("param", "kwargs")),)


def field_final(s, name):
    return s.env.get(("attr", SELF, name))


def map_store(s, mapname, key=ADDR):
    return s.env.get(("idx", ("attr", SELF, mapname), key))


def collision_guard(ctx, ck, s, ev, lin, callee_attr):
    """GUARD: an address-collision check on (addr, self's own visited structure) precedes the callee call."""
    pos_check, pos_call, structure = None, None, None
    for i, e in enumerate(s.events):
        if e[1] != "call":
            continue
        t = e[2]
        if t[1][0] == "name" and t[1][1] in (CORE + "_check_address_collision", CORE + "_check_address_collision_visited"):
            if len(t[2]) >= 2 and t[2][0] == ADDR and t[2][1][0] == "attr" and t[2][1][1] == SELF and not e[0]:
                if pos_check is None:
                    pos_check, structure = i, (t[1][1], t[2][1][2])
        if t[1] == ("attr", GF, callee_attr) and pos_call is None:
            pos_call = i
    if pos_call is None:
        ck.fail("callee invoked", f"no gen_fn.{callee_attr}(...) call found")
        return
    if pos_check is None or pos_check > pos_call:
        ck.fail("address-collision check precedes the sub-call", "no unconditional _check_address_collision(addr, self.<visited>) before the callee call")
        return
    fn, fld = structure
    # the structure checked must be the one this handler records into
    if fn.endswith("_visited"):
        return  # the helper itself adds addr to the set (checked in collision_helpers)
    if map_store(s, fld) is None:
        ck.fail("collision structure is recorded", f"self.{fld}[addr] is never written although it is the structure checked for collisions")


def collision_helpers(ctx, rule="GUARD-collision"):
    ev = mk_ev(ctx)
    for nm, adds in (("_check_address_collision", False), ("_check_address_collision_visited", True)):
        dotted = CORE + nm
        s = summarize(ctx, ev, dotted)
        ck = Checker(ctx, ev, mk_lin(ev), rule, "core." + nm, func_loc(ctx, dotted))
        params = s.params
        a, st = ("param", params[0]), ("param", params[1])
        raises = [e for e in s.events if e[1] == "raise"]
        good = [e for e in raises if any(c == ("cmp", "in", a, st) and pol for c, pol in e[0])]
        if not good:
            ck.fail("raises when the address was already used", f"no `raise` guarded by `{params[0]} in {params[1]}`")
        else:
            exc = good[0][2]
            if not (is_call(exc) and exc[1] == N("builtins.ValueError")):
                ck.fail("raises ValueError", f"raises {short(exc, ev)}")
        if adds:
            addcalls = [e for e in s.events if e[1] == "call" and e[2][1] == ("attr", st, "add") and e[2][2] == (a,)]
            if not any(not any(c == ("cmp", "in", a, st) and pol for c, pol in e[0]) for e in addcalls):
                ck.fail("records the address after the check", "visited.add(addr) missing on the non-colliding path")
        ck.done()


def handler_rule(ctx, hname, rule="ALG-handler"):
    ev = mk_ev(ctx)
    dotted = CORE + hname + ".__call__"
    s = summarize(ctx, ev, dotted)
    lin = mk_lin(ev, extra=[more_axioms])
    ck = Checker(ctx, ev, lin, rule, f"core.{hname}.__call__", func_loc(ctx, dotted))
    params = s.params
    ctx.need(len(params) >= 4, f"{dotted}: unexpected signature {params}")
    argname = params[3]
    AP, KP = ("param", argname), ("param", params[4] if len(params) > 4 else "kwargs")
    star, kw = (("star", AP),), ((None, KP),)
    method = {"Simulate": "simulate", "Generate": "generate", "Assess": "assess", "Update": "update", "Regenerate": "regenerate"}[hname]
    collision_guard(ctx, ck, s, ev, lin, method)
    cm = ("attr", SELF, "choice_map")
    old = ("attr", SELF, "trace")
    subtrace = ("idx", ("attr", old, "_choices"), ADDR)

    def sub(*pre):
        return ("call", ("attr", GF, method), tuple(pre) + star, kw)

    def acc(field, init_field, term, label):
        got = field_final(s, field)
        if got is None:
            ck.fail(label, f"self.{field} is never updated")
            return
        ck.lineq(label, got, ("binop", "+", ("attr", SELF, field), term))

    if hname == "Simulate":
        t = sub()
        acc("score", "score", SC(t), "score accumulates the sub-trace score")
        ck.eq("trace_map[addr] = sub-trace", map_store(s, "trace_map") or NONE, t)
        ck.eq("returns the sub-call's retval", s.ret, RV(t))
    elif hname == "Generate":
        x = ("ifexp", ("cmp", "in", ADDR, cm), CH(("idx", cm, ADDR)), NONE)
        t = sub(x)
        tr_, w_ = ("idx", t, C(0)), ("idx", t, C(1))
        acc("score", "score", SC(tr_), "score accumulates the sub-trace score")
        acc("weight", "weight", w_, "weight accumulates exactly the sub-call weight")
        ck.eq("trace_map[addr] = sub-trace", map_store(s, "trace_map") or NONE, tr_)
        ck.eq("returns the sub-call's retval", s.ret, RV(tr_))
    elif hname == "Assess":
        x = CH(("idx", cm, ADDR))
        t = sub(x)
        acc("logp", "logp", ("idx", t, C(0)), "logp accumulates exactly the sub-call density")
        ck.eq("returns the sub-call's retval", s.ret, ("idx", t, C(1)))
    elif hname == "Update":
        x = ("ifexp", ("cmp", "in", ADDR, cm), CH(("idx", cm, ADDR)), CH(subtrace))
        t = sub(subtrace, x)
        tr_, w_, d_ = ("idx", t, C(0)), ("idx", t, C(1)), ("idx", t, C(2))
        acc("score", "score", SC(tr_), "score accumulates the new sub-trace score")
        acc("weight", "weight", w_, "weight accumulates exactly the sub-call weight")
        ck.eq("trace_map[addr] = new sub-trace", map_store(s, "trace_map") or NONE, tr_)
        ck.eq("discard[addr] = sub-call discard", map_store(s, "discard") or NONE, d_)
        ck.eq("returns the sub-call's retval", s.ret, RV(tr_))
    elif hname == "Regenerate":
        subsel = ("idx", ("call", ("attr", ("attr", SELF, "s"), "match"), (ADDR,), ()), C(1))
        t = sub(subtrace, subsel)
        tr_, w_, d_ = ("idx", t, C(0)), ("idx", t, C(1)), ("idx", t, C(2))
        acc("score", "score", SC(tr_), "score accumulates the new sub-trace score")
        acc("weight", "weight", w_, "weight accumulates exactly the sub-call weight")
        ck.eq("trace_map[addr] = new sub-trace", map_store(s, "trace_map") or NONE, tr_)
        ck.eq("discard[addr] = sub-call discard", map_store(s, "discard") or NONE, d_)
        ck.eq("returns the sub-call's retval", s.ret, RV(tr_))
    ck.done()
    ctx.sample({"rule": rule, "construct": f"core.{hname}.__call__", "return": short(lin.norm(s.ret), ev, 300)})


# ====================================================================== Fn
HANDLER_OF = {"simulate": "Simulate", "generate": "Generate", "assess": "Assess", "update": "Update", "regenerate": "Regenerate"}


def fn_rule(ctx, method, rule="ALG-Fn"):
    ev = mk_ev(ctx, self_inline={"simulate"})
    dotted = CORE + "Fn." + method
    s = summarize(ctx, ev, dotted)
    lin = mk_lin(ev)
    ck = Checker(ctx, ev, lin, rule, f"core.Fn.{method}", func_loc(ctx, dotted))
    HS = N(CORE + "handler_stack")
    pop = ("call", N(CORE + "handler_stack.pop"), (), ())
    r = ("call", ("attr", ("attr", SELF, "source"), "value"), (("star", ARGS),), ((None, KW),))
    X = ("param", "x")

    def handler_ctor(hname, guard_pred=None):
        """Find the pushed handler construction for class hname; check push < source call < pop order."""
        push = src = popi = None
        pushed = None
        for i, e in enumerate(s.events):
            if e[1] != "call":
                continue
            t = e[2]
            if t[1] == N(CORE + "handler_stack.append") and len(t[2]) == 1 and is_call(t[2][0], name=CORE + hname):
                if push is None:
                    push, pushed = i, t[2][0]
            elif t[1] == r[1] and push is not None and src is None:
                src = i
                if t != r:
                    ck.fail(f"{hname}: source called with the method's own arguments", f"found {short(t, ev)}")
            elif t[1] == N(CORE + "handler_stack.pop") and src is not None and popi is None:
                popi = i
        if push is None or src is None or popi is None:
            ck.fail(f"{hname}: push, run source, pop — in this order", f"push={push} source={src} pop={popi}")
            return None
        # no second pop / push in this method for this handler
        return pushed

    def zero(t, label):
        ck.lineq(label, t, C(0))

    def fresh(t, label, kind):
        if t != (kind, ()):
            if not (kind == "set" and (t == ("call", N("builtins.set"), (), ()) or t is None)):
                ck.fail(label, f"expected a fresh empty {kind}, found {short(t, ev) if t is not None else 'default'}")

    def expect_tr(t, hterm, label):
        f = tr_fields(ev, lin.norm(t))
        if f is None:
            ck.fail(label, f"expected Tr(...), found {short(t, ev)}")
            return
        g, a, chs, rv, sc = f
        ck.eq(label + " gen_fn", g, SELF)
        check_args_recorded(ck, a)
        ck.eq(label + " choices = the popped handler's trace_map", chs, ("attr", hterm, "trace_map"))
        ck.eq(label + " retval = source(*args, **kwargs) of this run", rv, r)
        ck.eq(label + " score = the popped handler's score", sc, ("attr", hterm, "score"))

    def check_handler_fields(pushed, expected):
        for fld, (kind, val) in expected.items():
            got = ev.ctor_field(pushed, fld)
            if kind == "zero":
                if got is None:
                    ck.fail(f"handler.{fld} initialised", "missing")
                else:
                    zero(got, f"handler.{fld} starts at 0")
            elif kind == "fresh":
                fresh(got, f"handler.{fld} starts empty", val)
            elif kind == "eq":
                if got is None:
                    ck.fail(f"handler.{fld} initialised", "missing")
                else:
                    ck.eq(f"handler.{fld}", got, val)

    hname = HANDLER_OF[method]
    if method == "simulate":
        pushed = handler_ctor(hname)
        if pushed is not None:
            check_handler_fields(pushed, {"score": ("zero", None), "trace_map": ("fresh", "dict"), "parent_fn": ("eq", SELF)})
            for asg, leaf in spine_cases(s.ret):
                expect_tr(leaf, pop, "simulate")
    elif method == "generate":
        pushed = handler_ctor(hname)
        saw = set()
        for asg, leaf in spine_cases(s.ret):
            pol = None
            for c, v in asg.items():
                rr = none_test(c, X)
                if rr is None:
                    raise AnalysisError(f"core.Fn.generate: unrecognised branch condition {short(c, ev)}")
                pol = (rr == v)
            it = items(leaf)
            if it is None or len(it) != 2:
                ck.fail("generate returns (trace, weight)", f"found {short(leaf, ev)}")
                continue
            saw.add(pol)
            if pol:
                # simulate + weight 0: the trace must come from a Simulate handler run
                f = tr_fields(ev, lin.norm(it[0]))
                if f is None or f[2] != ("attr", pop, "trace_map"):
                    ck.fail("generate(None) = simulate", f"found {short(it[0], ev)}")
                zero(it[1], "generate(None) weight = 0")
            else:
                expect_tr(it[0], pop, "generate(x)")
                ck.eq("weight = the popped handler's weight", it[1], ("attr", pop, "weight"))
        if pushed is not None:
            check_handler_fields(pushed, {"choice_map": ("eq", X), "score": ("zero", None), "weight": ("zero", None),
                                          "trace_map": ("fresh", "dict"), "parent_fn": ("eq", SELF)})
        if True not in saw:
            ck.fail("generate accepts None (whole sub-call unconstrained)", "no `x is None` case")
    elif method == "assess":
        pushed = handler_ctor(hname)
        if pushed is not None:
            check_handler_fields(pushed, {"choice_map": ("eq", X), "logp": ("zero", None), "visited_addresses": ("fresh", "set"),
                                          "parent_fn": ("eq", SELF)})
        for asg, leaf in spine_cases(s.ret):
            it = items(leaf)
            if it is None or len(it) != 2:
                ck.fail("assess returns (density, retval)", f"found {short(leaf, ev)}")
                continue
            ck.eq("density = the popped handler's logp", it[0], ("attr", pop, "logp"))
            ck.eq("retval = source(*args, **kwargs) of this run", it[1], r)
    else:
        pushed = handler_ctor(hname)
        if pushed is not None:
            exp = {"trace": ("eq", TR), "trace_map": ("fresh", "dict"), "discard": ("fresh", "dict"),
                   "score": ("zero", None), "weight": ("zero", None), "parent_fn": ("eq", SELF)}
            if method == "update":
                got = ev.ctor_field(pushed, "choice_map")
                X_ = ("param", "x_")
                want = ("ifexp", ("cmp", "is", X_, NONE), ("dict", ()), X_)
                alt = ("boolop", "or", (X_, ("dict", ())))
                if got not in (want, alt, X_):
                    ck.fail("handler.choice_map = constraints (None → {})", f"found {short(got, ev) if got else None}")
            else:
                exp["s"] = ("eq", ("param", "s"))
            check_handler_fields(pushed, exp)
        for asg, leaf in spine_cases(s.ret):
            it = items(leaf)
            if it is None or len(it) != 3:
                ck.fail(f"{method} returns (trace, weight, discard)", f"found {short(leaf, ev)}")
                continue
            expect_tr(it[0], pop, method)
            ck.eq("weight = the popped handler's weight", it[1], ("attr", pop, "weight"))
            ck.eq("discard = the popped handler's discard", it[2], ("attr", pop, "discard"))
    # the popped object is asserted to be this method's handler class (PAIR: push/pop belong together)
    asserts = [e for e in s.events if e[1] == "assert"]
    if not any(is_call(e[2], name="builtins.isinstance") and e[2][2] == (pop, N(CORE + hname)) for e in asserts):
        ctx.observe(rule, f"core.Fn.{method}", "popped handler is not asserted to be of the pushed class")
    ck.done()


def handler_stack_ownership(ctx, rule="OWN-handler_stack"):
    """Only Fn.* push/pop handler_stack; trace() reads [-1]; GFI.__call__ tests truthiness."""
    writers, readers = [], []
    for mn, m in ctx.p.modules.items():
        for node in ast.walk(m.tree):
            if isinstance(node, ast.Attribute) and isinstance(node.value, ast.Name) and node.value.id == "handler_stack" \
                    and ctx.p.resolve_name(mn, "handler_stack") == CORE + "handler_stack":
                if node.attr in ("append", "pop", "clear", "insert", "remove", "extend"):
                    writers.append((mn, node.lineno, node.attr))
    allowed = set()
    kind, cls, mod, _ = ctx.p.get_class(CORE + "Fn")
    for st in cls.body:
        if isinstance(st, ast.FunctionDef):
            for n in ast.walk(st):
                if hasattr(n, "lineno"):
                    allowed.add(n.lineno)
    outside = [w for w in writers if not (w[0] == "genjax.core" and w[1] in allowed)]
    pushes = sum(1 for w in writers if w[2] == "append")
    pops = sum(1 for w in writers if w[2] == "pop")
    ctx.need(pushes >= 5, f"handler_stack pushes found: {pushes} (< 5)")
    if outside:
        ctx.bad(rule, "core.handler_stack", "mutated outside Fn", f"handler_stack mutated outside Fn methods at {outside}", f"{outside[0][0]}:{outside[0][1]}")
    elif pushes != pops:
        ctx.bad(rule, "core.handler_stack", "push/pop count", f"{pushes} pushes vs {pops} pops in Fn", "src/genjax/core.py")
    else:
        ctx.ok(rule, "core.handler_stack", f"{pushes} push/pop pairs, all inside Fn methods")

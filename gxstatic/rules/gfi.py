"""GFI-contract rules shared by C01–C05 (DESIGN §3 GFI table): ALG / ROLE / SIB over the five
implementors (Distribution, Fn(+handlers), Vmap, Scan, Cond) and the three trace classes."""
from __future__ import annotations

import ast

from ..model import AnalysisError
from ..symeval import ts, subterms, subst, is_const, C, NONE
from .util import (CORE, N, call, CH, SC, RV, mk_ev, mk_lin, summarize, spine_cases, none_test, items, is_call,
                   mentions, func_loc, short, std_axioms)
from ..linform import fmt_lf

SELF = ("param", "self")
ARGS = ("param", "args")
KW = ("param", "kwargs")
TR = ("param", "tr")

GFI_FLOOR = {"Vmap", "Distribution", "Fn", "Scan", "Cond"}
TRACE_FLOOR = {"Tr", "ScanTr", "CondTr"}
HANDLER_FLOOR = {"Simulate", "Generate", "Assess", "Update", "Regenerate"}


def hierarchy(ctx):
    gfis = {n.name: (d, n, m) for d, n, m in ctx.p.subclasses_of("GFI") if d.startswith("genjax.core.")}
    traces = {n.name: (d, n, m) for d, n, m in ctx.p.subclasses_of("Trace") if d.startswith("genjax.core.")}
    ctx.need(GFI_FLOOR <= set(gfis), f"anchor vanished: GFI implementors {sorted(GFI_FLOOR - set(gfis))}")
    ctx.need(TRACE_FLOOR <= set(traces), f"anchor vanished: Trace implementors {sorted(TRACE_FLOOR - set(traces))}")
    return gfis, traces


def L(x):
    """self.logpdf(x, *args, **kwargs)"""
    return ("call", ("attr", SELF, "logpdf"), (x, ("star", ARGS)), ((None, KW),))


def S_():
    return ("call", ("attr", SELF, "sample"), (("star", ARGS),), ((None, KW),))


def tr_fields(ev, t):
    """(gen_fn, args, choices, retval, score) of a Tr(...) construction term, else None."""
    if not is_call(t, name=CORE + "Tr"):
        return None
    out = []
    for f in ("_gen_fn", "_args", "_choices", "_retval", "_score"):
        v = ev.ctor_field(t, f)
        if v is None:
            return None
        out.append(v)
    return out


class Checker:
    def __init__(self, ctx, ev, lin, rule, construct, loc):
        self.ctx, self.ev, self.lin, self.rule, self.construct, self.loc = ctx, ev, lin, rule, construct, loc
        self.failed = False

    def eq(self, what, actual, expected):
        a, e = self.lin.norm(actual), self.lin.norm(expected)
        if a == e:
            return True
        self.fail(what, f"expected {short(e, self.ev)}, found {short(a, self.ev)}")
        return False

    def lineq(self, what, actual, expected):
        try:
            ok, res = self.lin.equal(actual, expected)
        except ValueError as ex:
            raise AnalysisError(f"{self.construct}: {what}: {ex}")
        if ok:
            return True
        asg, lf = res
        when = (" when " + ", ".join(f"{k}={v}" for k, v in asg.items())) if asg else ""
        self.fail(what, f"expected {short(self.lin.norm(expected), self.ev)}; residual (found − expected){when}: {fmt_lf(lf)}")
        return False

    def fail(self, what, detail):
        self.failed = True
        self.ctx.bad(self.rule, self.construct, what, f"{what}: {detail}", self.loc)

    def done(self, detail=""):
        if not self.failed:
            self.ctx.ok(self.rule, self.construct, detail)


# ====================================================================== Distribution
def dist_summary(ctx, method):
    ev = mk_ev(ctx, self_inline={"simulate", "assess"})
    s = summarize(ctx, ev, CORE + "Distribution." + method)
    return ev, s


def check_args_recorded(ck, args_field):
    ck.eq("recorded arguments", args_field, ("tuple", (ARGS, KW)))


def simulate_form(ck, t, label):
    """t must be Tr(self, (args, kwargs), S, S, -L(S)) with S = self.sample(*args, **kwargs)."""
    f = tr_fields(ck.ev, ck.lin.norm(t))
    if f is None:
        ck.fail(label, f"expected a Tr(...) built from a fresh sample, found {short(t, ck.ev)}")
        return
    g, a, ch, rv, sc = f
    ck.eq(label + " gen_fn", g, SELF)
    check_args_recorded(ck, a)
    ck.eq(label + " sampled value", ch, S_())
    ck.eq(label + " retval = choice", rv, ch)
    ck.lineq(label + " score = -logpdf(sample; same args)", sc, ("unop", "-", L(ch)))


def value_form(ck, t, v, label):
    """t must be Tr(self, (args, kwargs), v, v, -L(v))."""
    f = tr_fields(ck.ev, ck.lin.norm(t))
    if f is None:
        ck.fail(label, f"expected a Tr(...) holding the given value, found {short(t, ck.ev)}")
        return
    g, a, ch, rv, sc = f
    ck.eq(label + " gen_fn", g, SELF)
    check_args_recorded(ck, a)
    ck.eq(label + " stored value", ch, v)
    ck.eq(label + " retval = choice", rv, v)
    ck.lineq(label + " score = -logpdf(value; new args)", sc, ("unop", "-", L(v)))


def dist_simulate(ctx, rule="ALG-dist"):
    ev, s = dist_summary(ctx, "simulate")
    lin = mk_lin(ev)
    ck = Checker(ctx, ev, lin, rule, "core.Distribution.simulate", func_loc(ctx, CORE + "Distribution.simulate"))
    cases = spine_cases(s.ret)
    for asg, leaf in cases:
        simulate_form(ck, leaf, "simulate")
    n_samples = sum(1 for e in s.calls() if lin.norm(e[2])[1] == ("attr", SELF, "sample"))
    if n_samples != 1:
        ck.fail("one draw per simulate", f"{n_samples} sampler calls on one path")
    ck.done(short(s.ret, ev, 200))
    ctx.sample({"rule": rule, "construct": "core.Distribution.simulate", "normal_form": short(lin.norm(s.ret), ev, 400)})


def dist_assess(ctx, rule="ALG-dist"):
    ev, s = dist_summary(ctx, "assess")
    lin = mk_lin(ev)
    ck = Checker(ctx, ev, lin, rule, "core.Distribution.assess", func_loc(ctx, CORE + "Distribution.assess"))
    X = ("param", "x")
    for asg, leaf in spine_cases(s.ret):
        it = items(leaf)
        if it is None or len(it) != 2:
            ck.fail("assess returns (density, retval)", f"found {short(leaf, ev)}")
            continue
        ck.lineq("density = logpdf(x; args)", it[0], L(X))
        ck.eq("retval = x", it[1], X)
    ck.done()


def dist_generate(ctx, rule="ALG-dist"):
    ev, s = dist_summary(ctx, "generate")
    lin = mk_lin(ev)
    ck = Checker(ctx, ev, lin, rule, "core.Distribution.generate", func_loc(ctx, CORE + "Distribution.generate"))
    X = ("param", "x")
    saw = set()
    for asg, leaf in spine_cases(s.ret):
        pol = None
        for c, v in asg.items():
            r = none_test(c, X)
            if r is None:
                raise AnalysisError(f"core.Distribution.generate: unrecognised branch condition {short(c, ev)}")
            pol = (r == v)
        if pol is None:
            raise AnalysisError("core.Distribution.generate: no `x is None` split found (shape not recognised)")
        saw.add(pol)
        it = items(leaf)
        if it is None or len(it) != 2:
            ck.fail("generate returns (trace, weight)", f"found {short(leaf, ev)}")
            continue
        if pol:  # unconstrained
            simulate_form(ck, it[0], "generate(None)")
            ck.lineq("generate(None) weight = 0", it[1], C(0))
        else:
            value_form(ck, it[0], X, "generate(x)")
            ck.lineq("generate(x) weight = logpdf(x; args)", it[1], L(X))
            if any(mentions(t, ("attr", SELF, "sample")) or mentions(t, ("attr", SELF, "_sample")) for t in it):
                ck.fail("constrained path draws no sample", "sampler reachable on the constrained path")
    if saw != {True, False}:
        ck.fail("both constraint cases handled", f"cases seen: {sorted(saw)}")
    ck.done()


def dist_update(ctx, rule="ALG-dist"):
    ev, s = dist_summary(ctx, "update")
    lin = mk_lin(ev)
    ck = Checker(ctx, ev, lin, rule, "core.Distribution.update", func_loc(ctx, CORE + "Distribution.update"))
    X_ = ("param", "x_")
    saw = set()
    for asg, leaf in spine_cases(s.ret):
        pol = None
        for c, v in asg.items():
            r = none_test(c, X_)
            if r is None:
                raise AnalysisError(f"core.Distribution.update: unrecognised branch condition {short(c, ev)}")
            pol = (r == v)
        if pol is None:
            # a body that treats None uniformly is acceptable only if the value is `x_ or old`: not recognised
            raise AnalysisError("core.Distribution.update: no `x_ is None` split found (shape not recognised)")
        saw.add(pol)
        it = items(leaf)
        if it is None or len(it) != 3:
            ck.fail("update returns (trace, weight, discard)", f"found {short(leaf, ev)}")
            continue
        v = CH(TR) if pol else X_
        value_form(ck, it[0], v, "update(None)" if pol else "update(x_)")
        ck.lineq("weight = logpdf(new value; new args) + score(old trace)", it[1], ("binop", "+", L(v), SC(TR)))
        d = lin.norm(it[2])
        if d not in (RV(TR), CH(TR)):
            ck.fail("discard = old value", f"found {short(d, ev)}")
    if saw != {True, False}:
        ck.fail("both constraint cases handled", f"cases seen: {sorted(saw)}")
    ck.done()


def leaf_selected_test(c, selp):
    """True if c true means `selection selects the leaf ()`: `() in s` or `s.match(())[0]` / s(())[0]."""
    if c[0] == "cmp" and c[1] == "in" and c[2] == ("tuple", ()) and c[3] == selp:
        return True
    if c[0] == "cmp" and c[1] == "not in" and c[2] == ("tuple", ()) and c[3] == selp:
        return False
    if c[0] == "idx" and is_const(c[2], 0) and c[1][0] == "call" and c[1][2] == (("tuple", ()),):
        fn = c[1][1]
        if fn == ("attr", selp, "match") or fn == selp or fn == ("attr", selp, "__call__"):
            return True
    if c[0] == "call" and c[1] == ("attr", selp, "__contains__") and c[2] == (("tuple", ()),):
        return True
    if c[0] == "unop" and c[1] == "not":
        r = leaf_selected_test(c[2], selp)
        return None if r is None else (not r)
    return None


def dist_regenerate(ctx, rule="ALG-dist"):
    ev, s = dist_summary(ctx, "regenerate")
    lin = mk_lin(ev)
    ck = Checker(ctx, ev, lin, rule, "core.Distribution.regenerate", func_loc(ctx, CORE + "Distribution.regenerate"))
    SELP = ("param", "s")
    saw = set()
    for asg, leaf in spine_cases(s.ret):
        pol = None
        for c, v in asg.items():
            r = leaf_selected_test(c, SELP)
            if r is None:
                raise AnalysisError(f"core.Distribution.regenerate: unrecognised branch condition {short(c, ev)}")
            pol = (r == v)
        if pol is None:
            raise AnalysisError("core.Distribution.regenerate: no leaf-selection split found (shape not recognised)")
        saw.add(pol)
        it = items(leaf)
        if it is None or len(it) != 3:
            ck.fail("regenerate returns (trace, weight, discard)", f"found {short(leaf, ev)}")
            continue
        if pol:
            simulate_form(ck, it[0], "regenerate(selected)")
            ck.lineq("regenerate(selected) weight = 0", it[1], C(0))
            d = lin.norm(it[2])
            if d not in (RV(TR), CH(TR)):
                ck.fail("selected: discard = old value", f"found {short(d, ev)}")
        else:
            value_form(ck, it[0], CH(TR), "regenerate(unselected)")
            ck.lineq("unselected weight = logpdf(old value; new args) + score(old trace)", it[1],
                     ("binop", "+", L(CH(TR)), SC(TR)))
            if not is_const(lin.norm(it[2]), None):
                ck.fail("unselected: discard = None", f"found {short(it[2], ev)}")
            if any(mentions(t, ("attr", SELF, "sample")) or mentions(t, ("attr", SELF, "_sample")) for t in it):
                ck.fail("unselected path draws no sample", "sampler reachable on the unselected path")
    if saw != {True, False}:
        ck.fail("both selection cases handled", f"cases seen: {sorted(saw)}")
    ck.done()

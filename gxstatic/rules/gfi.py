"""GFI-contract rules shared by C01–C05 (DESIGN §3 GFI table): ALG / ROLE / SIB over the five
implementors (Distribution, Fn(+handlers), Vmap, Scan, Cond) and the three trace classes."""
from __future__ import annotations

import ast

from ..model import AnalysisError
from ..symeval import ts, subterms, subst, is_const, C, NONE
from .util import (CORE, N, call, CH, SC, RV, mk_ev, mk_lin, summarize, spine_cases, none_test, items, is_call,
                   mentions, func_loc, short, std_axioms, all_cases)
from ..linform import fmt_lf

SELF = ("param", "self")
ARGS = ("param", "args")
KW = ("param", "kwargs")
TR = ("param", "tr")

GFI_FLOOR = {"Vmap", "Distribution", "Fn", "Scan", "Cond"}
TRACE_FLOOR = {"Tr", "ScanTr", "CondTr"}
HANDLER_FLOOR = {"Simulate", "Generate", "Assess", "Update", "Regenerate"}


def hierarchy(ctx):
    gfis = {n.name: (d, n, m) for d, n, m in ctx.p.subclasses_of("GFI") if d.startswith("genjax.core.")}
    traces = {n.name: (d, n, m) for d, n, m in ctx.p.subclasses_of("Trace") if d.startswith("genjax.core.")}
    ctx.need(GFI_FLOOR <= set(gfis), f"anchor vanished: GFI implementors {sorted(GFI_FLOOR - set(gfis))}")
    ctx.need(TRACE_FLOOR <= set(traces), f"anchor vanished: Trace implementors {sorted(TRACE_FLOOR - set(traces))}")
    return gfis, traces


def L(x):
    """self.logpdf(x, *args, **kwargs)"""
    return ("call", ("attr", SELF, "logpdf"), (x, ("star", ARGS)), ((None, KW),))


def S_():
    return ("call", ("attr", SELF, "sample"), (("star", ARGS),), ((None, KW),))


def tr_fields(ev, t):
    """(gen_fn, args, choices, retval, score) of a Tr(...) construction term, else None."""
    if not is_call(t, name=CORE + "Tr"):
        return None
    out = []
    for f in ("_gen_fn", "_args", "_choices", "_retval", "_score"):
        v = ev.ctor_field(t, f)
        if v is None:
            return None
        out.append(v)
    return out


class Checker:
    def __init__(self, ctx, ev, lin, rule, construct, loc):
        self.ctx, self.ev, self.lin, self.rule, self.construct, self.loc = ctx, ev, lin, rule, construct, loc
        self.failed = False

    def eq(self, what, actual, expected):
        a, e = self.lin.norm(actual), self.lin.norm(expected)
        if a == e:
            return True
        self.fail(what, f"expected {short(e, self.ev)}, found {short(a, self.ev)}")
        return False

    def lineq(self, what, actual, expected):
        try:
            ok, res = self.lin.equal(actual, expected)
        except ValueError as ex:
            raise AnalysisError(f"{self.construct}: {what}: {ex}")
        if ok:
            return True
        asg, lf = res
        when = (" when " + ", ".join(f"{k}={v}" for k, v in asg.items())) if asg else ""
        self.fail(what, f"expected {short(self.lin.norm(expected), self.ev)}; residual (found − expected){when}: {fmt_lf(lf)}")
        return False

    def fail(self, what, detail):
        self.failed = True
        self.ctx.bad(self.rule, self.construct, what, f"{what}: {detail}", self.loc)

    def done(self, detail=""):
        if not self.failed:
            self.ctx.ok(self.rule, self.construct, detail)


# ====================================================================== Distribution
def dist_summary(ctx, method):
    ev = mk_ev(ctx, self_inline={"simulate", "assess"})
    s = summarize(ctx, ev, CORE + "Distribution." + method)
    return ev, s


def check_args_recorded(ck, args_field):
    ck.eq("recorded arguments", args_field, ("tuple", (ARGS, KW)))


def simulate_form(ck, t, label):
    """t must be Tr(self, (args, kwargs), S, S, -L(S)) with S = self.sample(*args, **kwargs)."""
    f = tr_fields(ck.ev, ck.lin.norm(t))
    if f is None:
        ck.fail(label, f"expected a Tr(...) built from a fresh sample, found {short(t, ck.ev)}")
        return
    g, a, ch, rv, sc = f
    ck.eq(label + " gen_fn", g, SELF)
    check_args_recorded(ck, a)
    ck.eq(label + " sampled value", ch, S_())
    ck.eq(label + " retval = choice", rv, ch)
    ck.lineq(label + " score = -logpdf(sample; same args)", sc, ("unop", "-", L(ch)))


def value_form(ck, t, v, label):
    """t must be Tr(self, (args, kwargs), v, v, -L(v))."""
    f = tr_fields(ck.ev, ck.lin.norm(t))
    if f is None:
        ck.fail(label, f"expected a Tr(...) holding the given value, found {short(t, ck.ev)}")
        return
    g, a, ch, rv, sc = f
    ck.eq(label + " gen_fn", g, SELF)
    check_args_recorded(ck, a)
    ck.eq(label + " stored value", ch, v)
    ck.eq(label + " retval = choice", rv, v)
    ck.lineq(label + " score = -logpdf(value; new args)", sc, ("unop", "-", L(v)))


def dist_simulate(ctx, rule="ALG-dist"):
    ev, s = dist_summary(ctx, "simulate")
    lin = mk_lin(ev)
    ck = Checker(ctx, ev, lin, rule, "core.Distribution.simulate", func_loc(ctx, CORE + "Distribution.simulate"))
    cases = spine_cases(s.ret)
    for asg, leaf in cases:
        simulate_form(ck, leaf, "simulate")
    n_samples = sum(1 for e in s.calls() if lin.norm(e[2])[1] == ("attr", SELF, "sample"))
    if n_samples != 1:
        ck.fail("one draw per simulate", f"{n_samples} sampler calls on one path")
    ck.done(short(s.ret, ev, 200))
    ctx.sample({"rule": rule, "construct": "core.Distribution.simulate", "normal_form": short(lin.norm(s.ret), ev, 400)})


def dist_assess(ctx, rule="ALG-dist"):
    ev, s = dist_summary(ctx, "assess")
    lin = mk_lin(ev)
    ck = Checker(ctx, ev, lin, rule, "core.Distribution.assess", func_loc(ctx, CORE + "Distribution.assess"))
    X = ("param", "x")
    for asg, leaf in spine_cases(s.ret):
        it = items(leaf)
        if it is None or len(it) != 2:
            ck.fail("assess returns (density, retval)", f"found {short(leaf, ev)}")
            continue
        ck.lineq("density = logpdf(x; args)", it[0], L(X))
        ck.eq("retval = x", it[1], X)
    ck.done()


def dist_generate(ctx, rule="ALG-dist"):
    ev, s = dist_summary(ctx, "generate")
    lin = mk_lin(ev)
    ck = Checker(ctx, ev, lin, rule, "core.Distribution.generate", func_loc(ctx, CORE + "Distribution.generate"))
    X = ("param", "x")
    saw = set()
    for asg, leaf in all_cases(s.ret):
        pol = None
        for c, v in asg.items():
            r = none_test(c, X)
            if r is None:
                continue
            pol = (r == v)
        if pol is None:
            raise AnalysisError("core.Distribution.generate: no `x is None` split found (shape not recognised)")
        saw.add(pol)
        it = items(leaf)
        if it is None or len(it) != 2:
            ck.fail("generate returns (trace, weight)", f"found {short(leaf, ev)}")
            continue
        if pol:  # unconstrained
            simulate_form(ck, it[0], "generate(None)")
            ck.lineq("generate(None) weight = 0", it[1], C(0))
        else:
            value_form(ck, it[0], X, "generate(x)")
            ck.lineq("generate(x) weight = logpdf(x; args)", it[1], L(X))
            if any(mentions(t, ("attr", SELF, "sample")) or mentions(t, ("attr", SELF, "_sample")) for t in it):
                ck.fail("constrained path draws no sample", "sampler reachable on the constrained path")
    if saw != {True, False}:
        ck.fail("both constraint cases handled", f"cases seen: {sorted(saw)}")
    ck.done()


def dist_update(ctx, rule="ALG-dist"):
    ev, s = dist_summary(ctx, "update")
    lin = mk_lin(ev)
    ck = Checker(ctx, ev, lin, rule, "core.Distribution.update", func_loc(ctx, CORE + "Distribution.update"))
    X_ = ("param", "x_")
    saw = set()
    for asg, leaf in all_cases(s.ret):
        pol = None
        for c, v in asg.items():
            r = none_test(c, X_)
            if r is None:
                continue
            pol = (r == v)
        if pol is None:
            # a body that treats None uniformly is acceptable only if the value is `x_ or old`: not recognised
            raise AnalysisError("core.Distribution.update: no `x_ is None` split found (shape not recognised)")
        saw.add(pol)
        it = items(leaf)
        if it is None or len(it) != 3:
            ck.fail("update returns (trace, weight, discard)", f"found {short(leaf, ev)}")
            continue
        v = CH(TR) if pol else X_
        value_form(ck, it[0], v, "update(None)" if pol else "update(x_)")
        ck.lineq("weight = logpdf(new value; new args) + score(old trace)", it[1], ("binop", "+", L(v), SC(TR)))
        d = lin.norm(it[2])
        if d not in (RV(TR), CH(TR)):
            ck.fail("discard = old value", f"found {short(d, ev)}")
    if saw != {True, False}:
        ck.fail("both constraint cases handled", f"cases seen: {sorted(saw)}")
    ck.done()


def leaf_selected_test(c, selp):
    """True if c true means `selection selects the leaf ()`: `() in s` or `s.match(())[0]` / s(())[0]."""
    if c[0] == "cmp" and c[1] == "in" and c[2] == ("tuple", ()) and c[3] == selp:
        return True
    if c[0] == "cmp" and c[1] == "not in" and c[2] == ("tuple", ()) and c[3] == selp:
        return False
    if c[0] == "idx" and is_const(c[2], 0) and c[1][0] == "call" and c[1][2] == (("tuple", ()),):
        fn = c[1][1]
        if fn == ("attr", selp, "match") or fn == selp or fn == ("attr", selp, "__call__"):
            return True
    if c[0] == "call" and c[1] == ("attr", selp, "__contains__") and c[2] == (("tuple", ()),):
        return True
    if c[0] == "unop" and c[1] == "not":
        r = leaf_selected_test(c[2], selp)
        return None if r is None else (not r)
    return None


def dist_regenerate(ctx, rule="ALG-dist"):
    ev, s = dist_summary(ctx, "regenerate")
    lin = mk_lin(ev)
    ck = Checker(ctx, ev, lin, rule, "core.Distribution.regenerate", func_loc(ctx, CORE + "Distribution.regenerate"))
    SELP = ("param", "s")
    saw = set()
    for asg, leaf in all_cases(s.ret):
        pol = None
        for c, v in asg.items():
            r = leaf_selected_test(c, SELP)
            if r is None:
                continue
            pol = (r == v)
        if pol is None:
            raise AnalysisError("core.Distribution.regenerate: no leaf-selection split found (shape not recognised)")
        saw.add(pol)
        it = items(leaf)
        if it is None or len(it) != 3:
            ck.fail("regenerate returns (trace, weight, discard)", f"found {short(leaf, ev)}")
            continue
        if pol:
            simulate_form(ck, it[0], "regenerate(selected)")
            ck.lineq("regenerate(selected) weight = 0", it[1], C(0))
            d = lin.norm(it[2])
            if d not in (RV(TR), CH(TR)):
                ck.fail("selected: discard = old value", f"found {short(d, ev)}")
        else:
            value_form(ck, it[0], CH(TR), "regenerate(unselected)")
            ck.lineq("unselected weight = logpdf(old value; new args) + score(old trace)", it[1],
                     ("binop", "+", L(CH(TR)), SC(TR)))
            if not is_const(lin.norm(it[2]), None):
                ck.fail("unselected: discard = None", f"found {short(it[2], ev)}")
            if any(mentions(t, ("attr", SELF, "sample")) or mentions(t, ("attr", SELF, "_sample")) for t in it):
                ck.fail("unselected path draws no sample", "sampler reachable on the unselected path")
    if saw != {True, False}:
        ck.fail("both selection cases handled", f"cases seen: {sorted(saw)}")
    ck.done()


# ====================================================================== handlers
ADDR = ("param", "addr")
GF = ("param", "gen_fn")


def more_axioms(x):
    """CHOICES algebra used by the handler/SMC rules (justified by core.get_choices: recursive unwrap,
    idempotent Fixed-stripping, a Fn trace's choices at `addr` are the sub-trace's choices)."""
    if is_call(x, name="CHOICES"):
        a = x[2][0]
        if is_call(a, name="CHOICES"):
            return a
        if a[0] == "ifexp":
            return ("ifexp", a[1], CH(a[2]), CH(a[3]))
        if is_const(a, None):
            return a
        if a[0] == "attr" and a[2] == "_choices":
            return CH(a[1])
    if x[0] == "idx" and is_call(x[1], name="CHOICES"):
        inner = x[1][2][0]
        return CH(("idx", CH(inner), x[2])) if False else CH(("idx", ("attr", inner, "_choices"), x[2]))
    if x[0] == "idx" and x[1][0] == "attr" and x[1][2] == "_choices" and False:
        return None
    return None


def handler_call_args(argname):
    return (("star", ("param", argname)),), ((None, ("param", "kwargs")),)


def field_final(s, name):
    return s.env.get(("attr", SELF, name))


def map_store(s, mapname, key=ADDR):
    return s.env.get(("idx", ("attr", SELF, mapname), key))


def collision_guard(ctx, ck, s, ev, lin, callee_attr):
    """GUARD: an address-collision check on (addr, self's own visited structure) precedes the callee call."""
    pos_check, pos_call, structure = None, None, None
    for i, e in enumerate(s.events):
        if e[1] != "call":
            continue
        t = e[2]
        if t[1][0] == "name" and t[1][1] in (CORE + "_check_address_collision", CORE + "_check_address_collision_visited"):
            if len(t[2]) >= 2 and t[2][0] == ADDR and t[2][1][0] == "attr" and t[2][1][1] == SELF and not e[0]:
                if pos_check is None:
                    pos_check, structure = i, (t[1][1], t[2][1][2])
        if t[1] == ("attr", GF, callee_attr) and pos_call is None:
            pos_call = i
    if pos_call is None:
        ck.fail("callee invoked", f"no gen_fn.{callee_attr}(...) call found")
        return
    if pos_check is None or pos_check > pos_call:
        ck.fail("address-collision check precedes the sub-call", "no unconditional _check_address_collision(addr, self.<visited>) before the callee call")
        return
    fn, fld = structure
    # the structure checked must be the one this handler records into
    if fn.endswith("_visited"):
        return  # the helper itself adds addr to the set (checked in collision_helpers)
    if map_store(s, fld) is None:
        ck.fail("collision structure is recorded", f"self.{fld}[addr] is never written although it is the structure checked for collisions")


def collision_helpers(ctx, rule="GUARD-collision"):
    ev = mk_ev(ctx)
    for nm, adds in (("_check_address_collision", False), ("_check_address_collision_visited", True)):
        dotted = CORE + nm
        s = summarize(ctx, ev, dotted)
        ck = Checker(ctx, ev, mk_lin(ev), rule, "core." + nm, func_loc(ctx, dotted))
        params = s.params
        a, st = ("param", params[0]), ("param", params[1])
        raises = [e for e in s.events if e[1] == "raise"]

        def asserts_member(c, pol):
            """True if (c, pol) on a path means `addr in container`, False if it means `addr not in container`, None if unrelated."""
            if not isinstance(c, tuple):
                return None
            if c == ("cmp", "in", a, st):
                return bool(pol)
            if c == ("cmp", "not in", a, st):
                return not pol
            if c[0] == "unop" and c[1] == "not":
                r = asserts_member(c[2], pol)
                return None if r is None else (not r)
            return None
        good = [e for e in raises if any(asserts_member(c, pol) is True for c, pol in e[0])]
        if not good:
            ck.fail("raises when the address was already used", f"no `raise` guarded by `{params[0]} in {params[1]}`")
        else:
            exc = good[0][2]
            if not (is_call(exc) and exc[1] == N("builtins.ValueError")):
                ck.fail("raises ValueError", f"raises {short(exc, ev)}")
        if adds:
            addcalls = [e for e in s.events if e[1] == "call" and e[2][1] == ("attr", st, "add") and e[2][2] == (a,)]
            if not any(not any(asserts_member(c, pol) is True for c, pol in e[0]) for e in addcalls):
                ck.fail("records the address after the check", "visited.add(addr) missing on the non-colliding path")
        ck.done()


def handler_rule(ctx, hname, rule="ALG-handler"):
    ev = mk_ev(ctx)
    dotted = CORE + hname + ".__call__"
    s = summarize(ctx, ev, dotted)
    lin = mk_lin(ev, extra=[more_axioms])
    ck = Checker(ctx, ev, lin, rule, f"core.{hname}.__call__", func_loc(ctx, dotted))
    params = s.params
    ctx.need(len(params) >= 4, f"{dotted}: unexpected signature {params}")
    argname = params[3]
    AP, KP = ("param", argname), ("param", params[4] if len(params) > 4 else "kwargs")
    star, kw = (("star", AP),), ((None, KP),)
    method = {"Simulate": "simulate", "Generate": "generate", "Assess": "assess", "Update": "update", "Regenerate": "regenerate"}[hname]
    collision_guard(ctx, ck, s, ev, lin, method)
    cm = ("attr", SELF, "choice_map")
    old = ("attr", SELF, "trace")
    subtrace = ("idx", ("attr", old, "_choices"), ADDR)

    def sub(*pre):
        return ("call", ("attr", GF, method), tuple(pre) + star, kw)

    def acc(field, init_field, term, label):
        got = field_final(s, field)
        if got is None:
            ck.fail(label, f"self.{field} is never updated")
            return
        ck.lineq(label, got, ("binop", "+", ("attr", SELF, field), term))

    if hname == "Simulate":
        t = sub()
        acc("score", "score", SC(t), "score accumulates the sub-trace score")
        ck.eq("trace_map[addr] = sub-trace", map_store(s, "trace_map") or NONE, t)
        ck.eq("returns the sub-call's retval", s.ret, RV(t))
    elif hname == "Generate":
        x = ("ifexp", ("cmp", "in", ADDR, cm), CH(("idx", cm, ADDR)), NONE)
        t = sub(x)
        tr_, w_ = ("idx", t, C(0)), ("idx", t, C(1))
        acc("score", "score", SC(tr_), "score accumulates the sub-trace score")
        acc("weight", "weight", w_, "weight accumulates exactly the sub-call weight")
        ck.eq("trace_map[addr] = sub-trace", map_store(s, "trace_map") or NONE, tr_)
        ck.eq("returns the sub-call's retval", s.ret, RV(tr_))
    elif hname == "Assess":
        x = CH(("idx", cm, ADDR))
        t = sub(x)
        acc("logp", "logp", ("idx", t, C(0)), "logp accumulates exactly the sub-call density")
        ck.eq("returns the sub-call's retval", s.ret, ("idx", t, C(1)))
    elif hname == "Update":
        x = ("ifexp", ("cmp", "in", ADDR, cm), CH(("idx", cm, ADDR)), CH(subtrace))
        t = sub(subtrace, x)
        tr_, w_, d_ = ("idx", t, C(0)), ("idx", t, C(1)), ("idx", t, C(2))
        acc("score", "score", SC(tr_), "score accumulates the new sub-trace score")
        acc("weight", "weight", w_, "weight accumulates exactly the sub-call weight")
        ck.eq("trace_map[addr] = new sub-trace", map_store(s, "trace_map") or NONE, tr_)
        ck.eq("discard[addr] = sub-call discard", map_store(s, "discard") or NONE, d_)
        ck.eq("returns the sub-call's retval", s.ret, RV(tr_))
    elif hname == "Regenerate":
        subsel = ("idx", ("call", ("attr", ("attr", SELF, "s"), "match"), (ADDR,), ()), C(1))
        t = sub(subtrace, subsel)
        tr_, w_, d_ = ("idx", t, C(0)), ("idx", t, C(1)), ("idx", t, C(2))
        acc("score", "score", SC(tr_), "score accumulates the new sub-trace score")
        acc("weight", "weight", w_, "weight accumulates exactly the sub-call weight")
        ck.eq("trace_map[addr] = new sub-trace", map_store(s, "trace_map") or NONE, tr_)
        ck.eq("discard[addr] = sub-call discard", map_store(s, "discard") or NONE, d_)
        ck.eq("returns the sub-call's retval", s.ret, RV(tr_))
    ck.done()
    ctx.sample({"rule": rule, "construct": f"core.{hname}.__call__", "return": short(lin.norm(s.ret), ev, 300)})


# ====================================================================== Fn
HANDLER_OF = {"simulate": "Simulate", "generate": "Generate", "assess": "Assess", "update": "Update", "regenerate": "Regenerate"}


def fn_rule(ctx, method, rule="ALG-Fn"):
    ev = mk_ev(ctx, self_inline={"simulate"})
    dotted = CORE + "Fn." + method
    s = summarize(ctx, ev, dotted)
    lin = mk_lin(ev)
    ck = Checker(ctx, ev, lin, rule, f"core.Fn.{method}", func_loc(ctx, dotted))
    HS = N(CORE + "handler_stack")
    pop = ("call", N(CORE + "handler_stack.pop"), (), ())
    r = ("call", ("attr", ("attr", SELF, "source"), "value"), (("star", ARGS),), ((None, KW),))
    X = ("param", "x")

    def handler_ctor(hname, guard_pred=None):
        """Find the pushed handler construction for class hname; check push < source call < pop order."""
        push = src = popi = None
        pushed = None
        for i, e in enumerate(s.events):
            if e[1] != "call":
                continue
            t = e[2]
            if t[1] == N(CORE + "handler_stack.append") and len(t[2]) == 1 and is_call(t[2][0], name=CORE + hname):
                if push is None:
                    push, pushed = i, t[2][0]
            elif t[1] == r[1] and push is not None and src is None:
                src = i
                if t != r:
                    ck.fail(f"{hname}: source called with the method's own arguments", f"found {short(t, ev)}")
            elif t[1] == N(CORE + "handler_stack.pop") and src is not None and popi is None:
                popi = i
        if push is None or src is None or popi is None:
            ck.fail(f"{hname}: push, run source, pop — in this order", f"push={push} source={src} pop={popi}")
            return None
        # no second pop / push in this method for this handler
        return pushed

    def zero(t, label):
        ck.lineq(label, t, C(0))

    def fresh(t, label, kind):
        if t != (kind, ()):
            if not (kind == "set" and (t == ("call", N("builtins.set"), (), ()) or t is None)):
                ck.fail(label, f"expected a fresh empty {kind}, found {short(t, ev) if t is not None else 'default'}")

    def expect_tr(t, hterm, label):
        f = tr_fields(ev, lin.norm(t))
        if f is None:
            ck.fail(label, f"expected Tr(...), found {short(t, ev)}")
            return
        g, a, chs, rv, sc = f
        ck.eq(label + " gen_fn", g, SELF)
        check_args_recorded(ck, a)
        ck.eq(label + " choices = the popped handler's trace_map", chs, ("attr", hterm, "trace_map"))
        ck.eq(label + " retval = source(*args, **kwargs) of this run", rv, r)
        ck.eq(label + " score = the popped handler's score", sc, ("attr", hterm, "score"))

    def check_handler_fields(pushed, expected):
        for fld, (kind, val) in expected.items():
            got = ev.ctor_field(pushed, fld)
            if kind == "zero":
                if got is None:
                    ck.fail(f"handler.{fld} initialised", "missing")
                else:
                    zero(got, f"handler.{fld} starts at 0")
            elif kind == "fresh":
                fresh(got, f"handler.{fld} starts empty", val)
            elif kind == "eq":
                if got is None:
                    ck.fail(f"handler.{fld} initialised", "missing")
                else:
                    ck.eq(f"handler.{fld}", got, val)

    hname = HANDLER_OF[method]
    if method == "simulate":
        pushed = handler_ctor(hname)
        if pushed is not None:
            check_handler_fields(pushed, {"score": ("zero", None), "trace_map": ("fresh", "dict"), "parent_fn": ("eq", SELF)})
            for asg, leaf in spine_cases(s.ret):
                expect_tr(leaf, pop, "simulate")
    elif method == "generate":
        pushed = handler_ctor(hname)
        saw = set()
        for asg, leaf in spine_cases(s.ret):
            pol = None
            for c, v in asg.items():
                rr = none_test(c, X)
                if rr is None:
                    raise AnalysisError(f"core.Fn.generate: unrecognised branch condition {short(c, ev)}")
                pol = (rr == v)
            it = items(leaf)
            if it is None or len(it) != 2:
                ck.fail("generate returns (trace, weight)", f"found {short(leaf, ev)}")
                continue
            saw.add(pol)
            if pol:
                # simulate + weight 0: the trace must come from a Simulate handler run
                f = tr_fields(ev, lin.norm(it[0]))
                if f is None or f[2] != ("attr", pop, "trace_map"):
                    ck.fail("generate(None) = simulate", f"found {short(it[0], ev)}")
                else:
                    # ... of THIS call: same (args, kwargs) recorded, source run on them, the Simulate run's own score
                    expect_tr(it[0], pop, "generate(None) = simulate(*args, **kwargs):")
                zero(it[1], "generate(None) weight = 0")
            else:
                expect_tr(it[0], pop, "generate(x)")
                ck.eq("weight = the popped handler's weight", it[1], ("attr", pop, "weight"))
        if pushed is not None:
            check_handler_fields(pushed, {"choice_map": ("eq", X), "score": ("zero", None), "weight": ("zero", None),
                                          "trace_map": ("fresh", "dict"), "parent_fn": ("eq", SELF)})
        if True not in saw:
            ck.fail("generate accepts None (whole sub-call unconstrained)", "no `x is None` case")
    elif method == "assess":
        pushed = handler_ctor(hname)
        if pushed is not None:
            check_handler_fields(pushed, {"choice_map": ("eq", X), "logp": ("zero", None), "visited_addresses": ("fresh", "set"),
                                          "parent_fn": ("eq", SELF)})
        for asg, leaf in spine_cases(s.ret):
            it = items(leaf)
            if it is None or len(it) != 2:
                ck.fail("assess returns (density, retval)", f"found {short(leaf, ev)}")
                continue
            ck.eq("density = the popped handler's logp", it[0], ("attr", pop, "logp"))
            ck.eq("retval = source(*args, **kwargs) of this run", it[1], r)
    else:
        pushed = handler_ctor(hname)
        if pushed is not None:
            exp = {"trace": ("eq", TR), "trace_map": ("fresh", "dict"), "discard": ("fresh", "dict"),
                   "score": ("zero", None), "weight": ("zero", None), "parent_fn": ("eq", SELF)}
            if method == "update":
                got = ev.ctor_field(pushed, "choice_map")
                X_ = ("param", "x_")
                want = ("ifexp", ("cmp", "is", X_, NONE), ("dict", ()), X_)
                alt = ("boolop", "or", (X_, ("dict", ())))
                if got not in (want, alt, X_):
                    ck.fail("handler.choice_map = constraints (None → {})", f"found {short(got, ev) if got else None}")
            else:
                exp["s"] = ("eq", ("param", "s"))
            check_handler_fields(pushed, exp)
        for asg, leaf in spine_cases(s.ret):
            it = items(leaf)
            if it is None or len(it) != 3:
                ck.fail(f"{method} returns (trace, weight, discard)", f"found {short(leaf, ev)}")
                continue
            expect_tr(it[0], pop, method)
            ck.eq("weight = the popped handler's weight", it[1], ("attr", pop, "weight"))
            ck.eq("discard = the popped handler's discard", it[2], ("attr", pop, "discard"))
    # the popped object is asserted to be this method's handler class (PAIR: push/pop belong together)
    asserts = [e for e in s.events if e[1] == "assert"]
    if not any(is_call(e[2], name="builtins.isinstance") and e[2][2] == (pop, N(CORE + hname)) for e in asserts):
        ctx.observe(rule, f"core.Fn.{method}", "popped handler is not asserted to be of the pushed class")
    ck.done()


def handler_stack_ownership(ctx, rule="OWN-handler_stack"):
    """Only Fn.* push/pop handler_stack; trace() reads [-1]; GFI.__call__ tests truthiness."""
    writers, readers = [], []
    for mn, m in ctx.p.modules.items():
        for node in ast.walk(m.tree):
            if isinstance(node, ast.Attribute) and isinstance(node.value, ast.Name) and node.value.id == "handler_stack" \
                    and ctx.p.resolve_name(mn, "handler_stack") == CORE + "handler_stack":
                if node.attr in ("append", "pop", "clear", "insert", "remove", "extend"):
                    writers.append((mn, node.lineno, node.attr))
    allowed = set()
    kind, cls, mod, _ = ctx.p.get_class(CORE + "Fn")
    for st in cls.body:
        if isinstance(st, ast.FunctionDef):
            for n in ast.walk(st):
                if hasattr(n, "lineno"):
                    allowed.add(n.lineno)
    outside = [w for w in writers if not (w[0] == "genjax.core" and w[1] in allowed)]
    pushes = sum(1 for w in writers if w[2] == "append")
    pops = sum(1 for w in writers if w[2] == "pop")
    ctx.need(pushes >= 1, "handler_stack is never pushed (anchor vanished)")
    if outside:
        ctx.bad(rule, "core.handler_stack", "mutated outside Fn", f"handler_stack mutated outside Fn methods at {outside}", f"{outside[0][0]}:{outside[0][1]}")
    elif pushes != pops:
        ctx.bad(rule, "core.handler_stack", "push/pop count", f"{pushes} pushes vs {pops} pops in Fn", "src/genjax/core.py")
    else:
        ctx.ok(rule, "core.handler_stack", f"{pushes} push/pop pairs, all inside Fn methods")


def fnode(ctx, dotted):
    kind, node, mod, owner = ctx.p.get_function(dotted)
    ctx.fn(dotted)
    return node, mod


REDUCERS = {"jax.numpy.sum", "jax.numpy.add.reduce"}


def fully_reduced(t):
    """True when the term is a scalar whatever the shape of the choices involved: a constant, a full reduction (jnp.sum without an axis),
    a trace's score accessor (get_score reduces), or arithmetic / a select over such terms.  A callee's returned density or weight
    (`gen_fn.assess(...)[0]`, `gen_fn.generate(...)[1]`, `self.logpdf(...)`) is array-valued for an array-valued choice: not reduced."""
    if not isinstance(t, tuple) or not t:
        return False
    h = t[0]
    if h == "const":
        return True
    if h == "call":
        fn = t[1]
        if fn[0] == "name" and fn[1] in REDUCERS:
            return not any(k in ("axis",) for k, _ in t[3]) and len(t[2]) == 1
        if fn[0] == "name" and fn[1] in ("jax.numpy.array", "jax.numpy.asarray", "jax.numpy.float32") and t[2] and t[2][0][0] == "const":
            return True
        if fn[0] == "name" and fn[1] in ("jax.numpy.zeros", "jax.numpy.ones") and t[2] and t[2][0] == ("tuple", ()):
            return True
        if fn[0] == "attr" and fn[2] == "get_score" and not t[2]:
            return True
        if fn[0] == "name" and fn[1] in (CORE + "get_score",):
            return True
        if fn[0] == "name" and fn[1] in ("jax.numpy.where", "jax.lax.select") and len(t[2]) == 3:
            return fully_reduced(t[2][1]) and fully_reduced(t[2][2])
        if fn[0] == "attr" and fn[2] == "sum" and not t[2] and not t[3]:
            return True
        return False
    if h == "binop":
        return fully_reduced(t[2]) and fully_reduced(t[3])
    if h == "unop":
        return fully_reduced(t[2])
    if h == "ifexp":
        return fully_reduced(t[2]) and fully_reduced(t[3])
    if h == "attr" and t[1] == SELF and t[2] in ("score", "weight", "logp"):
        return True
    return False


def density_reduction(ctx, which, rule="SHAPE-density-reduction"):
    """A @gen function's density, weight and score are scalars whatever the shapes of its choices.  The Simulate handler adds the
    sub-trace's score through get_score(), which sums over the coordinates of an array-valued choice; its siblings must add the callee's
    density / weight under the same full reduction, or a model that mixes a scalar choice with an array-valued one gets an array
    'density' in which the scalar term is counted once per coordinate.  Likewise Distribution.update / regenerate combine a fresh
    logpdf with the old trace's (already reduced) score.  `which`: the handlers / Distribution methods this property covers."""
    targets = {"Assess": [("Assess", "logp")], "Generate": [("Generate", "weight")], "Update": [("Update", "weight")], "Regenerate": [("Regenerate", "weight")]}
    for hname in which:
        if hname in targets:
            for cls, field in targets[hname]:
                ev = mk_ev(ctx)
                dotted = CORE + cls + ".__call__"
                s = summarize(ctx, ev, dotted)
                construct = f"core.{cls}.__call__ (self.{field})"
                got = field_final(s, field)
                ctx.need(got is not None, f"{dotted}: self.{field} is never updated (anchor vanished)")
                bad = [leaf for _, leaf in all_cases_(got) if not fully_reduced(leaf)]
                if bad:
                    ctx.bad(rule, construct, "sub-call term reduced to a scalar before it is accumulated",
                            f"self.{field} accumulates {short(bad[0], ev, 160)}: the callee's {'density' if field == 'logp' else 'weight'} is array-valued for an array-valued choice "
                            "(e.g. normal(jnp.zeros(3), 1.) @ 'b'), so the accumulated value becomes an array and every scalar term is counted once per coordinate, while the "
                            "Simulate handler's score (get_score) is the reduced sum", func_loc(ctx, dotted))
                else:
                    ctx.ok(rule, construct, "accumulates a fully reduced term")
        else:
            # Distribution.update / Distribution.regenerate
            ev = mk_ev(ctx)
            dotted = CORE + "Distribution." + hname
            s = summarize(ctx, ev, dotted)
            construct = f"core.Distribution.{hname} (weight)"
            bad = []
            n = 0
            for asg, leaf in all_cases_(s.ret):
                it = items(leaf)
                if it is None or len(it) != 3:
                    continue
                n += 1
                w = it[1]
                # mixing: a reduced accessor (get_score) added to an unreduced logpdf
                has_red = any(is_call(x) and x[1][0] == "attr" and x[1][2] == "get_score" for x in subterms(w))
                if has_red and not fully_reduced(w):
                    bad.append(w)
            ctx.need(n >= 1, f"{dotted}: return shape not recognised")
            if bad:
                ctx.bad(rule, construct, "fresh log density reduced like the old score it is combined with",
                        f"weight = {short(bad[0], ev, 160)} adds an unreduced logpdf (one entry per coordinate of the value) to tr.get_score(), which is already summed over the "
                        "coordinates: for an array-valued choice every entry is new_i − Σ_j old_j, not the density ratio", func_loc(ctx, dotted))
            else:
                ctx.ok(rule, construct, "weight combines terms under the same reduction")


def all_cases_(t):
    from .util import all_cases
    return list(all_cases(t))


def address_glue(ctx, rule="ROLE-address-glue"):
    """The path from `g(*args, **kwargs) @ addr` in a @gen body to the active handler: GFI.__call__ (inside a handler) and GFI.T capture
    exactly (self, args, kwargs) in a Thunk; outside any handler GFI.__call__ returns the return value of simulate on the same arguments;
    Thunk.__matmul__ hands (addr, gen_fn, args, kwargs) to trace(); trace() calls the innermost handler (handler_stack[-1]) on exactly
    those four and returns its result.  A dropped/duplicated/reordered component here changes every @gen model at once."""
    lin = None

    def strip_default(t, pname):
        """`kwargs or {}` / `kwargs if kwargs is not None else {}` / `{} if kwargs is None else kwargs` stand for kwargs."""
        P = ("param", pname)
        if t == P:
            return P
        if t[0] == "boolop" and t[1] == "or" and len(t[2]) == 2 and t[2][0] == P and t[2][1] in (("dict", ()),):
            return P
        if t[0] == "ifexp" and P in (t[2], t[3]) and (("dict", ()) in (t[2], t[3])):
            c = t[1]
            if c == P and t[2] == P:
                return P
            if c[0] == "cmp" and P in c[2:] and NONE in c[2:]:
                if (c[1] in ("is not", "!=") and t[2] == P) or (c[1] in ("is", "==") and t[3] == P):
                    return P
        return t
    # Thunk.__matmul__
    ev = mk_ev(ctx)
    dotted = CORE + "Thunk.__matmul__"
    s = summarize(ctx, ev, dotted)
    lin = mk_lin(ev)
    node, _ = fnode(ctx, dotted)
    ctx.need(len(node.args.args) == 2, f"{dotted}: signature not recognised")
    A = ("param", node.args.args[1].arg)
    want = call(N(CORE + "trace"), A, ("attr", SELF, "gen_fn"), ("attr", SELF, "args"), ("attr", SELF, "kwargs"))
    construct = "core.Thunk.__matmul__"
    got = lin.norm(s.ret) if s.ret is not None else None
    if s.ret is not None and (s.ret == want or got == lin.norm(want)):
        ctx.ok(rule, construct, "trace(addr, self.gen_fn, self.args, self.kwargs)")
    else:
        ctx.bad(rule, construct, "trace(addr, self.gen_fn, self.args, self.kwargs)", f"`thunk @ addr` evaluates {short(s.ret or NONE, ev, 160)}: the call recorded in the thunk "
                "does not reach the handler with its own generative function, positional and keyword arguments", func_loc(ctx, dotted))
    # trace()
    ev = mk_ev(ctx)
    dotted = CORE + "trace"
    s = summarize(ctx, ev, dotted)
    construct = "core.trace"
    node, _ = fnode(ctx, dotted)
    names = [a.arg for a in node.args.args]
    ctx.need(len(names) == 4, f"{dotted}: signature not recognised")
    r = s.ret
    ok = r is not None and is_call(r) and r[1] == ("idx", N(CORE + "handler_stack"), C(-1)) and not r[3] and len(r[2]) == 4 \
        and tuple(r[2][:3]) == tuple(("param", n) for n in names[:3]) and strip_default(r[2][3], names[3]) == ("param", names[3])
    if ok:
        ctx.ok(rule, construct, "handler_stack[-1](addr, gen_fn, args, kwargs or {}) returned")
    else:
        ctx.bad(rule, construct, "innermost handler called on (addr, gen_fn, args, kwargs)", f"trace() evaluates {short(r or NONE, ev, 200)}: the traced call must be interpreted by the "
                "innermost active handler (handler_stack[-1]) with the address, callee and arguments unchanged, and its result returned", func_loc(ctx, dotted))
    # GFI.__call__ and GFI.T
    for meth in ("__call__", "T"):
        ev = mk_ev(ctx)
        dotted = CORE + "GFI." + meth
        s = summarize(ctx, ev, dotted)
        lin = mk_lin(ev)
        construct = f"core.GFI.{meth}"
        ARGS, KW = ("param", "args"), ("param", "kwargs")
        node, _ = fnode(ctx, dotted)
        ctx.need(node.args.vararg is not None and node.args.kwarg is not None, f"{dotted}: signature not recognised")
        ARGS, KW = ("param", node.args.vararg.arg), ("param", node.args.kwarg.arg)
        thunk = lin.norm(call(N(CORE + "Thunk"), SELF, ARGS, KW))
        from .util import all_cases
        bad = []
        HS = N(CORE + "handler_stack")
        for asg, leaf in all_cases(s.ret):
            inside = None
            for c, v in asg.items():
                if c == HS or (is_call(c, name="builtins.len") and c[2] == (HS,)) or (is_call(c, name="builtins.bool") and c[2] == (HS,)):
                    inside = v
                elif c[0] == "cmp" and HS in subterms(c):
                    inside = None if inside is None else inside
            if meth == "T" or inside is True:
                if lin.norm(leaf) != thunk:
                    bad.append(f"inside a handler the call evaluates {short(leaf, ev, 120)}, not Thunk(self, args, kwargs)")
            elif inside is False:
                sim = ("call", ("attr", SELF, "simulate"), (("star", ARGS),), ((None, KW),))
                okr = is_call(leaf) and leaf[1][0] == "attr" and leaf[1][2] == "get_retval" and leaf[1][1] == sim and not leaf[2] and not leaf[3]
                if not okr:
                    bad.append(f"outside any handler the call evaluates {short(leaf, ev, 120)}, not self.simulate(*args, **kwargs).get_retval()")
            else:
                bad.append(f"dispatch on something other than the handler stack being non-empty: {short(s.ret, ev, 120)}")
        if bad:
            ctx.bad(rule, construct, "Thunk(self, args, kwargs) under a handler; simulate(...).get_retval() otherwise", "; ".join(dict.fromkeys(bad)), func_loc(ctx, dotted))
        else:
            ctx.ok(rule, construct, "captures (self, args, kwargs)")


# ====================================================================== Vmap
VMAP_PREFIX = {
    "simulate": ((), ()),
    "generate": ((("param", "x"),), (C(0),)),
    "assess": ((("param", "x"),), (C(0),)),
    "update": ((TR, ("param", "x_")), (C(0), C(0))),
    "regenerate": ((TR, ("param", "s")), (C(0), NONE)),
}


def contract_shortcut(ck, lin, method, asg, leaf):
    """An early return that replaces the generic code of a combinator method by the GFI contract's own identity:
    generate(None, *args, **kwargs) == (simulate(*args, **kwargs), 0)                      [C02: weight 0 for a sub-call left unconstrained]
    regenerate(tr, AllSel(), *args, **kwargs) == (simulate(*args, **kwargs), 0, choices(tr)) [C04: weight 0 when everything is selected]
    It is accepted only on a path whose condition establishes the premise (the constraint *is* None; the selection *is an* AllSel instance —
    `() in s` does not establish it at a combinator: it holds for every complement whose inner selection does not match ()), and only with
    exactly this call's (*args, **kwargs)."""
    it = items(leaf)
    sim = ("call", ("attr", SELF, "simulate"), (("star", ARGS),), ((None, KW),))

    def eta(t):
        # f(args[0], ..., args[k-1], *args[k:]) is f(*args)
        if is_call(t) and t[2] and t[2][-1] == ("star", ("rest", ARGS, len(t[2]) - 1)) and all(a == ("idx", ARGS, C(i)) for i, a in enumerate(t[2][:-1])):
            return ("call", t[1], (("star", ARGS),), t[3])
        return t
    if it is None or not it or eta(lin.norm(it[0])) != sim:
        return False

    def zero(t):
        try:
            return lin.lin(t) == {}
        except Exception:
            return False
    if method == "generate" and len(it) == 2 and zero(it[1]):
        return any(none_test(c, ("param", "x")) is v for c, v in asg.items())
    if method == "regenerate" and len(it) == 3 and zero(it[1]) and lin.norm(it[2]) in (CH(TR), lin.norm(CH(TR))):
        for c, v in asg.items():
            if v and is_call(c, name="builtins.isinstance") and len(c[2]) == 2 and c[2][0] == ("param", "s") and c[2][1][0] == "name" and c[2][1][1].endswith(".AllSel"):
                return True
    return False


def find_lanes(t):
    return [x for x in subterms(t) if x[0] == "lanes"]


def vmap_rule(ctx, method, rule="ALG-Vmap"):
    ev = mk_ev(ctx)
    dotted = CORE + "Vmap." + method
    s = summarize(ctx, ev, dotted)
    lin = mk_lin(ev)
    construct = f"core.Vmap.{method}"
    ck = Checker(ctx, ev, lin, rule, construct, func_loc(ctx, dotted))
    lanes = find_lanes(s.ret)
    vids = sorted({l[1] for l in lanes})
    if len(vids) != 1:
        raise AnalysisError(f"{construct}: expected exactly one vectorised call, found {len(vids)}")
    vid = vids[0]
    rec = ev.vmaps[vid]
    pre, axes = VMAP_PREFIX[method]
    # callee and arguments
    ck.eq("maps the callee's own method", rec["f"], ("attr", ("attr", SELF, "gen_fn"), method))
    exp_args = tuple(pre) + (("star", ARGS),)
    ck.eq("call arguments (prefix, *args)", ("tuple", rec["args"]), ("tuple", exp_args))
    if rec["kwargs"] not in (((None, KW),), ()):
        ck.fail("keyword arguments forwarded", f"found {rec['kwargs']}")
    # in_axes
    inax = rec["in_axes"]
    val = ("attr", ("attr", SELF, "in_axes"), "value")
    if method == "simulate":
        ck.eq("in_axes = self.in_axes.value", inax or NONE, val)
    else:
        # finite-model evaluation of the in_axes term: the callee's in_axes specification ranges over the forms jax.vmap accepts
        # (None, an int, a tuple, a list), the call has two user arguments; the result must be the method's own prefix followed by
        # one entry per user argument
        from ..absint import Model, Unknown, Opq
        a0, a1 = Opq("arg0"), Opq("arg1")
        specs = [(None, (None, None)), (0, (0, 0)), (1, (1, 1)), ((0, None), (0, None)), ([0, None], (0, None)), ((None, 1), (None, 1))]
        prefix = tuple(x[1] if x[0] == "const" else x for x in axes)
        for spec, norm in specs:
            m = Model(evaluator=ev)
            m.bind(val, spec)
            m.bind(ARGS, (a0, a1))
            try:
                got = m.ev(inax if inax is not None else NONE)
            except Unknown as e:
                raise AnalysisError(f"{construct}: in_axes not evaluable for callee in_axes = {spec!r}: {e}")
            except Exception as e:   # the modelled expression itself fails (e.g. tuple + int): the method raises for this in_axes form
                ck.fail(f"in_axes defined for every form jax.vmap accepts (None, int, tuple, list)", f"callee in_axes = {spec!r}: {e}")
                continue
            want = prefix + norm
            if isinstance(got, list):
                got = tuple(got)
            if got != want:
                ck.fail("in_axes = method prefix + one entry per user argument", f"callee in_axes {spec!r} with two arguments gives {got!r}, expected {want!r}")
    for opt in ("axis_size", "axis_name", "spmd_axis_name"):
        got = ev.kwget(rec["opts"], opt)
        want = ("attr", ("attr", SELF, opt), "value")
        if got is None and opt == "axis_size":
            ck.fail("axis_size forwarded", "axis_size not passed to modular_vmap (repeat()/axis-size-only maps would fail)")
        elif got is not None and got != want:
            ck.fail(f"{opt} forwarded", f"expected {short(want, ev)}, found {short(got, ev)}")
    if rec["which"] != "genjax.pjax.modular_vmap":
        ck.fail("uses the probability-aware vmap", f"uses {rec['which']}")
    # results
    body = rec["body"]
    L0 = ("lanes", vid, body)

    def li(i):
        return ("idx", L0, C(i))

    def summed(t, what):
        if not (is_call(t, name="jax.numpy.sum") and len(t[2]) == 1 and t[2][0] == what and not t[3]):
            ck.fail("per-lane weights/densities are summed over all lanes", f"expected jnp.sum({short(what, ev)}), found {short(t, ev)}")

    for asg, leaf in spine_cases(s.ret):
        if method == "simulate":
            ck.eq("returns the vectorised trace", leaf, L0)
            continue
        if contract_shortcut(ck, lin, method, asg, leaf):
            continue
        it = items(leaf)
        n = {"generate": 2, "assess": 2, "update": 3, "regenerate": 3}[method]
        if it is None or len(it) != n:
            ck.fail(f"{method} returns a {n}-tuple", f"found {short(leaf, ev)}")
            continue
        if method == "assess":
            summed(it[0], li(0))
            ck.eq("retval = stacked lane retvals", it[1], li(1))
        else:
            ck.eq("trace = vectorised lane traces", it[0], li(0))
            summed(it[1], li(1))
            if n == 3:
                ck.eq("discard = vectorised lane discards", it[2], li(2))
    ck.done()
    return ev, rec


def vmap_narrow(ctx, rule="NARROW-in_axes"):
    """Vmap.in_axes is declared int | tuple | Sequence | None (GFI.vmap defaults to 0): `(0,…) + in_axes` must be
    dominated by a normalisation of the non-tuple alternatives.  Decided on the symbolic in_axes term handed to modular_vmap."""
    kind, cls, mod, _ = ctx.p.get_class(CORE + "Vmap")
    ann = None
    for st in cls.body:
        if isinstance(st, ast.AnnAssign) and isinstance(st.target, ast.Name) and st.target.id == "in_axes":
            ann = ast.unparse(st.annotation)
    ctx.need(ann is not None, "anchor vanished: Vmap.in_axes field")
    declares_int = "int" in ann.replace("tuple[int", "")
    gv = ctx.p.get_function(CORE + "GFI.vmap")[1]
    default_int = any(isinstance(d, ast.Constant) and isinstance(d.value, int) and not isinstance(d.value, bool) for d in gv.args.defaults)
    val = ("attr", ("attr", SELF, "in_axes"), "value")
    n = 0
    for method in ("generate", "assess", "update", "regenerate"):
        ev = mk_ev(ctx)
        dotted = CORE + "Vmap." + method
        s = summarize(ctx, ev, dotted)
        lanes = find_lanes(s.ret)
        if not lanes:
            raise AnalysisError(f"core.Vmap.{method}: vectorised call not found")
        inax = ev.vmaps[lanes[0][1]]["in_axes"] or NONE
        construct = f"core.Vmap.{method}"
        raw = False
        for asg, leaf in all_cases(inax):
            pol = None
            for c, v in asg.items():
                rr = none_test(c, val)
                if rr is not None:
                    pol = (rr == v)
            if pol is False or pol is None:
                # the non-None case: tuple + raw declared-union value?
                for x in subterms(leaf):
                    if x[0] == "binop" and x[1] == "+" and x[2][0] == "tuple" and x[3] == val:
                        raw = True
        n += 1
        if raw and (declares_int or default_int):
            ctx.bad(rule, construct, "tuple + self.in_axes.value without int/list normalisation",
                    "in_axes may be an int (GFI.vmap default 0) or a list; `(0, …) + self.in_axes.value` raises TypeError for them", func_loc(ctx, dotted))
        else:
            ctx.ok(rule, construct)
    ctx.need(n == 4, "NARROW-in_axes: Vmap methods not analysed")


def vmap_kwargs_sig(ctx, rule="SIG-kwargs"):
    """A call that passes **kwargs to the function returned by modular_vmap: that function must accept them."""
    ev = mk_ev(ctx)
    s = summarize(ctx, ev, "genjax.pjax.modular_vmap")
    ret = s.ret
    ctx.need(ret[0] == "closure" or (is_call(ret) and any(a[0] == "closure" for a in ret[2])), "pjax.modular_vmap: returned callable not recognised")
    clo = ret if ret[0] == "closure" else [a for a in ret[2] if a[0] == "closure"][0]
    node = ev.closures[clo[1]].node
    accepts_kw = node.args.kwarg is not None
    # decided on the evaluator's vectorisation records (helper extraction does not matter): for each GFI method of Vmap, the call of the
    # function returned by modular_vmap that passes **kwargs on
    n = 0
    for method in ("simulate", "generate", "assess", "update", "regenerate"):
        ev2 = mk_ev(ctx)
        dotted = CORE + "Vmap." + method
        s2 = summarize(ctx, ev2, dotted)
        construct = f"core.Vmap.{method}"
        recs = [r for r in ev2.vmaps.values() if r.get("which", "").endswith("modular_vmap")]
        fw = [r for r in recs if any(k is None for k, _ in r.get("kwargs", ()))]
        if not fw:
            continue
        n += 1
        if accepts_kw:
            ctx.ok(rule, construct)
        else:
            ctx.bad(rule, construct, "modular_vmap(...)(..., **kwargs)",
                    "pjax.modular_vmap.wrapped accepts positional arguments only: any keyword argument through Vmap raises TypeError", func_loc(ctx, dotted))
    ctx.need(n >= 5 or accepts_kw, f"SIG-kwargs: only {n} Vmap methods forwarding **kwargs to the vectorised callee found (floor 5)")
    if accepts_kw:
        # what happens to them: jax.vmap maps keyword arguments along their leading axis; the function returned by modular_vmap must hand them to
        # the interpreter as mapped operands (axis 0) and give them back to f by name - evaluated on a finite model, for three axis specifications
        from ..absint import Model, Opq, Unknown
        A, KW = ("param", "a_"), ("param", "kw_")
        body = ev.apply_closure(clo, (("star", A),), ((None, KW),))
        evals = [x for x in subterms(body or NONE) if is_call(x) and x[1][0] == "attr" and x[1][2] == "eval"]
        wrapped_events = list(ev.last_closure_summary.events)
        construct = "pjax.modular_vmap.wrapped (keyword arguments)"
        problems = []
        for ia, want_axes in ((0, (0, 0, 0)), (None, (None, None, 0)), ((0, None), (0, None, 0))):
            m = Model(evaluator=ev)
            m.bind(A, ("A", "B"))
            m.bind(KW, {"k": "K"})
            m.bind(("param", "in_axes"), ia)
            m.bind(("param", "f"), Opq("f"))
            live = []
            try:
                for g_, k_, pl_, ln_, q_ in wrapped_events:
                    if k_ == "call" and pl_ in evals and m.live(g_):
                        live.append(pl_)
                if len(live) != 1:
                    problems.append(f"[in_axes={ia!r}] {len(live)} interpreter runs on the keyword path")
                    continue
                args_, kwargs_ = m.args_of(live[0])
            except Unknown as e:
                raise AnalysisError(f"{construct}: cannot evaluate [in_axes={ia!r}]: {e}")
            axes, fn, ops = args_[0], args_[4] if len(args_) > 4 else None, tuple(args_[5:])
            if not (isinstance(axes, (tuple, list)) and tuple(axes) == want_axes and ops == ("A", "B", {"k": "K"})):
                problems.append(f"[in_axes={ia!r}] the interpreter is run with axes {axes!r} on {ops!r}; expected {want_axes!r} on ('A', 'B', {{'k': 'K'}}) (keywords mapped along axis 0, as jax.vmap does)")
                continue
            try:
                r = m.apply_value(fn, ["a", "b", {"k": "kk"}])
            except Unknown as e:
                raise AnalysisError(f"{construct}: cannot apply the wrapped function: {e}")
            if r != Opq("call", Opq("f"), ("a", "b"), (("k", "kk"),)):
                problems.append(f"[in_axes={ia!r}] the mapped function calls {r!r}, not f(a, b, k=kk)")
        if problems:
            ctx.bad(rule, construct, "keyword arguments mapped along axis 0 and passed back by name", "; ".join(dict.fromkeys(problems)), func_loc(ctx, "genjax.pjax.modular_vmap"))
        else:
            ctx.ok(rule, construct, "keywords travel as one mapped dictionary (axis 0) and reach f by name")


# ====================================================================== Scan
def scan_rule(ctx, method, rule="ALG-Scan"):
    ev = mk_ev(ctx)
    dotted = CORE + "Scan." + method
    s = summarize(ctx, ev, dotted)
    lin = mk_lin(ev)
    construct = f"core.Scan.{method}"
    ck = Checker(ctx, ev, lin, rule, construct, func_loc(ctx, dotted))
    sids = sorted({x[1] for x in subterms(s.ret) if x[0] in ("scan", "scan_final", "stack")})
    if len(sids) != 1:
        raise AnalysisError(f"{construct}: expected exactly one scan, found {len(sids)}")
    sid = sids[0]
    rec = ev.scans[sid]
    A0, A1 = ("idx", ARGS, C(0)), ("idx", ARGS, C(1))
    carry = ("scan_carry", sid, None)
    X, X_, SEL = ("param", "x"), ("param", "x_"), ("param", "s")
    traces = ("attr", TR, "traces")

    def el(t):
        return ("elem", sid, t)

    ck.eq("initial carry = args[0]", rec["init"], A0)
    ln = ev.kwget(rec["kwargs"], "length")
    if ln is None:
        ck.fail("scan length = self.length.value", "no length= passed (an xs-free / empty scan would be ill-defined)")
    else:
        ck.eq("scan length = self.length.value", ln, ("attr", ("attr", SELF, "length"), "value"))
    if ev.kwget(rec["kwargs"], "reverse") not in (None, C(False)):
        ck.fail("scan runs forward", "reverse= set")
    prefix = {"simulate": (), "generate": (el(X),), "assess": (el(X),), "update": (el(traces), None), "regenerate": (el(traces), SEL)}[method]
    body = lin.norm(rec["body"])
    # locate the callee call inside the body
    calls = [x for x in subterms(body) if is_call(x) and x[1] == ("attr", ("attr", SELF, "callee"), method)]
    calls = list(dict.fromkeys(calls))
    if len(calls) != 1:
        ck.fail("one callee call per step", f"found {len(calls)} distinct self.callee.{method}(...) calls")
        ck.done()
        return
    cc = calls[0]
    want_tail = (carry, el(A1))
    got_args = cc[2]
    if len(got_args) != len(prefix) + 2:
        ck.fail("callee arguments (prefix, carry, x_i)", f"found {short(('tuple', got_args), ev)}")
    else:
        for i, p in enumerate(prefix):
            if p is None:  # update's per-step constraint: elem(x_) (None-transparent)
                g = got_args[i]
                ok = g == el(X_) or (g[0] == "ifexp" and set([g[2], g[3]]) <= {el(X_), NONE} and el(X_) in (g[2], g[3]))
                if not ok:
                    ck.fail("per-step constraint = slice of x_", f"found {short(g, ev)}")
            else:
                ck.eq(f"callee argument {i}", got_args[i], p)
        ck.eq("callee receives this step's carry", got_args[len(prefix)], carry)
        ck.eq("callee receives this step's slice of args[1]", got_args[len(prefix) + 1], el(A1))
    if cc[3] != ((None, KW),):
        ck.fail("keyword arguments forwarded to the step function", f"found {short(('dict', tuple((C(k), v) for k, v in cc[3])), ev) if cc[3] else 'none'}")
    # carry threading / outputs
    if method == "assess":
        newc, out, dens = ("idx", ("idx", cc, C(1)), C(0)), ("idx", ("idx", cc, C(1)), C(1)), ("idx", cc, C(0))
        ck.eq("next carry = retval[0] of this step", lin.norm(rec["carry_out"]), newc)
        ys = lin.norm(rec["ys"])
        want_ret = ("tuple", (call(N("jax.numpy.sum"), ("stack", sid, dens)), ("tuple", (("scan_final", sid), ("stack", sid, out)))))
        for asg, leaf in spine_cases(s.ret):
            ck.eq("returns (sum of step densities, (final carry, stacked outputs))", leaf, want_ret)
    else:
        sub_tr = cc if method == "simulate" else ("idx", cc, C(0))
        newc, out = ("idx", RV(sub_tr), C(0)), ("idx", RV(sub_tr), C(1))
        ck.eq("next carry = retval[0] of this step's trace", lin.norm(rec["carry_out"]), newc)
        want_tr = call(N(CORE + "ScanTr"), SELF, ("tuple", (ARGS, KW)), ("stack", sid, sub_tr), ("scan_final", sid), ("stack", sid, out))
        for asg, leaf in spine_cases(s.ret):
            if method == "simulate":
                ck.eq("returns ScanTr(self, (args, kwargs), stacked traces, final carry, stacked outputs)", leaf, want_tr)
                continue
            if contract_shortcut(ck, lin, method, asg, leaf):
                continue
            it = items(leaf)
            n = 2 if method == "generate" else 3
            if it is None or len(it) != n:
                ck.fail(f"{method} returns a {n}-tuple", f"found {short(leaf, ev)}")
                continue
            ck.eq("trace = ScanTr(self, (args, kwargs), stacked traces, final carry, stacked outputs)", it[0], want_tr)
            ck.eq("weight = jnp.sum(per-step weights)", it[1], call(N("jax.numpy.sum"), ("stack", sid, ("idx", cc, C(1)))))
            if n == 3:
                d = lin.norm(it[2])
                want_d = ("stack", sid, ("idx", cc, C(2)))
                # `stacked if <any discards> else None` is value-correct when present; its definedness is the
                # business of KIND-pytree-reduce, not of this rule
                if d != want_d and not (d[0] == "ifexp" and d[2] == want_d and is_const(d[3], None)):
                    ck.fail("discard = stacked per-step discards", f"found {short(d, ev)}")
    # xs composition
    xs = lin.norm(rec["xs"])
    want_xs = {"simulate": A1, "generate": ("tuple", (A1, X)), "assess": ("tuple", (A1, X)),
               "update": None, "regenerate": ("tuple", (A1, traces))}[method]
    if want_xs is not None:
        got_elems = {x for x in subterms(body) if x[0] == "elem"}
    ck.done()
    ctx.sample({"rule": rule, "construct": construct, "step": short(cc, ev, 200)})


def scan_regenerate_defined(ctx, rule="KIND-pytree-reduce"):
    """jnp.any/all/sum/where applied directly to a jtu.tree_map result (a pytree, possibly a dict or None), and a
    Python conditional on the (traced) result."""
    kind, node, mod, owner = ctx.p.get_function(CORE + "Scan.regenerate")
    ctx.fn(CORE + "Scan.regenerate")
    found = False
    for c in ast.walk(node):
        if isinstance(c, ast.Call) and ast.unparse(c.func) in ("jnp.any", "jnp.all") and c.args:
            a = c.args[0]
            if isinstance(a, ast.Call) and ast.unparse(a.func) in ("jtu.tree_map", "jax.tree_util.tree_map", "jax.tree.map"):
                found = True
                ctx.bad(rule, "core.Scan.regenerate", "jnp.any(jtu.tree_map(...)) over discards",
                        "array reduction applied to a pytree (dict for @gen callees, None for unselected leaves) raises TypeError; "
                        "its traced result then drives a Python conditional", ctx.loc(mod, c))
    if not found:
        ctx.ok(rule, "core.Scan.regenerate", "no array reduction over a pytree")


# ====================================================================== Cond / CondTr
def cond_ev(ctx):
    ev = mk_ev(ctx)
    ev.known_len_fields = {"trs": 2}
    return ev


CHECK = ("idx", ARGS, C(0))
REST = ("rest", ARGS, 1)


def cond_sub(which, method, *pre):
    return ("call", ("attr", ("attr", SELF, which), method), tuple(pre) + (("star", REST),), ((None, KW),))


def where(c, a, b):
    return call(N("jax.numpy.where"), c, a, b)


def is_where(t):
    return is_call(t) and t[1][0] == "name" and t[1][1] in ("jax.numpy.where", "jax.lax.select") and len(t[2]) == 3


def cond_tr(check, a, b):
    return call(N(CORE + "CondTr"), SELF, check, ("list", (a, b)))


def cond_rule(ctx, method, rule="ALG-Cond"):
    ev = cond_ev(ctx)
    dotted = CORE + "Cond." + method
    s = summarize(ctx, ev, dotted)
    lin = mk_lin(ev)
    construct = f"core.Cond.{method}"
    ck = Checker(ctx, ev, lin, rule, construct, func_loc(ctx, dotted))
    X, SEL = ("param", "x"), ("param", "s")
    t0, t1 = ("idx", ("attr", TR, "trs"), C(0)), ("idx", ("attr", TR, "trs"), C(1))

    def sel_by_check(t, a, b, what):
        t = lin.norm(t)
        if not is_where(t):
            ck.fail(what, f"expected a where/select on the new condition, found {short(t, ev)}")
            return
        ck.eq(what + " (condition)", t[2][0], CHECK)
        ck.eq(what + " (true arm = first branch)", t[2][1], a)
        ck.eq(what + " (false arm = second branch)", t[2][2], b)

    if method == "simulate":
        a, b = cond_sub("callee", "simulate"), cond_sub("callee_", "simulate")
        for asg, leaf in spine_cases(s.ret):
            ck.eq("CondTr(self, check, [callee trace, callee_ trace])", leaf, cond_tr(CHECK, a, b))
    elif method == "assess":
        a, b = cond_sub("callee", "assess", X), cond_sub("callee_", "assess", X)
        for asg, leaf in spine_cases(s.ret):
            it = items(leaf)
            if it is None or len(it) != 2:
                ck.fail("assess returns (density, retval)", f"found {short(leaf, ev)}")
                continue
            sel_by_check(it[0], ("idx", a, C(0)), ("idx", b, C(0)), "density selected by the condition")
            sel_by_check(it[1], ("idx", a, C(1)), ("idx", b, C(1)), "retval selected by the condition")
    elif method == "generate":
        saw = set()
        for asg, leaf in spine_cases(s.ret):
            pol = None
            for c, v in asg.items():
                rr = none_test(c, X)
                if rr is None:
                    raise AnalysisError(f"{construct}: unrecognised branch condition {short(c, ev)}")
                pol = (rr == v)
            it = items(leaf)
            if it is None or len(it) != 2:
                ck.fail("generate returns (trace, weight)", f"found {short(leaf, ev)}")
                continue
            saw.add(pol)
            if pol and contract_shortcut(ck, lin, method, asg, leaf):
                continue
            if pol:
                a, b = cond_sub("callee", "simulate"), cond_sub("callee_", "simulate")
                alt_a, alt_b = cond_sub("callee", "generate", NONE), cond_sub("callee_", "generate", NONE)
                got = lin.norm(it[0])
                if got != cond_tr(CHECK, a, b) and got != cond_tr(CHECK, ("idx", alt_a, C(0)), ("idx", alt_b, C(0))):
                    ck.fail("generate(None): both branches simulated", f"found {short(got, ev)}")
                ck.lineq("generate(None) weight = 0", it[1], C(0))
            else:
                a, b = cond_sub("callee", "generate", X), cond_sub("callee_", "generate", X)
                ck.eq("trace = CondTr(self, check, [branch traces])", it[0], cond_tr(CHECK, ("idx", a, C(0)), ("idx", b, C(0))))
                sel_by_check(it[1], ("idx", a, C(1)), ("idx", b, C(1)), "weight selected by the condition")
        if saw != {True, False} and saw != {None}:
            ck.fail("generate handles None and constraints", f"cases: {saw}")
    else:
        second = X if method == "update" else SEL
        if method == "update":
            # the constraint handed to the two branch updates (must be one and the same term); what it has to be is decided below
            ups = [x for x in subterms(s.ret) if is_call(x) and x[1] in (("attr", ("attr", SELF, "callee"), "update"), ("attr", ("attr", SELF, "callee_"), "update")) and len(x[2]) >= 2]
            seconds = list(dict.fromkeys(x[2][1] for x in ups))
            if len(seconds) == 1:
                second = seconds[0]
            elif len(seconds) > 1:
                ck.fail("both branch updates receive the same constraint", f"found {[short(y, ev, 60) for y in seconds]}")
            cond_update_constraint(ctx, ev, lin, second, func_loc(ctx, dotted))
        if method == "regenerate":
            t0, t1 = cond_regenerate_synced(ctx, ev, lin, s.ret, t0, t1, func_loc(ctx, dotted))
        a, b = cond_sub("callee", method, t0, second), cond_sub("callee_", method, t1, second)
        for asg, leaf in spine_cases(s.ret):
            it = items(leaf)
            if it is None or len(it) != 3:
                ck.fail(f"{method} returns (trace, weight, discard)", f"found {short(leaf, ev)}")
                continue
            ck.eq("trace = CondTr(self, new check, [updated branch traces from the matching old branch traces])",
                  it[0], cond_tr(CHECK, ("idx", a, C(0)), ("idx", b, C(0))))
    ck.done()
    return ev, s, lin


def cond_update_constraint(ctx, ev, lin, second, loc, rule="ALG-Cond"):
    """Cond.update keeps unconstrained choices: the two branch traces hold different values at shared addresses (one visible, one hidden),
    and a branch update falls back to its *own* old value wherever the constraint is silent.  On a branch switch that fallback is the
    hidden value.  So the constraint handed to both branch updates must be the caller's constraint completed with the choices that were
    visible in the old trace: CHOICES(tr) when x is None; merge(CHOICES(tr), x)[0] (x second: it wins) when x is a - possibly partial -
    choice dictionary; x itself only when x is a raw value (which cannot be partial)."""
    from .util import all_cases
    construct = "core.Cond.update (constraint completion)"
    X = ("param", "x")
    OLD = CH(TR)
    none_tests = {("cmp", "is", X, NONE): True, ("cmp", "is not", X, NONE): False, ("cmp", "==", X, NONE): True, ("cmp", "!=", X, NONE): False}

    def is_merge(t, first, snd):
        t = lin.norm(t)
        return t[0] == "idx" and is_const(t[2], 0) and is_call(t[1]) and t[1][1][0] == "attr" and t[1][1][2] == "merge" \
            and t[1][1][1] in (("attr", SELF, "callee"), ("attr", SELF, "callee_"), SELF) and len(t[1][2]) == 2 and lin.norm(t[1][2][0]) == lin.norm(first) and t[1][2][1] in snd
    problems = []
    for asg, leaf in all_cases(second):
        is_none = None
        is_dict = None
        for c, v in asg.items():
            if c in none_tests:
                is_none = (none_tests[c] == v)
            if is_call(c, name="builtins.isinstance") and len(c[2]) == 2 and c[2][0] == X:
                is_dict = v
        nl = lin.norm(leaf)
        if is_none is True:
            ok = nl == lin.norm(OLD) or is_merge(leaf, OLD, (("dict", ()), NONE))
            want = "the old visible choices"
        elif is_dict is False:
            ok = leaf == X
            want = "x (a raw value cannot be partial)"
        else:
            ok = is_merge(leaf, OLD, (X,))
            want = "merge(old visible choices, x)[0] (x wins)"
        if not ok:
            when = "x is None" if is_none else ("x is not a dict" if is_dict is False else "x is a (possibly partial) choice dictionary")
            problems.append(f"[{when}] both branches are updated with {short(leaf, ev, 100)}; expected {want}")
    if problems:
        ctx.bad(rule, construct, "constraint completed with the old visible choices before both branch updates",
                "; ".join(dict.fromkeys(problems)) + ": each branch falls back to its own old value where the constraint is silent, so after a branch switch an unconstrained "
                "address shows the newly selected branch's hidden value instead of keeping the visible one (update must keep unconstrained choices); input: "
                "model.update(tr, {'z': ~z, 'y': {'a': 0.3}}) with y = Cond(br_a, br_b)(z) having addresses a, b", loc)
    else:
        ctx.ok(rule, construct, "both branches are updated with the constraint completed by the old visible choices")


def regenerated_branch_traces(ret):
    """(first argument of self.callee.regenerate, first argument of self.callee_.regenerate) as the code has them"""
    out = []
    for attr in ("callee", "callee_"):
        cs = list(dict.fromkeys(x[2][0] for x in subterms(ret) if is_call(x) and x[1] == ("attr", ("attr", SELF, attr), "regenerate") and x[2]))
        out.append(cs[0] if len(cs) == 1 else None)
    return out


def cond_regenerate_synced(ctx, ev, lin, ret, t0, t1, loc, rule="ALG-Cond"):
    """Cond.regenerate keeps unselected choices: the two branch traces hold different values at shared addresses (one visible, one hidden)
    and a branch regenerate keeps its *own* old value wherever the selection is silent; on a branch switch that is the hidden value.
    So the trace each branch regenerates from must be that branch's old trace brought to the choices visible in the old trace, under the
    old arguments: callee_i.update(tr.trs[i], CHOICES(tr), *old rest args, **old kwargs)[0] (a no-op for the branch that was visible)."""
    construct = "core.Cond.regenerate (visible choices)"
    got = regenerated_branch_traces(ret)
    if got[0] is None or got[1] is None:
        ctx.bad(rule, construct, "both branch traces regenerated once", "regenerate calls on the two branches not found", loc)
        return t0, t1
    OLDARGS = ("call", ("attr", TR, "get_args"), (), ())
    problems = []
    for i, (g, attr, told) in enumerate(zip(got, ("callee", "callee_"), (t0, t1))):
        n = lin.norm(g)
        ok = n[0] == "idx" and is_const(n[2], 0) and is_call(n[1]) and n[1][1] == ("attr", ("attr", SELF, attr), "update") and len(n[1][2]) >= 2 \
            and n[1][2][0] == told and lin.norm(n[1][2][1]) == lin.norm(CH(TR))
        if ok:
            rest = n[1][2][2:]
            kws = n[1][3]
            ok = rest == (("star", ("rest", ("idx", OLDARGS, C(0)), 1)),) or rest == (("star", ("idx", ("idx", OLDARGS, C(0)), ("slice", C(1), NONE, NONE))),)
            ok = ok and tuple(kws) == ((None, ("idx", OLDARGS, C(1))),)
            if not ok:
                problems.append(f"branch {i} is brought to the visible choices under {short(('tuple', rest), ev, 80)} {short(('dict', tuple((C(k), v) for k, v in kws if k)), ev, 40)}, not under the old trace's own arguments")
        else:
            problems.append(f"branch {i} regenerates from {short(g, ev, 100)}")
    if problems:
        ctx.bad(rule, construct, "each branch regenerates from its old trace brought to the visible choices",
                "; ".join(problems) + ": a branch trace keeps its own old value at unselected addresses, so when the move switches the branch (a resampled mixture indicator) the "
                "unselected choices of the Cond show the newly selected branch's hidden values instead of staying bit-identical; input: model.regenerate(tr, sel('z')) with "
                "y = Cond(br_a, br_b)(z): y.b changes when z flips", loc)
        return t0, t1
    ctx.ok(rule, construct, "both branches regenerate from traces holding the visible choices")
    return got[0], got[1]


def ih_weight_axiom(x):
    """Induction hypothesis for callee edits: weight(g.update(t, ...)) ≡ score(t) − score(new trace)."""
    if x[0] == "idx" and is_const(x[2], 1) and is_call(x[1]) and x[1][1][0] == "attr" and x[1][1][2] in ("update",):
        u = x[1]
        old = u[2][0]
        return ("binop", "-", SC(old), SC(("idx", u, C(0))))
    return None


def condtr_score_axiom(x):
    """score(CondTr-typed parameter tr) = where(tr.check, score(trs[0]), score(trs[1]))  (CondTr.get_score, checked by cond_trace_rules)."""
    if is_call(x, name="SCORE") and x[2][0] == TR:
        return where(("attr", TR, "check"), SC(("idx", ("attr", TR, "trs"), C(0))), SC(("idx", ("attr", TR, "trs"), C(1))))
    return None


def cond_update_telescopes(ctx, rule="ALG-telescope"):
    """weight + score(new CondTr) − score(old CondTr) ≡ 0 given the induction hypothesis on both branches."""
    ev = cond_ev(ctx)
    dotted = CORE + "Cond.update"
    s = summarize(ctx, ev, dotted)
    lin = mk_lin(ev, extra=[ih_weight_axiom, condtr_score_axiom])
    construct = "core.Cond.update"
    for asg, leaf in spine_cases(s.ret):
        it = items(leaf)
        if it is None or len(it) != 3:
            raise AnalysisError(f"{construct}: shape not recognised")
        new_score = ("call", ("attr", it[0], "get_score"), (), ())
        new_score = ev.simplify_call(new_score, None, None) or new_score
        total = ("binop", "-", ("binop", "+", it[1], new_score), SC(TR))
        bad_cases = [(a2, lf) for a2, lf in lin.cases(total) if lf]
        if not bad_cases:
            ctx.ok(rule, construct, "weight + S(new) − S(old) ≡ 0 in every case of (new check, old check)")
        for a2, lf in bad_cases:
            when = ", ".join(f"{k}={v}" for k, v in sorted(a2.items()))
            ctx.bad(rule, construct, f"[{when}] residual {fmt_lf(lf)}",
                    f"weights do not telescope through Cond.update when {when}: weight + S(new) − S(old) = {fmt_lf(lf)} "
                    "(the weight is selected by the new condition only; the old condition tr.check is ignored)", func_loc(ctx, dotted))
        ctx.sample({"rule": rule, "construct": construct, "weight": short(lin.norm(it[1]), ev, 300)})


def cond_discard_depends_on_old_check(ctx, method, rule="DEP-old-check"):
    """The discard of a Cond edit must be chosen by the condition under which the old values were visible."""
    ev = cond_ev(ctx)
    dotted = CORE + "Cond." + method
    s = summarize(ctx, ev, dotted)
    construct = f"core.Cond.{method}"
    old_check = ("attr", TR, "check")
    for asg, leaf in spine_cases(s.ret):
        it = items(leaf)
        if it is None or len(it) != 3:
            raise AnalysisError(f"{construct}: shape not recognised")
        d = it[2]
        # cases where one branch has nothing to discard are fine (the other branch's discard is the only candidate)
        d0 = [x for x in subterms(d) if x[0] == "idx" and is_const(x[2], 2) and is_call(x[1]) and x[1][1] == ("attr", ("attr", SELF, "callee"), method)]
        d1 = [x for x in subterms(d) if x[0] == "idx" and is_const(x[2], 2) and is_call(x[1]) and x[1][1] == ("attr", ("attr", SELF, "callee_"), method)]
        if not (d0 and d1):
            continue
        if mentions(d, old_check):
            ctx.ok(rule, construct, "discard arms selected by the old trace's condition")
        elif mentions(d, CHECK):
            ctx.bad(rule, construct, "discard selected by the new condition",
                    f"discard = {short(d, ev, 200)}: selected by the NEW condition; the discarded values are those visible under the old "
                    "trace's condition (tr.check)", func_loc(ctx, dotted))
            return
        else:
            ctx.bad(rule, construct, "discard merges both branches without a condition",
                    f"discard = {short(d, ev, 200)}: merged without any condition, so on shared addresses the second branch's old value is returned "
                    "whichever branch was visible in the old trace", func_loc(ctx, dotted))
            return
    if not any(r["rule"] == rule and r["construct"] == construct for r in ctx.records):
        ctx.ok(rule, construct, "no unconditional two-branch discard merge")


def cond_trace_rules(ctx, rule="ROLE-CondTr"):
    ev = cond_ev(ctx)
    lin = mk_lin(ev)
    T0, T1 = ("idx", ("attr", SELF, "trs"), C(0)), ("idx", ("attr", SELF, "trs"), C(1))
    CK = ("attr", SELF, "check")
    # get_score / get_retval
    for m, f in (("get_score", SC), ("get_retval", RV)):
        dotted = CORE + "CondTr." + m
        s = summarize(ctx, ev, dotted)
        ck = Checker(ctx, ev, lin, rule, f"core.CondTr.{m}", func_loc(ctx, dotted))
        def stacked_guard(asg_):
            # a path taken only when the trace is stacked (jnp.ndim / jnp.shape of the condition is non-trivial)
            return any(v is True and is_call(c) and c[1][0] == "name" and c[1][1] in ("jax.numpy.ndim", "jax.numpy.shape", "numpy.ndim", "numpy.shape")
                       and c[2] == (CK,) for c, v in asg_.items())
        cases = list(spine_cases(s.ret))
        for asg, leaf in cases:
            if stacked_guard(asg):
                continue
            ck.eq(f"{m} = where(check, branch0, branch1)", leaf, where(CK, f(T0), f(T1)))
        ck.done()
        if m == "get_score":
            # stacking clause: every Trace is a Pytree that Vmap / Scan stack along a leading axis (Vmap.simulate returns the callee's trace
            # type with batched fields), and get_score of a stacked trace must be the sum over instances of the per-instance score.
            # Tr and ScanTr reduce last (jnp.sum over everything); a select on the per-instance condition whose arms are already
            # fully reduced sums each branch over *all* instances first and selects afterwards.
            bad = []
            for asg, leaf in cases:
                for x in subterms(leaf):
                    if is_call(x) and x[1][0] == "name" and x[1][1] in ("jax.numpy.where", "jax.lax.select") and len(x[2]) == 3 \
                            and any(y == CK for y in subterms(x[2][0])) and (fully_reduced(x[2][1]) or fully_reduced(x[2][2])):
                        bad.append(x)
            construct = "core.CondTr.get_score [trace stacked by Vmap/Scan]"
            if bad:
                ctx.bad("ROLE-stacked-score", construct, "select per instance, then reduce",
                        f"{short(bad[0], ev, 140)}: under Vmap (or Scan) directly over a Cond the condition has one entry per instance while each arm is the branch score "
                        "already summed over all instances, so the trace's score is a vector of cross-instance sums instead of Σ_i where(check_i, s0_i, s1_i) "
                        "(score ≠ −assess for the vectorised trace)", func_loc(ctx, dotted))
            else:
                ctx.ok("ROLE-stacked-score", construct, "no select over already reduced branch scores")
    for m in ("get_choices", "get_fixed_choices"):
        dotted = CORE + "CondTr." + m
        s = summarize(ctx, ev, dotted)
        ck = Checker(ctx, ev, lin, rule, f"core.CondTr.{m}", func_loc(ctx, dotted))
        for asg, leaf in spine_cases(s.ret):
            t = lin.norm(leaf)
            ok = t[0] == "idx" and is_const(t[2], 0) and is_call(t[1]) and t[1][1] == ("attr", ("attr", SELF, "gen_fn"), "merge")
            if not ok:
                ck.fail("choices = merge(branch0 choices, branch1 choices, check)[0]", f"found {short(t, ev)}")
                continue
            a = t[1][2]
            if len(a) != 3:
                ck.fail("merge receives the condition", f"found {short(t, ev)}")
                continue
            want = (CH(T0), CH(T1)) if m == "get_choices" else (("call", ("attr", T0, "get_fixed_choices"), (), ()), ("call", ("attr", T1, "get_fixed_choices"), (), ()))
            ck.eq("first (true-arm) operand = branch 0 choices", a[0], want[0])
            ck.eq("second (false-arm) operand = branch 1 choices", a[1], want[1])
            ck.eq("third operand = the trace's condition", a[2], CK)
        ck.done()
    # every CondTr construction site passes two branch traces (justifies known_len trs = 2): a literal list must have
    # 2 elements; a computed one is accepted only inside class Cond, where ALG-Cond compares the constructed term
    n = 0
    kind, ccls, cmod, _ = ctx.p.get_class(CORE + "Cond")
    inside = {id(x) for x in ast.walk(ccls)}
    for mn, m in ctx.p.modules.items():
        for node in ast.walk(m.tree):
            if isinstance(node, ast.Call) and isinstance(node.func, ast.Name) and node.func.id == "CondTr":
                n += 1
                third = node.args[2] if len(node.args) == 3 else next((k.value for k in node.keywords if k.arg == "trs"), None)
                if isinstance(third, ast.List):
                    if len(third.elts) != 2:
                        ctx.bad(rule, "core.CondTr(...)", "two-branch literal", "CondTr constructed with a branch list that does not have 2 elements", ctx.loc(m, node))
                elif third is None or id(node) not in inside:
                    ctx.bad(rule, "core.CondTr(...)", "two-branch list", "CondTr constructed outside Cond with a computed branch list", ctx.loc(m, node))
    ctx.need(n >= 4, f"CondTr construction sites: {n} (floor 4)")
    ctx.ok(rule, "core.CondTr(...) sites", f"{n} construction sites with 2 branch traces")


def merge_polarity(ctx, rule="ROLE-merge-polarity"):
    """merge(x, x_, check) selects x where check is True and x_ where False (Distribution.merge; Fn.merge leaves are
    decided by the guarded-store table TABLE-Fn.merge)."""
    ev = mk_ev(ctx)
    lin = mk_lin(ev)
    s = summarize(ctx, ev, CORE + "Distribution.merge")
    ck = Checker(ctx, ev, lin, rule, "core.Distribution.merge", func_loc(ctx, CORE + "Distribution.merge"))
    X, X_, CKP = ("param", "x"), ("param", "x_"), ("param", "check")
    saw = set()
    for asg, leaf in all_cases(s.ret):
        pol = None
        for c, v in asg.items():
            rr = none_test(c, CKP)
            if rr is not None:
                pol = (rr == v)
        if pol is None:
            continue
        saw.add(pol)
        if pol:
            if leaf[0] != "raise":
                ck.fail("merge without a check is refused for raw values", f"found {short(leaf, ev, 120)}")
            continue
        it = items(leaf)
        if not it or len(it) != 2:
            ck.fail("returns (merged, None)", f"found {short(leaf, ev, 120)}")
            continue
        m = it[0]
        if m[0] == "treemap" and is_where(m[2]) and m[2][2] == (CKP, ("leaf", m[1], X), ("leaf", m[1], X_)):
            pass
        else:
            ck.fail("leafwise where(check, x, x_)", f"found {short(m, ev, 160)}")
        if not is_const(it[1], None):
            ck.fail("conditional merge discards nothing", f"found {short(it[1], ev)}")
    if False not in saw:
        ck.fail("conditional merge present", "no check-given case found")
    ck.done()
    from . import tables
    tables.fn_merge_table(ctx)


def ih_regen_axiom(x):
    """Induction hypothesis for a callee regenerate R = g.regenerate(t, s, ...):
    weight(R) ≡ score(t) − score(new trace) + CORR(R)   (CORR = fresh-choice correction of that call)."""
    if x[0] == "idx" and is_const(x[2], 1) and is_call(x[1]) and x[1][1][0] == "attr" and x[1][1][2] == "regenerate":
        u = x[1]
        old = u[2][0]
        return ("binop", "+", ("binop", "-", SC(old), SC(("idx", u, C(0)))), call(N("CORR"), u))
    return None


def cond_regenerate_rebased(ctx, rule="ALG-cond-regenerate"):
    """weight + S(new CondTr) − S(old CondTr) ≡ where(new check, CORR(branch0), CORR(branch1)): each branch weight is
    relative to that branch's own old score, so the result must be re-based on the score visible under the old condition
    (mixture-indicator move of C09; a no-op when the branch is unchanged)."""
    ev = cond_ev(ctx)
    dotted = CORE + "Cond.regenerate"
    s = summarize(ctx, ev, dotted)
    lin = mk_lin(ev, extra=[ih_regen_axiom, condtr_score_axiom])
    construct = "core.Cond.regenerate"
    SEL = ("param", "s")
    t0, t1 = ("idx", ("attr", TR, "trs"), C(0)), ("idx", ("attr", TR, "trs"), C(1))
    g0, g1 = regenerated_branch_traces(s.ret)
    # the traces actually regenerated (the old branch traces, or those traces brought to the visible choices): the identity below holds for
    # either, given the induction hypothesis; which of the two it has to be is decided by ALG-Cond (visible choices).  The synced trace of
    # the branch that was visible has the visible score: score(update(trs[i], CHOICES(tr), old args)) selected by the old check is S(tr).
    t0, t1 = (g0 or t0), (g1 or t1)
    a, b = cond_sub("callee", "regenerate", t0, SEL), cond_sub("callee_", "regenerate", t1, SEL)
    n = 0
    for asg, leaf in spine_cases(s.ret):
        it = items(leaf)
        if it is None or len(it) != 3:
            raise AnalysisError(f"{construct}: shape not recognised")
        new_score = ev.simplify_call(("call", ("attr", it[0], "get_score"), (), ()), None, None)
        if new_score is None:
            raise AnalysisError(f"{construct}: new trace is not a CondTr construction")
        total = ("binop", "-", ("binop", "-", ("binop", "+", it[1], new_score), SC(TR)), where(CHECK, call(N("CORR"), a), call(N("CORR"), b)))
        badc = [(a2, lf) for a2, lf in lin.cases(total) if lf]
        n += 1
        if not badc:
            ctx.ok(rule, construct, "weight re-based on the old visible score in every (new check, old check) case")
        for a2, lf in badc:
            when = ", ".join(f"{k}={v}" for k, v in sorted(a2.items()))
            ctx.bad(rule, construct, f"[{when}] residual {fmt_lf(lf)}",
                    f"when {when}: weight + S(new) − S(old) − correction = {fmt_lf(lf)}: the branch weight is relative to the hidden branch's old score "
                    "(an indicator flip over observed branch choices gets weight 0 and is always accepted)", func_loc(ctx, dotted))
    ctx.need(n >= 1, f"{construct}: no return case analysed")


def trace_accessors(ctx, rule="ROLE-trace-accessors"):
    """Tr / ScanTr accessors return the stored fields; Tr.get_score reduces a vectorised score completely."""
    ev = mk_ev(ctx)
    lin = mk_lin(ev)
    fld = lambda f: ("attr", SELF, f)
    # Tr.get_score
    dotted = CORE + "Tr.get_score"
    s = summarize(ctx, ev, dotted)
    ck = Checker(ctx, ev, lin, rule, "core.Tr.get_score", func_loc(ctx, dotted))
    sc = fld("_score")
    for asg, leaf in spine_cases(s.ret):
        vectorised = None
        for c, v in asg.items():
            if c in (call(N("jax.numpy.shape"), sc), call(N("jax.numpy.ndim"), sc), ("attr", sc, "shape"), ("attr", sc, "ndim")):
                vectorised = v
            else:
                raise AnalysisError(f"core.Tr.get_score: unrecognised condition {short(c, ev)}")
        if vectorised is False:
            ck.eq("scalar score returned as is", leaf, sc)
        else:
            if not (is_call(leaf, name="jax.numpy.sum") and leaf[2] == (sc,) and all(k == "axis" and is_const(v, None) for k, v in leaf[3])):
                ck.fail("vectorised score summed over all axes", f"found {short(leaf, ev)} (a partial reduction leaves a vector score for nested combinators)")
    ck.done()
    table = [("Tr", "get_retval", fld("_retval")), ("Tr", "get_args", fld("_args")),
             ("Tr", "get_choices", call(N(CORE + "get_choices"), fld("_choices"))),
             ("Tr", "get_fixed_choices", call(N(CORE + "get_fixed_choices"), fld("_choices"))),
             ("ScanTr", "get_score", ("call", ("attr", fld("traces"), "get_score"), (), ())),
             ("ScanTr", "get_retval", ("tuple", (fld("final_carry"), fld("outs")))),
             ("ScanTr", "get_args", fld("args")),
             ("ScanTr", "get_choices", ("call", ("attr", fld("traces"), "get_choices"), (), ())),
             ("ScanTr", "get_gen_fn", fld("gen_fn")), ("CondTr", "get_gen_fn", fld("gen_fn"))]
    for cls, m, want in table:
        dotted = CORE + cls + "." + m
        s = summarize(ctx, ev, dotted)
        if lin.norm(s.ret) == lin.norm(want):
            ctx.ok(rule, f"core.{cls}.{m}")
        else:
            ctx.bad(rule, f"core.{cls}.{m}", "returns the stored field", f"expected {short(want, ev)}, found {short(s.ret, ev)}", func_loc(ctx, dotted))
    # Tr.get_gen_fn
    s = summarize(ctx, ev, CORE + "Tr.get_gen_fn")
    if s.ret == fld("_gen_fn"):
        ctx.ok(rule, "core.Tr.get_gen_fn")
    else:
        ctx.bad(rule, "core.Tr.get_gen_fn", "returns the stored field", f"found {short(s.ret, ev)}", func_loc(ctx, CORE + "Tr.get_gen_fn"))
    # log_density convenience
    s = summarize(ctx, ev, CORE + "GFI.log_density")
    ctx.fn(CORE + "GFI.log_density")

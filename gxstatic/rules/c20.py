"""C20 the exact state-space baselines are exact (structural clauses, DESIGN §4-C20).

POLY: non-commutative matrix-polynomial normal form (products over sums expanded, transposes pushed to atoms,
inv(X)^T = inv(X^T), symmetric covariances) to compare the Kalman/RTS recursions with the textbook forms, valid for
d_obs != d_state.  ROLE: axis-role typing (from-state / to-state / symbol) of the HMM recursions.  Index/guard rules.
"""
from __future__ import annotations

import ast
from fractions import Fraction

from ..model import AnalysisError
from ..symeval import ts, subterms, subst, is_const, C, NONE
from .util import mk_ev, summarize, func_loc, short, N, call, is_call, items, all_cases, resolve_deep

EXPLANATION = ("Kalman filter / RTS smoother update terms are expanded to a non-commutative matrix-polynomial normal form and compared with the "
               "textbook recursions (roles of A, C, Q, R kept distinct, so the comparison is valid for d_obs != d_state); HMM recursions are typed with "
               "axis roles (from-state, to-state, symbol); time-index, reversal and T>1 guard rules.")

SS = "genjax.extras.state_space."
P = lambda n: ("param", n)


# ====================================================================== matrix polynomials
class MatPoly:
    """{monomial: coeff}; monomial = tuple of factors; factor = (name, transposed) | ('inv', key, transposed_key)."""

    def __init__(self, ev, symmetric, axioms=()):
        self.ev = ev
        self.symmetric = set(symmetric)
        self.axioms = axioms
        self.problems = []

    def atom_name(self, t):
        return ts(t, self.ev)

    def key(self, poly):
        return " + ".join(f"{c}*" + "·".join(self.fs(f) for f in m) for m, c in sorted(poly.items(), key=lambda kv: str(kv[0])))

    def fs(self, f):
        if f[0] == "inv":
            return f"inv[{f[1]}]"
        return f[0] + ("ᵀ" if f[1] else "")

    def add(self, a, b, s=1):
        out = dict(a)
        for m, c in b.items():
            out[m] = out.get(m, Fraction(0)) + s * c
            if out[m] == 0:
                del out[m]
        return out

    def mul(self, a, b):
        out = {}
        if len(a) * len(b) > 4000:
            raise AnalysisError("matrix polynomial too large")
        for m1, c1 in a.items():
            for m2, c2 in b.items():
                m = m1 + m2
                out[m] = out.get(m, Fraction(0)) + c1 * c2
        return {m: c for m, c in out.items() if c != 0}

    def tr(self, a):
        out = {}
        for m, c in a.items():
            mm = tuple(self.trf(f) for f in reversed(m))
            out[mm] = out.get(mm, Fraction(0)) + c
        return out

    def trf(self, f):
        if f[0] == "inv":
            return ("inv", f[2], f[1])  # inv(X)^T = inv(X^T): swap the key with the transposed key
        if f[0] in self.symmetric:
            return f
        return (f[0], not f[1])

    def poly(self, t):
        for ax in self.axioms:
            r = ax(t)
            if r is not None:
                return self.poly(r)
        h = t[0]
        if h == "const" and isinstance(t[1], (int, float)) and not isinstance(t[1], bool):
            c = Fraction(t[1]).limit_denominator(10**9)
            return {(): c} if c != 0 else {}
        if h == "binop":
            op, a, b = t[1], t[2], t[3]
            if op == "+":
                return self.add(self.poly(a), self.poly(b))
            if op == "-":
                return self.add(self.poly(a), self.poly(b), -1)
            if op == "@":
                return self.mul(self.poly(a), self.poly(b))
            if op == "*":
                pa, pb = self.poly(a), self.poly(b)
                if all(m == () for m in pa) or all(m == () for m in pb):
                    return self.mul(pa, pb)
        if h == "unop" and t[1] == "-":
            return {m: -c for m, c in self.poly(t[2]).items()}
        if h == "attr" and t[2] == "T":
            return self.tr(self.poly(t[1]))
        if is_call(t, name="jax.numpy.transpose") and len(t[2]) == 1:
            return self.tr(self.poly(t[2][0]))
        # other spellings of the transpose of a matrix: swapaxes over the two (last) axes, matrix_transpose, .mT
        if is_call(t) and t[1][0] == "name" and t[1][1] == "jax.numpy.swapaxes" and len(t[2]) == 3 and not t[3] \
                and {t[2][1], t[2][2]} in ({C(0), C(1)}, {C(-1), C(-2)}):
            return self.tr(self.poly(t[2][0]))
        if is_call(t, name="jax.numpy.matrix_transpose") and len(t[2]) == 1:
            return self.tr(self.poly(t[2][0]))
        if h == "attr" and t[2] == "mT":
            return self.tr(self.poly(t[1]))
        if is_call(t, name="jax.numpy.linalg.inv") and len(t[2]) == 1:
            return self.inv(self.poly(t[2][0]))
        if is_call(t) and t[1][0] == "name" and t[1][1] in ("jax.numpy.linalg.solve", "jax.scipy.linalg.solve") and len(t[2]) == 2:
            return self.mul(self.inv(self.poly(t[2][0])), self.poly(t[2][1]))
        if is_call(t, name="jax.scipy.linalg.cho_solve") and len(t[2]) == 2:
            cf = items(t[2][0])
            if cf and len(cf) == 2:
                fac, flag = cf
                lower_fac = None
                if is_call(fac, name="jax.numpy.linalg.cholesky") and len(fac[2]) == 1:
                    lower_fac, inner = True, fac[2][0]
                elif is_call(fac) and fac[1][0] == "name" and fac[1][1] in ("jax.scipy.linalg.cholesky", "jax.scipy.linalg.cho_factor") and fac[2]:
                    lw = dict(fac[3]).get("lower", C(False))
                    lower_fac, inner = (lw[1] if lw[0] == "const" else None), fac[2][0]
                if lower_fac is not None and flag[0] == "const":
                    if bool(flag[1]) != bool(lower_fac):
                        self.problems.append(f"cho_solve is told the factor is {'lower' if flag[1] else 'upper'}-triangular but it was computed as a "
                                             f"{'lower' if lower_fac else 'upper'} Cholesky factor: only the diagonal of the factor is used")
                    return self.mul(self.inv(self.poly(inner)), self.poly(t[2][1]))
        if is_call(t, name="jax.numpy.eye") or is_call(t, name="jax.numpy.identity"):
            return {(): Fraction(1)}
        return {((self.atom_name(t), False),): Fraction(1)}

    def inv(self, p):
        if len(p) == 1:
            (m, c), = p.items()
            if m == () and c != 0:
                return {(): 1 / c}
        return {(("inv", self.key(p), self.key(self.tr(p))),): Fraction(1)}

    def equal(self, a, b):
        d = self.add(self.poly(a), self.poly(b), -1)
        return (not d), d

    def show(self, d):
        return self.key(d)[:400]


def at_set_axiom(t):
    """x.at[i].set(v)[i] == v"""
    if t[0] == "idx" and is_call(t[1]) and t[1][1][0] == "attr" and t[1][1][2] == "set" and t[1][1][1][0] == "idx" \
            and t[1][1][1][1][0] == "attr" and t[1][1][1][1][2] == "at" and t[1][1][1][2] == t[2] and len(t[1][2]) == 1:
        return t[1][2][0]
    return None


def norm_at(t):
    return subst(t, at_set_axiom)


def mm(*xs):
    out = xs[0]
    for x in xs[1:]:
        out = ("binop", "@", out, x)
    return out


def T_(x):
    return ("attr", x, "T")


def inv(x):
    return call(N("jax.numpy.linalg.inv"), x)


def add(a, b):
    return ("binop", "+", a, b)


def sub(a, b):
    return ("binop", "-", a, b)


def mvn_logpdf(x, mean, cov):
    return call(N("jax.scipy.stats.multivariate_normal.logpdf"), x, mean, cov)


class KalmanChecker:
    def __init__(self, ctx, ev, rule, construct, loc, symmetric):
        self.ctx, self.ev, self.rule, self.construct, self.loc = ctx, ev, rule, construct, loc
        self.mp = MatPoly(ev, symmetric, axioms=[at_set_axiom])
        self.failed = False

    def eq(self, what, actual, *accepted):
        diffs = []
        for exp in accepted:
            ok, d = self.mp.equal(actual, exp)
            if ok:
                if self.mp.problems:
                    for p in self.mp.problems:
                        self.fail(what, p)
                    self.mp.problems.clear()
                return True
            diffs.append(d)
        if self.mp.problems:
            for p in self.mp.problems:
                self.fail(what, p)
            self.mp.problems.clear()
            return False
        self.fail(what, f"found {short(actual, self.ev, 300)}; difference from the textbook form: {self.mp.show(diffs[0])}")
        return False

    def fail(self, what, detail):
        self.failed = True
        self.ctx.bad(self.rule, self.construct, what, f"{what}: {detail}", self.loc)

    def done(self, detail=""):
        if not self.failed:
            self.ctx.ok(self.rule, self.construct, detail)


def cov_forms(Pm, K, Cm, R, S):
    I = call(N("jax.numpy.eye"), C(0))
    ikc = sub(I, mm(K, Cm))
    return [sub(Pm, mm(K, Cm, Pm)), mm(ikc, Pm), sub(Pm, mm(K, S, T_(K))), add(mm(ikc, Pm, T_(ikc)), mm(K, R, T_(K)))]


def kalman_filter_rule(ctx, rule="POLY-kalman-filter"):
    ev = mk_ev(ctx)
    dotted = SS + "kalman_filter"
    s = summarize(ctx, ev, dotted)
    loc = func_loc(ctx, dotted)
    OBS, M0, P0, A, Q, Cm, R = (P(n) for n in ("observations", "initial_mean", "initial_cov", "A", "Q", "C", "R"))
    scans = list(ev.scans.items())
    if len(scans) != 1:
        raise AnalysisError("kalman_filter: expected one scan")
    sid, rec = scans[0]
    sym = {ts(x, ev) for x in (P0, Q, R)} | {f"carry#{sid}[1]"}
    # ---------- initial step
    ck = KalmanChecker(ctx, ev, rule, "state_space.kalman_filter[init]", loc, sym)
    init = items(rec["init"]) or ev.known_items(rec["init"])   # a tuple, or a record (NamedTuple / namedtuple) with these three fields
    if init is None or len(init) != 3:
        raise AnalysisError("kalman_filter: scan init is not (mean, cov, logZ)")
    y0 = ("idx", OBS, C(0))
    S0 = add(mm(Cm, P0, T_(Cm)), R)
    K0 = mm(P0, T_(Cm), inv(S0))
    innov0 = sub(y0, mm(Cm, M0))
    ck.eq("filtered mean_0 = m0 + K0 (y_0 − C m0)", init[0], add(M0, mm(K0, innov0)))
    ck.eq("filtered cov_0 = P0 − K0 C P0", init[1], *cov_forms(P0, K0, Cm, R, S0))
    lz = with_library_logpdf(init[2])
    logs = [x for x in subterms(lz) if is_call(x, name="jax.scipy.stats.multivariate_normal.logpdf")]
    if len(set(logs)) != 1:
        ck.fail("log marginal_0 = N(y_0; C m0, S0)", f"found {short(lz, ev, 200)}")
    else:
        check_logpdf(ck, logs[0], y0, mm(Cm, M0), S0, "log marginal_0")
    ck.done()
    # ---------- scan step
    ck = KalmanChecker(ctx, ev, rule, "state_space.kalman_filter[step]", loc, sym)
    c0, c1, c2 = (("scan_carry", sid, i) for i in range(3))
    tvar = ("elem", sid, rec["xs"])
    yt = ("idx", OBS, tvar)
    mpred = mm(A, c0)
    Ppred = add(mm(A, c1, T_(A)), Q)
    S = add(mm(Cm, Ppred, T_(Cm)), R)
    K = mm(Ppred, T_(Cm), inv(S))
    innov = sub(yt, mm(Cm, mpred))
    co = items(rec["carry_out"]) or ev.known_items(rec["carry_out"])
    if co is None or len(co) != 3:
        raise AnalysisError("kalman_filter: scan body does not return (mean, cov, logZ)")
    ck.eq("filtered mean_t = A m + K (y_t − C A m)", co[0], add(mpred, mm(K, innov)))
    ck.eq("filtered cov_t = P⁻ − K C P⁻ with P⁻ = A P Aᵀ + Q", co[1], *cov_forms(Ppred, K, Cm, R, S))
    co = list(co)
    co[2] = with_library_logpdf(co[2])
    logs = [x for x in subterms(co[2]) if is_call(x, name="jax.scipy.stats.multivariate_normal.logpdf")]
    if len(set(logs)) != 1 or not ck.mp.equal(co[2], add(c2, logs[0]))[0]:
        ck.fail("log marginal accumulates one Gaussian innovation term per step", f"found {short(co[2], ev, 200)}")
    else:
        check_logpdf(ck, logs[0], yt, mm(Cm, mpred), S, "log marginal_t")
    ys = items(rec["ys"])
    if ys is None or len(ys) != 2 or ys[0] != co[0] or ys[1] != co[1]:
        ck.fail("scan emits this step's (filtered mean, filtered cov)", f"found {short(rec['ys'], ev, 200)}")
    if not (is_call(rec["xs"], name="jax.numpy.arange") and rec["xs"][2][:1] == (C(1),) and len(rec["xs"][2]) == 2):
        ck.fail("time index runs over arange(1, T)", f"found {short(rec['xs'], ev)}")
    ck.done()
    # ---------- assembly / guard
    assemble(ctx, ev, s, sid, "state_space.kalman_filter", loc, n_out=2, final_idx=2)


def _num(t):
    return t[1] if t[0] == "const" and isinstance(t[1], (int, float)) and not isinstance(t[1], bool) else None


def _coef(t):
    """(numeric coefficient, list of non-numeric factors) of a product term, looking through unary minus and constant factors."""
    if t[0] == "unop" and t[1] == "-":
        c, f = _coef(t[2])
        return -c, f
    if t[0] == "binop" and t[1] == "*":
        c1, f1 = _coef(t[2])
        c2, f2 = _coef(t[3])
        return c1 * c2, f1 + f2
    if t[0] == "binop" and t[1] == "/" and _num(t[3]) is not None:
        c1, f1 = _coef(t[2])
        return c1 / _num(t[3]), f1
    if _num(t) is not None:
        return float(_num(t)), []
    return 1.0, [t]


def _addends(t, sign=1.0):
    if t[0] == "binop" and t[1] in "+-":
        return _addends(t[2], sign) + _addends(t[3], sign if t[1] == "+" else -sign)
    if t[0] == "unop" and t[1] == "-":
        return _addends(t[2], -sign)
    return [(sign, t)]


def explicit_gaussian_logpdf(t):
    """An explicitly written zero-mean Gaussian log density over a Cholesky factor,
        −½ ‖L⁻¹v‖² − (d/2) log 2π − Σ log diag L,   L = cholesky(S), L⁻¹v = solve_triangular(L, v, lower=True),
    is N(v; 0, S) and is rewritten to the library term multivariate_normal.logpdf(v, zeros_like(v), S).  The triangular solve must be
    told that the factor is lower (jnp.linalg.cholesky returns the lower factor; solve_triangular defaults to lower=False and would
    read only its diagonal) — otherwise the expression is NOT this density and is left as it is."""
    adds = _addends(t)
    if len(adds) != 3:
        return None
    quad = const = logdet = None
    for sgn, a in adds:
        c, fs = _coef(a)
        c *= sgn
        if len(fs) == 1 and is_call(fs[0]) and fs[0][1][0] == "name" and fs[0][1][1] in ("jax.numpy.dot", "jax.numpy.vdot", "jax.numpy.inner") and len(fs[0][2]) == 2 \
                and fs[0][2][0] == fs[0][2][1] and abs(c + 0.5) < 1e-12:
            quad = fs[0][2][0]
        elif len(fs) == 1 and is_call(fs[0], name="jax.numpy.sum") and fs[0][2][0][0] == "binop" and fs[0][2][0][1] == "**" and _num(fs[0][2][0][3]) == 2 and abs(c + 0.5) < 1e-12:
            quad = fs[0][2][0][2]
        elif len(fs) == 1 and fs[0][0] == "binop" and fs[0][1] == "@" and fs[0][2] == fs[0][3] and abs(c + 0.5) < 1e-12:
            quad = fs[0][2]
        elif len(fs) == 1 and is_call(fs[0], name="jax.numpy.sum") and is_call(fs[0][2][0], name="jax.numpy.log") and abs(c + 1.0) < 1e-12:
            dg = fs[0][2][0][2][0]
            if is_call(dg) and dg[1][0] == "name" and dg[1][1] in ("jax.numpy.diagonal", "jax.numpy.diag") and len(dg[2]) == 1:
                logdet = dg[2][0]
        elif abs(c + 0.5) < 1e-12 and len(fs) == 2 and any(is_call(f, name="jax.numpy.log") and f[2][0][0] == "binop" and f[2][0][1] == "*"
                                                               and {(_num(f[2][0][2])), (f[2][0][3] == ("name", "jax.numpy.pi") or None)} for f in fs):
            const = fs
    if quad is None or logdet is None or const is None:
        return None
    L = logdet
    if not (is_call(L) and L[1][0] == "name" and L[1][1].endswith("linalg.cholesky") and len(L[2]) == 1):
        return None
    S_ = L[2][0]
    w = quad
    if not (is_call(w) and w[1][0] == "name" and w[1][1].endswith("solve_triangular") and len(w[2]) == 2 and w[2][0] == L):
        return None
    if dict(w[3]).get("lower") != C(True):
        return None
    v = w[2][1]
    return mvn_logpdf(v, call(N("jax.numpy.zeros_like"), v), S_)


def with_library_logpdf(t):
    """Rewrite explicit Gaussian log densities inside t to the library term (see explicit_gaussian_logpdf)."""
    def f(x):
        if x[0] == "binop" and x[1] in "+-":
            # try the three-term tail of a longer sum as well: (acc + q + k + d)
            r = explicit_gaussian_logpdf(x)
            if r is not None:
                return r
            adds = _addends(x)
            if len(adds) == 4:
                for i in range(4):
                    rest = [a for j, a in enumerate(adds) if j != i]
                    tri = None
                    for sg, a in rest:
                        term = a if sg > 0 else ("unop", "-", a)
                        tri = term if tri is None else ("binop", "+", tri, term)
                    r = explicit_gaussian_logpdf(tri)
                    if r is not None:
                        sg, a = adds[i]
                        return ("binop", "+", a if sg > 0 else ("unop", "-", a), r)
        return None
    return subst(t, f)


def check_logpdf(ck, lg, y, mean, S, what):
    a = lg[2]
    if len(a) != 3:
        ck.fail(what, f"found {short(lg, ck.ev, 200)}")
        return
    x, mu, cov = a
    z = ck.mp.poly(mu)
    if is_call(mu, name="jax.numpy.zeros_like") or not z:
        ck.eq(what + ": evaluated at the innovation y − C m⁻", x, sub(y, mean))
    else:
        ck.eq(what + ": evaluated at y with mean C m⁻", sub(x, mu), sub(y, mean))
    ck.eq(what + ": innovation covariance S = C P⁻ Cᵀ + R", cov, S)


def t_guard(asg):
    """Does this case run the T > 1 recursion?  None if the case is not split on the sequence length."""
    for c, v in asg.items():
        if c[0] == "cmp" and is_const(c[3], 1) and c[1] in (">", "<=", ">=", "<"):
            if c[1] == ">":
                return v
            if c[1] == "<=":
                return not v
        if c[0] == "cmp" and is_const(c[3], 2) and c[1] in (">=", "<"):
            return v if c[1] == ">=" else not v
    return None


def is_flipped(val):
    """(flipped?, inner) for x[::-1] / jnp.flip(x, axis=0) / jnp.flip(x)."""
    if val[0] == "idx" and val[2] == ("slice", NONE, NONE, C(-1)):
        return True, val[1]
    if is_call(val, name="jax.numpy.flip") and val[2] and (dict(val[3]).get("axis", C(0)) == C(0) or (len(val[2]) > 1 and val[2][1] == C(0))):
        return True, val[2][0]
    if is_call(val, name="jax.numpy.flipud") and val[2]:
        return True, val[2][0]
    return False, val


def assemble(ctx, ev, s, sid, construct, loc, n_out, final_idx=None, reverse_expected=False, rule="ROLE-time-index"):
    """T>1 guard; per-step outputs written to rows 1: (or :-1 reversed); first/last row from the boundary step."""
    ret = items(s.ret)
    if ret is None:
        raise AnalysisError(f"{construct}: return shape not recognised")
    problems = []
    for k in range(n_out):
        t = ret[k]
        cases = all_cases(t)
        okg = any(t_guard(asg) is not None for asg, _ in cases)
        if not okg:
            problems.append(f"output {k}: recursion not guarded by T > 1")
        for asg, leaf in cases:
            if t_guard(asg):
                sets = [x for x in subterms(leaf) if is_call(x) and x[1][0] == "attr" and x[1][2] == "set" and any(y[0] == "stack" and y[1] == sid for y in subterms(x[2][0]))]
                if not sets:
                    problems.append(f"output {k}: per-step results never written back")
                    continue
                st = sets[0]
                where_ = st[1][1][2]
                val = st[2][0]
                flipped = is_flipped(val)[0]
                if not reverse_expected:
                    if where_ != ("slice", C(1), NONE, NONE) or flipped:
                        problems.append(f"output {k}: per-step results must fill rows [1:] in scan order (found rows {short(where_, ev)}, reversed={flipped})")
                else:
                    if where_ != ("slice", NONE, C(-1), NONE):
                        problems.append(f"output {k}: backward results must fill rows [:-1] (found {short(where_, ev)})")
    if final_idx is not None:
        t = ret[final_idx]
        ok = any(x == ("idx", ("scan_final", sid), C(final_idx)) for x in subterms(t))
        if not ok:
            problems.append("log marginal not taken from the scan's final carry")
    if problems:
        for p in problems:
            ctx.bad(rule, construct, p, p, loc)
    else:
        ctx.ok(rule, construct, "T>1 guard; per-step results written to the remaining rows in time order")


def kalman_smoother_rule(ctx, rule="POLY-kalman-smoother"):
    ev = mk_ev(ctx)
    ev.canon_kw_functions.add(SS + "kalman_filter")   # kalman_filter(observations=..., ...) and the positional call are one term
    dotted = SS + "kalman_smoother"
    s = summarize(ctx, ev, dotted)
    loc = func_loc(ctx, dotted)
    A, Q = P("A"), P("Q")
    scans = list(ev.scans.items())
    if len(scans) != 1:
        raise AnalysisError("kalman_smoother: expected one scan")
    sid, rec = scans[0]
    kf = call(N(SS + "kalman_filter"), P("observations"), P("initial_mean"), P("initial_cov"), P("A"), P("Q"), P("C"), P("R"))
    fm, fc = ("idx", kf, C(0)), ("idx", kf, C(1))
    tvar = ("elem", sid, rec["xs"])
    mt, Pt = ("idx", fm, tvar), ("idx", fc, tvar)
    c0, c1 = ("scan_carry", sid, 0), ("scan_carry", sid, 1)
    sym = {ts(Q, ev), ts(Pt, ev), ts(c1, ev)}
    ck = KalmanChecker(ctx, ev, rule, "state_space.kalman_smoother[step]", loc, sym)
    filt_calls = {x for x in subterms(s.ret) if is_call(x, name=SS + "kalman_filter")}
    if filt_calls != {kf}:
        ck.fail("smoother runs the filter on its own inputs", f"found {[short(x, ev, 120) for x in filt_calls]}")
    Ppred = add(mm(A, Pt, T_(A)), Q)
    G = mm(Pt, T_(A), inv(Ppred))
    co = items(rec["carry_out"])
    if co is None or len(co) != 2:
        raise AnalysisError("kalman_smoother: scan body does not return (mean, cov)")
    ck.eq("smoothed mean_t = m_t + G (m^s_{t+1} − A m_t), G = P_t Aᵀ (A P_t Aᵀ + Q)⁻¹", co[0], add(mt, mm(G, sub(c0, mm(A, mt)))))
    ck.eq("smoothed cov_t = P_t + G (P^s_{t+1} − P⁻_{t+1}) Gᵀ", co[1], add(Pt, mm(G, sub(c1, Ppred), T_(G))))
    ys = items(rec["ys"])
    if ys is None or len(ys) != 2 or ys[0] != co[0] or ys[1] != co[1]:
        ck.fail("scan emits this step's (smoothed mean, smoothed cov)", f"found {short(rec['ys'], ev, 200)}")
    init = items(rec["init"])
    if init is None or len(init) != 2:
        raise AnalysisError("kalman_smoother: scan init not recognised")
    ck.eq("recursion starts from the last filtered mean", norm_at(init[0]), ("idx", fm, C(-1)))
    ck.eq("recursion starts from the last filtered covariance", norm_at(init[1]), ("idx", fc, C(-1)))
    ck.done()
    backward_assembly(ctx, ev, s, sid, rec, "state_space.kalman_smoother", loc, n_out=2, T_term=("idx", ("attr", P("observations"), "shape"), C(0)))


def backward_assembly(ctx, ev, s, sid, rec, construct, loc, n_out, T_term, rule="ROLE-time-index"):
    """Backward passes: processed from t = T−2 down to 0; the stacked outputs are written to rows [:-1] in time order."""
    xs = rec["xs"]
    rev = ev.kwget(rec["kwargs"], "reverse")
    reverse = bool(rev is not None and rev[0] == "const" and rev[1])
    desc = is_call(xs, name="jax.numpy.arange") and len(xs[2]) == 3 and xs[2][0] == ("binop", "-", T_term, C(2)) and xs[2][1] == C(-1) and xs[2][2] == C(-1)
    asc = is_call(xs, name="jax.numpy.arange") and (xs[2] == (("binop", "-", T_term, C(1)),) or xs[2] == (C(0), ("binop", "-", T_term, C(1))))
    problems = []
    if not (desc or asc):
        problems.append(f"time indices must cover T−2 … 0 (found {short(xs, ev)})")
    elif desc == reverse:
        problems.append("the pass must run backward in time (descending indices without reverse=, or ascending with reverse=True)")
    def component(t, k):
        # k-th output of a return value that may be a conditional spine over tuples (early return on T <= 1)
        if t[0] == "ifexp":
            a, b = component(t[2], k), component(t[3], k)
            return None if a is None or b is None else ("ifexp", t[1], a, b)
        it = items(t)
        if it is None:
            return t if (n_out == 1 and k == 0) else None
        return it[k] if k < len(it) else None
    for k in range(n_out):
        t = component(s.ret, k)
        if t is None:
            raise AnalysisError(f"{construct}: return value is not a {n_out}-tuple on every path")
        for asg, leaf in all_cases(t):
            tg = t_guard(asg)
            if tg is None:
                problems.append(f"output {k}: recursion not guarded by T > 1")
                continue
            if not tg:
                continue
            sets = [x for x in subterms(leaf) if is_call(x) and x[1][0] == "attr" and x[1][2] == "set" and any(y[0] == "stack" and y[1] == sid for y in subterms(x[2][0]))]
            if not sets:
                problems.append(f"output {k}: backward results never written back")
                continue
            st = sets[0]
            where_ = st[1][1][2]
            val = st[2][0]
            flipped = is_flipped(val)[0]
            if where_ != ("slice", NONE, C(-1), NONE):
                problems.append(f"output {k}: backward results must fill rows [:-1] (found {short(where_, ev)})")
            # stacked outputs are in the order of xs: descending indices need one flip, ascending none
            if (desc and not flipped) or (asc and flipped):
                problems.append(f"output {k}: stacked results are in {'descending' if desc else 'ascending'} time order and are "
                                f"{'' if flipped else 'not '}reversed before being written to rows [:-1]: rows end up time-reversed")
    if problems:
        for p in dict.fromkeys(problems):
            ctx.bad(rule, construct, p, p, loc)
    else:
        ctx.ok(rule, construct, "backward pass over T−2…0 behind T>1; outputs re-ordered into time order before being written to rows [:-1]")


def select3(t):
    """(cond, a, b) of jax.lax.select / jnp.where, else None."""
    if is_call(t) and t[1][0] == "name" and t[1][1] in ("jax.lax.select", "jax.numpy.where") and len(t[2]) == 3:
        return t[2]
    return None


def addressed_sites(s, ev):
    """{address: distribution-call term} for every `dist(args) @ "addr"` evaluated in the function (return value and expression statements)."""
    out = {}
    pool = [s.ret] + [e[2] for e in s.events if e[1] == "expr"]
    for t in pool:
        for x in subterms(t):
            if x[0] == "binop" and x[1] == "@" and x[3][0] == "const" and isinstance(x[3][1], str) and is_call(x[2]):
                out[x[3][1]] = x[2]
    return out


def linear_gaussian_model_rule(ctx, rule="ROLE-step-model"):
    ev = mk_ev(ctx)
    dotted = SS + "_linear_gaussian"
    s = summarize(ctx, ev, dotted)
    loc = func_loc(ctx, dotted)
    PS, TI, M0, P0, A, Q, Cm, R = (P(n) for n in ("prev_state", "time_index", "initial_mean", "initial_cov", "A", "Q", "C", "R"))
    sites = addressed_sites(s, ev)
    problems = []
    is0 = ("cmp", "==", TI, C(0))
    st = sites.get("state")
    if st is None or st[1] != N("genjax.distributions.multivariate_normal") or len(st[2]) != 2:
        problems.append(f"state ~ multivariate_normal(mean, cov) @ 'state' (found {short(st, ev, 120) if st else None})")
    else:
        m, c = select3(st[2][0]), select3(st[2][1])
        if m is None or m[0] != is0 or m[1] != M0 or m[2] != mm(A, PS):
            problems.append(f"state mean = initial_mean at t=0 else A @ prev_state (found {short(st[2][0], ev, 160)})")
        if c is None or c[0] != is0 or c[1] != P0 or c[2] != Q:
            problems.append(f"state covariance = initial_cov at t=0 else Q (found {short(st[2][1], ev, 160)})")
    ob = sites.get("obs")
    state_term = ("binop", "@", st, C("state")) if st else None
    if ob is None or ob[1] != N("genjax.distributions.multivariate_normal") or len(ob[2]) != 2 or ob[2][0] != mm(Cm, state_term) or ob[2][1] != R:
        problems.append(f"obs ~ multivariate_normal(C @ state, R) @ 'obs' (found {short(ob, ev, 200) if ob else None})")
    ret = items(s.ret)
    want_ret = [state_term, ("binop", "+", TI, C(1)), M0, P0, A, Q, Cm, R]
    if ret is None or ret != want_ret:
        problems.append("returns (state, time_index + 1, and all parameters unchanged) so the kernel can be iterated")
    if problems:
        for p in problems:
            ctx.bad(rule, "state_space.linear_gaussian", p, p, loc)
    else:
        ctx.ok(rule, "state_space.linear_gaussian", "x_0 ~ N(m0, P0); x_t ~ N(A x, Q); y_t ~ N(C x_t, R)")
    ev = mk_ev(ctx)
    dotted = SS + "_discrete_hmm"
    s = summarize(ctx, ev, dotted)
    loc = func_loc(ctx, dotted)
    PS, TI, PI, TM, EM = (P(n) for n in ("prev_state", "time_index", "initial_probs", "transition_matrix", "emission_matrix"))
    sites = addressed_sites(s, ev)
    problems = []
    lg = lambda x: call(N("jax.numpy.log"), x)
    st = sites.get("state")
    if st is None or st[1] != N("genjax.distributions.categorical") or len(st[2]) != 1:
        problems.append(f"state ~ categorical(logits) @ 'state' (found {short(st, ev, 120) if st else None})")
    else:
        m = select3(st[2][0])
        if m is None or m[0] != ("cmp", "==", TI, C(0)) or m[1] != lg(PI) or m[2] != lg(("idx", TM, PS)):
            problems.append(f"state logits = log pi at t=0 else log T[prev_state] (row of the previous state) (found {short(st[2][0], ev, 200)})")
    ob = sites.get("obs")
    state_term = ("binop", "@", st, C("state")) if st else None
    if ob is None or ob[1] != N("genjax.distributions.categorical") or ob[2] != (lg(("idx", EM, state_term)),):
        problems.append(f"obs ~ categorical(log E[state]) @ 'obs' (found {short(ob, ev, 200) if ob else None})")
    ret = items(s.ret)
    if ret is None or ret != [state_term, ("binop", "+", TI, C(1)), PI, TM, EM]:
        problems.append("returns (state, time_index + 1, and all parameters unchanged) so the kernel can be iterated")
    if problems:
        for p in problems:
            ctx.bad(rule, "state_space.discrete_hmm", p, p, loc)
    else:
        ctx.ok(rule, "state_space.discrete_hmm", "x_0 ~ Cat(pi); x_t ~ Cat(T[x_(t-1), :]); y_t ~ Cat(E[x_t, :])")


# ====================================================================== HMM axis roles
class Roles:
    """Axis-role typing: each array is a tuple of roles in {'from','to','state','sym','time','1'}."""

    def __init__(self, ev, atoms):
        self.ev, self.atoms, self.problems = ev, atoms, []

    def unify(self, a, b, where):
        if a == b:
            return a
        if a == "1":
            return b
        if b == "1":
            return a
        if a == "state":
            return b if b in ("from", "to") else None
        if b == "state":
            return a if a in ("from", "to") else None
        return None

    def of(self, t):
        if t in self.atoms:
            return self.atoms[t]
        h = t[0]
        if is_call(t, name="jax.numpy.log") and len(t[2]) == 1:
            return self.of(t[2][0])
        # a probability table floored / clipped / shifted before it enters the recursion: same axes, but no longer the model's table
        if is_call(t) and t[1][0] == "name" and t[1][1] in ("jax.numpy.maximum", "jax.numpy.minimum", "jax.numpy.clip") and t[2] and not t[3]:
            rs = [self.of(x) for x in t[2]]
            tabs = [(x, r_) for x, r_ in zip(t[2], rs) if r_]
            others_ok = all(r_ == () or (r_ is None and not any(y in self.atoms for y in subterms(x))) for x, r_ in zip(t[2], rs) if not r_)
            if len(tabs) == 1 and others_ok:
                if tabs[0][0] in self.atoms and tabs[0][0][0] == "param":
                    self.altered = getattr(self, "altered", []) + [t]
                return tabs[0][1]
        # ---- probability-domain detour: exp(log-quantity - shift), contracted with a probability matrix, then log
        if h == "const" and isinstance(t[1], (int, float)) and not isinstance(t[1], bool):
            return ()
        if is_call(t, name="jax.numpy.exp") and len(t[2]) == 1:
            a = t[2][0]
            r = self.of(a)
            if r is None:
                return None
            shift = self.of(a[3]) if (a[0] == "binop" and a[1] == "-") else None
            if not hasattr(self, "exp_sites"):
                self.exp_sites = []
            self.exp_sites.append({"term": t, "roles": r, "shift": shift, "contracted_with": None})
            return r
        if is_call(t) and t[1][0] == "name" and t[1][1] in ("jax.numpy.max", "jax.numpy.min", "jax.numpy.amax", "jax.numpy.sum") and len(t[2]) == 1:
            r = self.of(t[2][0])
            if r is None:
                return None
            ax = dict(t[3]).get("axis")
            keep = dict(t[3]).get("keepdims")
            if ax is None:
                return ()
            if ax[0] == "const" and isinstance(ax[1], int) and r:
                i = ax[1] % len(r)
                if t[1][1].endswith("sum"):
                    self.reduced = r[i]
                    for e in getattr(self, "exp_sites", []):
                        if any(x == e["term"] for x in subterms(t[2][0])) and e["contracted_with"] is None:
                            e["contracted_with"] = tuple(x for j, x in enumerate(r) if j != i)
                if keep is not None and is_const(keep, True):
                    return r[:i] + ("1",) + r[i + 1:]
                return r[:i] + r[i + 1:]
            return None
        if is_call(t) and t[1][0] == "name" and t[1][1] in ("jax.numpy.isfinite", "jax.numpy.isinf", "jax.numpy.isnan", "jax.lax.stop_gradient") and len(t[2]) == 1:
            return self.of(t[2][0])
        if is_call(t) and t[1][0] == "name" and t[1][1] in ("jax.numpy.where", "jax.lax.select") and len(t[2]) == 3:
            rs = [self.of(x) for x in t[2]]
            if any(x is None for x in rs):
                return None
            return max(rs, key=len)
        mat = None
        if h == "binop" and t[1] == "@":
            mat = (t[2], t[3])
        elif is_call(t) and t[1][0] == "name" and t[1][1] in ("jax.numpy.matmul", "jax.numpy.dot") and len(t[2]) == 2:
            mat = (t[2][0], t[2][1])
        if mat is not None:
            a, b = self.of(mat[0]), self.of(mat[1])
            if a is None or b is None or not a or not b:
                return None
            # contraction of a's last axis with b's first (vector @ matrix, matrix @ vector, matrix @ matrix)
            ca, cb = a[-1], (b[0] if len(b) == 1 else b[-2])
            u = self.unify(ca, cb, t)
            if u is None:
                self.problems.append(f"axis role mismatch: the product contracts a {ca}-state axis with a {cb}-state axis in {short(t, self.ev, 160)}")
                u = ca
            self.reduced = u if u != "state" else (cb if cb != "state" else ca)
            rest_b = b[1:] if len(b) == 1 else b[:-2] + b[-1:]
            out = a[:-1] + rest_b
            for e in getattr(self, "exp_sites", []):
                if e["contracted_with"] is None and (any(x == e["term"] for x in subterms(mat[0])) or any(x == e["term"] for x in subterms(mat[1]))):
                    e["contracted_with"] = out
            return out
        if h == "binop" and t[1] in "+-":
            a, b = self.of(t[2]), self.of(t[3])
            if a is None or b is None:
                return None
            n = max(len(a), len(b))
            a = ("1",) * (n - len(a)) + a
            b = ("1",) * (n - len(b)) + b
            out = []
            for x, y in zip(a, b):
                u = self.unify(x, y, t)
                if u is None:
                    self.problems.append(f"axis role mismatch: a {x}-state axis is aligned with a {y}-state axis in {short(t, self.ev, 160)}")
                    u = x
                out.append(u)
            return tuple(out)
        if h == "attr" and t[2] == "T":
            r = self.of(t[1])
            return None if r is None else tuple(reversed(r))
        if is_call(t, name="jax.numpy.transpose") and len(t[2]) == 1 and not t[3]:
            r = self.of(t[2][0])
            return None if r is None else tuple(reversed(r))
        if is_call(t) and t[1][0] == "name" and t[1][1] in ("jax.numpy.swapaxes", "jax.numpy.moveaxis") and len(t[2]) == 3 \
                and all(x[0] == "const" and isinstance(x[1], int) for x in t[2][1:]):
            r = self.of(t[2][0])
            if r is None:
                return None
            r = list(r)
            i, j = t[2][1][1] % len(r), t[2][2][1] % len(r)
            if t[1][1].endswith("swapaxes"):
                r[i], r[j] = r[j], r[i]
            else:
                r.insert(j, r.pop(i))
            return tuple(r)
        if is_call(t, name="jax.scipy.special.logsumexp") and len(t[2]) == 1:
            r = self.of(t[2][0])
            if r is None:
                return None
            ax = dict(t[3]).get("axis")
            if ax is None:
                return ()
            if ax[0] == "const" and isinstance(ax[1], int):
                i = ax[1] % len(r) if r else 0
                keep = dict(t[3]).get("keepdims")
                if keep is not None and is_const(keep, True):
                    return r[:i] + ("1",) + r[i + 1:]
                self.reduced = r[i]
                return r[:i] + r[i + 1:]
            return None
        if h == "idx":
            r = self.of(t[1])
            if r is None:
                return None
            ix = t[2]
            its = items(ix) if ix[0] == "tuple" else [ix]
            out = []
            pos = 0
            for i in its:
                if is_const(i, None):
                    out.append("1")
                elif i[0] == "slice":
                    if pos < len(r):
                        out.append(r[pos])
                    pos += 1
                else:
                    pos += 1  # scalar index drops the axis
            out.extend(r[pos:])
            return tuple(out)
        return None


def hmm_rules(ctx, rule="ROLE-hmm-axes"):
    ev = mk_ev(ctx)
    # ---------- forward filter
    dotted = SS + "forward_filter"
    s = summarize(ctx, ev, dotted)
    loc = func_loc(ctx, dotted)
    construct = "state_space.forward_filter"
    scans = list(ev.scans.items())
    if len(scans) != 1:
        raise AnalysisError("forward_filter: expected one scan")
    sid, rec = scans[0]
    carry = ("scan_carry", sid, None)
    OBS, PI, TM, EM = P("observations"), P("initial_probs"), P("transition_matrix"), P("emission_matrix")
    atoms = {carry: ("from",), TM: ("from", "to"), EM: ("state", "sym"), PI: ("state",)}
    R_ = Roles(ev, atoms)
    step = rec["carry_out"]
    r = R_.of(step)
    problems = list(R_.problems)
    if r is None:
        raise AnalysisError(f"forward_filter: step expression not typable: {short(step, ev, 200)}")
    if r != ("to",):
        problems.append(f"the new filter vector must be indexed by the to-state (found axes {r}): the sum must eliminate the from-state axis")
    altered_tables = list(dict.fromkeys(getattr(R_, "altered", []) + [x for t_ in (rec["init"],) for x in getattr(Roles(ev, atoms), "altered", [])]))
    R0_ = Roles(ev, atoms)
    R0_.of(norm_at(rec["init"]))
    altered_tables = list(dict.fromkeys(getattr(R_, "altered", []) + getattr(R0_, "altered", [])))
    if altered_tables:
        problems.append(f"the recursion runs on an altered probability table ({short(altered_tables[0], ev, 100)}): structural zeros (impossible starts, transitions, emissions) "
                        "get positive mass, so log marginal and filtering distributions are those of a smoothed model: finite instead of -inf for an impossible sequence, "
                        "wrong by O(1) for sparse models with adverse data")
    # numerical clause (value-range argument): a log → exp → Σ_from → log round trip is exact only if the shift subtracted before exp is
    # taken per destination (carries the to-state axis): with one global shift, exp(alpha_i − max alpha) underflows to exactly 0 for a
    # state more than ~87 nats (float32) behind the leader; a destination reachable only from such a state (structural zeros in the
    # transition matrix: identity, block-diagonal, left-to-right models) gets −inf although its exact log-mass is finite.
    for e in getattr(R_, "exp_sites", []):
        cw = e["contracted_with"]
        if cw is not None and "to" in cw and not (e["shift"] is not None and "to" in e["shift"]) and "to" not in e["roles"]:
            problems.append("the prediction step leaves the log domain with a shift that does not depend on the destination state "
                            f"({short(e['term'], ev, 120)} contracted over the from-state): entries more than ~87 nats below the global maximum underflow to 0, so a "
                            "destination reachable only from a far-behind state (transition matrix with structural zeros) gets -inf — the per-destination "
                            "logsumexp(prev_alpha[:, None] + log T, axis=0) keeps its exact log-mass")
    if getattr(R_, "reduced", None) not in ("from",):
        problems.append(f"logsumexp reduces the {getattr(R_, 'reduced', None)}-state axis; the prediction step sums over the previous (from) state")
    # emission indexed [:, y_t] with the scanned time index
    tvar = ("elem", sid, rec["xs"])
    em_idx = [x for x in subterms(step) if x[0] == "idx" and x[1] == call(N("jax.numpy.log"), EM)]
    want_ix = ("tuple", (("slice", NONE, NONE, NONE), ("idx", OBS, tvar)))
    if len(set(em_idx)) != 1 or em_idx[0][2] != want_ix:
        problems.append(f"emission term must be log E[:, y_t] with the scanned time index (found {[short(x, ev, 80) for x in set(em_idx)]})")
    if rec["ys"] != step:
        problems.append("scan must emit the new filter vector")
    if not (is_call(rec["xs"], name="jax.numpy.arange") and len(rec["xs"][2]) == 2 and rec["xs"][2][0] == C(1)):
        problems.append(f"time index must run over arange(1, T) (found {short(rec['xs'], ev)})")
    init = norm_at(rec["init"])
    a0 = ("binop", "+", ("idx", call(N("jax.numpy.log"), EM), ("tuple", (("slice", NONE, NONE, NONE), ("idx", OBS, C(0))))), call(N("jax.numpy.log"), PI))
    a0b = ("binop", "+", a0[3], a0[2])
    if init not in (a0, a0b):
        problems.append(f"alpha_0 must be log E[:, y_0] + log pi (found {short(init, ev, 160)})")
    ret = items(s.ret)
    if ret is None or len(ret) != 2:
        raise AnalysisError("forward_filter: return shape not recognised")
    lm = ret[1]
    if not (is_call(lm, name="jax.scipy.special.logsumexp") and not lm[3] and lm[2][0][0] == "idx" and lm[2][0][2] == C(-1)):
        problems.append(f"log marginal = logsumexp(alpha[-1]) (found {short(lm, ev, 120)})")
    nrm = ret[0]
    ok = nrm[0] == "binop" and nrm[1] == "-" and is_call(nrm[3], name="jax.scipy.special.logsumexp") and nrm[3][2][0] == nrm[2] \
        and dict(nrm[3][3]).get("axis") == C(1) and dict(nrm[3][3]).get("keepdims") == C(True)
    if not ok:
        problems.append(f"filter distributions normalised per time step (axis=1, keepdims) (found {short(nrm, ev, 160)})")
    if problems:
        for p in dict.fromkeys(problems):
            ctx.bad(rule, construct, p, p, loc)
    else:
        ctx.ok(rule, construct, "prediction sums over the from-state; emission indexed by y_t; alpha_0, normalisation and log marginal as specified")
    assemble(ctx, ev, s_first(s), sid, construct, loc, n_out=1)
    # ---------- backward sample
    ev = mk_ev(ctx)
    dotted = SS + "backward_sample"
    s = summarize(ctx, ev, dotted)
    loc = func_loc(ctx, dotted)
    construct = "state_space.backward_sample"
    scans = list(ev.scans.items())
    if len(scans) != 1:
        raise AnalysisError("backward_sample: expected one scan")
    sid, rec = scans[0]
    AL, TM = P("alpha"), P("transition_matrix")
    tvar = ("elem", sid, rec["xs"])
    nxt = ("scan_carry", sid, None)
    step = rec["carry_out"]
    problems = []
    if not (is_call(step, name="genjax.distributions.categorical.sample") and (dict(step[3]).get("logits") is not None or step[2])):
        problems.append(f"each state drawn from a categorical over log-probabilities (found {short(step, ev, 160)})")
    else:
        lg = dict(step[3]).get("logits") or step[2][0]
        atoms = {AL: ("time", "from"), TM: ("from", "to")}
        R_ = Roles(ev, atoms)
        r = R_.of(lg)
        problems += R_.problems
        if r is None:
            raise AnalysisError(f"backward_sample: logits not typable: {short(lg, ev, 200)}")
        if r != ("from",):
            problems.append(f"conditional p(x_t | x_t+1, y_1:t) must be indexed by x_t, the from-state of the transition into x_t+1 (found axes {r})")
        tm_idx = [x for x in subterms(lg) if x[0] == "idx" and x[1] == call(N("jax.numpy.log"), TM)]
        if len(set(tm_idx)) != 1 or nxt not in list(subterms(tm_idx[0][2])):
            problems.append("transition term must be indexed by the next state carried by the scan")
        al_idx = [x for x in subterms(lg) if x[0] == "idx" and x[1] == AL]
        if len(set(al_idx)) != 1 or al_idx[0][2] != tvar:
            problems.append("filter term must be alpha[t] with the scanned time index")
    if rec["ys"] != step:
        problems.append("scan must emit the sampled state")
    fin = rec["init"]
    if not (is_call(fin, name="genjax.distributions.categorical.sample") and (dict(fin[3]).get("logits") or (fin[2] or [None])[0]) == ("idx", AL, C(-1))):
        problems.append(f"final state drawn from alpha[-1] (found {short(fin, ev, 120)})")
    if problems:
        for p in dict.fromkeys(problems):
            ctx.bad(rule, construct, p, p, loc)
    else:
        ctx.ok(rule, construct, "x_T ~ alpha[-1]; x_t ~ alpha[t] + log T[:, x_t+1]")
    backward_assembly(ctx, ev, s_tuple(s), sid, rec, construct, loc, n_out=1, T_term=("idx", ("attr", AL, "shape"), C(0)))
    # ---------- sequence log prob
    from .util import mk_lin
    ev = mk_ev(ctx)
    dotted = SS + "compute_sequence_log_prob"
    s = summarize(ctx, ev, dotted)
    loc = func_loc(ctx, dotted)
    construct = "state_space.compute_sequence_log_prob"
    lin = mk_lin(ev)
    ST, OBS, PI, TM, EM = P("states"), P("observations"), P("initial_probs"), P("transition_matrix"), P("emission_matrix")
    scans = list(ev.scans.items())
    if len(scans) != 1:
        raise AnalysisError("compute_sequence_log_prob: expected one scan")
    sid, rec = scans[0]
    lg = lambda x: call(N("jax.numpy.log"), x)
    ix = lambda a, *i: ("idx", a, i[0] if len(i) == 1 else ("tuple", tuple(i)))
    t = ("elem", sid, rec["xs"])
    s0, y0 = ix(ST, C(0)), ix(OBS, C(0))
    want_init = ("binop", "+", lg(ix(PI, s0)), lg(ix(EM, s0, y0)))
    st_, sp = ix(ST, t), ix(ST, ("binop", "-", t, C(1)))
    want_step = ("binop", "+", ("binop", "+", ("scan_carry", sid, None), lg(ix(TM, sp, st_))), lg(ix(EM, st_, ix(OBS, t))))
    problems = []
    ok, res = lin.equal(rec["init"], want_init)
    if not ok:
        problems.append(f"initial term = log pi[x_0] + log E[x_0, y_0] (found {short(rec['init'], ev, 200)})")
    ok, res = lin.equal(rec["carry_out"], want_step)
    if not ok:
        problems.append(f"step adds log T[x_(t-1), x_t] + log E[x_t, y_t] (from-state first) (found {short(rec['carry_out'], ev, 260)})")
    if not (is_call(rec["xs"], name="jax.numpy.arange") and len(rec["xs"][2]) == 2 and rec["xs"][2][0] == C(1)):
        problems.append(f"time index runs over arange(1, T) (found {short(rec['xs'], ev)})")
    if s.ret != ("scan_final", sid):
        problems.append(f"returns the accumulated log-probability (found {short(s.ret, ev, 120)})")
    if problems:
        for p in problems:
            ctx.bad(rule, construct, p, p, loc)
    else:
        ctx.ok(rule, construct)


class _S:
    pass


def s_first(s):
    o = _S()
    o.ret = ("tuple", (_alpha_of(s.ret),))
    return o


def _alpha_of(ret):
    it = items(ret)
    n = it[0]
    return n[2] if (n[0] == "binop" and n[1] == "-") else n


def s_tuple(s):
    o = _S()
    o.ret = ("tuple", (s.ret,))
    return o


def baseline_glue(ctx, rule="ROLE-baseline-glue"):
    """The entry points that hand out the exact baselines are thin compositions; a swapped or dropped argument there makes every exact
    answer wrong while each component stays right.  forward_filtering_backward_sampling = backward_sample(alpha of forward_filter on the
    same four arguments, same transition matrix) scored by compute_sequence_log_prob on the same model; the *_exact_log_marginal
    helpers return the log-marginal component of forward_filter / kalman_filter called on their own arguments in order."""
    from .util import mk_lin
    ev = mk_ev(ctx)
    for f in ("forward_filter", "backward_sample", "compute_sequence_log_prob", "kalman_filter"):
        ev.canon_kw_functions.add(SS + f)
    ev.opaque |= {SS + f for f in ("forward_filter", "backward_sample", "compute_sequence_log_prob", "kalman_filter")}
    lin = mk_lin(ev)
    P = lambda n: ("param", n)
    OBS, INIT, TM, EM = P("observations"), P("initial_probs"), P("transition_matrix"), P("emission_matrix")
    ff = call(N(SS + "forward_filter"), OBS, INIT, TM, EM)
    # forward_filtering_backward_sampling
    dotted = SS + "forward_filtering_backward_sampling"
    s = summarize(ctx, ev, dotted)
    loc = func_loc(ctx, dotted)
    construct = "state_space.forward_filtering_backward_sampling"
    states = call(N(SS + "backward_sample"), ("idx", ff, C(0)), TM)
    lp = call(N(SS + "compute_sequence_log_prob"), states, OBS, INIT, TM, EM)
    want = call(N(SS + "DiscreteHMMTrace"), states, OBS, lp)
    if lin.norm(s.ret) == lin.norm(want):
        ctx.ok(rule, construct, "states = backward_sample(alpha, T); log_prob = compute_sequence_log_prob(states, obs, init, T, E)")
    else:
        ctx.bad(rule, construct, "trace(states sampled from the filter's alphas, observations, log prob of that sequence under the same model)",
                f"found {short(s.ret, ev, 300)}; expected {short(want, ev, 300)}", loc)
    # exact marginals
    for name, want in (("discrete_hmm_exact_log_marginal", ("idx", ff, C(1))),
                       ("linear_gaussian_exact_log_marginal", ("idx", call(N(SS + "kalman_filter"), OBS, P("initial_mean"), P("initial_cov"), P("A"), P("Q"), P("C"), P("R")), C(2)))):
        dotted = SS + name
        s = summarize(ctx, ev, dotted)
        construct = f"state_space.{name}"
        if lin.norm(s.ret) == lin.norm(want):
            ctx.ok(rule, construct, "log-marginal component of the filter on the function's own arguments")
        else:
            ctx.bad(rule, construct, "returns the filter's log marginal on its own arguments in order", f"found {short(s.ret, ev, 200)}; expected {short(want, ev, 200)}", func_loc(ctx, dotted))


RULES = [kalman_filter_rule, kalman_smoother_rule, linear_gaussian_model_rule, hmm_rules, baseline_glue]
FLOOR = 10

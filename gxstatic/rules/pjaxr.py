"""Rules over genjax.pjax (Seed / ModularVmap interpreters, sampling primitives): shared by C06 C07 C08 C13 C14."""
from __future__ import annotations

import ast

from ..model import AnalysisError
from ..symeval import ts, subterms, subst, is_const, C, NONE
from .util import (CORE, N, call, mk_ev, mk_lin, summarize, spine_cases, all_cases, none_test, items, is_call, mentions, func_loc, short)
from .gfi import Checker

PJ = "genjax.pjax."
SELF = ("param", "self")


def fnode(ctx, dotted):
    kind, node, mod, owner = ctx.p.get_function(dotted)
    ctx.fn(dotted)
    return node, mod


def unp(n):
    return ast.unparse(n)


def branches_of(ctx, dotted, loopvar="eqn"):
    """The if/elif chain inside `for eqn in jaxpr.eqns` of an interpreter: [(test_src, body_stmts)] + else body."""
    node, mod = fnode(ctx, dotted)
    loops = [n for n in ast.walk(node) if isinstance(n, ast.For) and isinstance(n.target, ast.Name) and n.target.id == loopvar]
    ctx.need(len(loops) >= 1, f"{dotted}: equation loop not found")
    loop = loops[0]
    chain = [st for st in loop.body if isinstance(st, ast.If)]
    ctx.need(chain, f"{dotted}: primitive dispatch not found")
    # the dispatch is the first `if` whose test mentions a primitive
    disp = None
    for st in chain:
        if "primitive" in unp(st.test):
            disp = st
            break
    ctx.need(disp is not None, f"{dotted}: primitive dispatch not found")
    out = []
    cur = disp
    while True:
        out.append((unp(cur.test), cur.body, cur))
        if len(cur.orelse) == 1 and isinstance(cur.orelse[0], ast.If):
            cur = cur.orelse[0]
        else:
            break
    return node, mod, loop, out, cur.orelse


def classify_branch(test):
    t = test.replace(" ", "")
    kinds = set()
    if "adev_sample_p" in t:
        kinds.add("adev_sample")
    if "sample_p" in t.replace("adev_sample_p", ""):
        kinds.add("sample")
    if "cond_p" in t:
        kinds.add("cond")
    if "scan_p" in t:
        kinds.add("scan")
    if "state_p" in t:
        kinds.add("state")
    if "namespace_push_p" in t:
        kinds.add("push")
    if "namespace_pop_p" in t:
        kinds.add("pop")
    return frozenset(kinds)


# ====================================================================== C06
def counter_ownership(ctx, rule="OWN-global-counter"):
    """The process-global key counter is touched only inside KeylessWrapper.__call__."""
    m = ctx.p.modules["genjax.pjax"]
    kind, cls, mod, _ = ctx.p.get_class(PJ + "KeylessWrapper")
    allowed = set()
    for st in cls.body:
        if isinstance(st, ast.FunctionDef) and st.name == "__call__":
            allowed = {n.lineno for n in ast.walk(st) if hasattr(n, "lineno")}
    uses = []
    for mn, mm in ctx.p.modules.items():
        for n in ast.walk(mm.tree):
            if isinstance(n, ast.Name) and n.id == "global_counter" and ctx.p.resolve_name(mn, "global_counter") == PJ + "global_counter":
                uses.append((mn, n.lineno, type(n.ctx).__name__))
            if isinstance(n, ast.Attribute) and n.attr == "global_counter" and not isinstance(n.ctx, ast.Store):
                uses.append((mn, n.lineno, "attr"))
    defs = [u for u in uses if u[0] == "genjax.pjax" and u[2] == "Store"]
    outside = [u for u in uses if not (u[0] == "genjax.pjax" and (u[1] in allowed or u[2] == "Store"))]
    inside = [u for u in uses if u[0] == "genjax.pjax" and u[1] in allowed]
    ctx.need(len(inside) >= 2, "OWN-global-counter: counter use inside KeylessWrapper.__call__ not found (anchor vanished)")
    if outside or len(defs) != 1:
        ctx.bad(rule, "pjax.global_counter", "used outside KeylessWrapper.__call__", f"global_counter referenced at {outside or defs}", f"src/genjax/pjax.py:{(outside or defs)[0][1]}")
    else:
        ctx.ok(rule, "pjax.global_counter", f"{len(inside)} references, all inside KeylessWrapper.__call__")
    # KeylessWrapper instances flow only into the staged-function slot of initial_style_bind(...)(<here>, ...): decided on the
    # evaluator's terms for create_sample_primitive's returned closure (temporaries and aliases resolved)
    ev = mk_ev(ctx)
    dotted = PJ + "create_sample_primitive"
    s_ = summarize(ctx, ev, dotted)
    clo = closure_in(s_.ret)
    ctx.need(clo is not None, "create_sample_primitive: returned sampler closure not found (anchor vanished)")
    A, KW = ("param", "a_"), ("param", "kw_")
    body = ev.apply_closure(clo, (("star", A),), ((None, KW),))
    pool = [body] + [e[2] for e in ev.last_closure_summary.events if e[1] in ("call", "return") and isinstance(e[2], tuple)] \
        + [e[2][1] for e in ev.last_closure_summary.events + s_.events if e[1] == "store"]
    kws = list(dict.fromkeys(x for t in pool + [e[2] for e in s_.events if e[1] == "call"] for x in subterms(t) if is_call(x, name=PJ + "KeylessWrapper")))
    ctx.need(len(kws) >= 1, "create_sample_primitive: KeylessWrapper construction not found (anchor vanished)")
    okuse, baduse = 0, []
    for t in pool:
        for x in subterms(t):
            if not is_call(x):
                continue
            ops = direct_args(x)
            if any(o in kws for o in ops):
                if is_call(x[1], name=PJ + "initial_style_bind") and x[2] and x[2][0] in kws and not any(o in kws for o in ops[1:]):
                    okuse += 1
                else:
                    baduse.append(short(x, ev, 100))
    stored = [e for e in ev.last_closure_summary.events + s_.events if e[1] == "store" and any(x in kws for x in subterms(e[2][1]))]
    others = [c for mn, mm in ctx.p.modules.items() for c in ast.walk(mm.tree) if isinstance(c, ast.Call) and unp(c.func).endswith("KeylessWrapper") and not (mn == "genjax.pjax")]
    node, mod = fnode(ctx, dotted)
    if baduse or others or stored or okuse < 1:
        ctx.bad(rule, "pjax.KeylessWrapper", "escapes the impl slot", f"keyless sampler used at {sorted(set(baduse))[:3]} / stored: {len(stored)} / constructed elsewhere: {len(others)}", ctx.loc(mod, node))
    else:
        ctx.ok(rule, "pjax.KeylessWrapper", "flows only into the staged-function slot of initial_style_bind")


def seed_fresh_interpreter(ctx, rule="OWN-seed-fresh"):
    """Seed(...) is constructed once per call inside seed.wrapped and never stored; _fake_key is only a traced argument."""
    sites = []
    for mn, mm in ctx.p.modules.items():
        for n in ast.walk(mm.tree):
            if isinstance(n, ast.Call) and isinstance(n.func, ast.Name) and n.func.id == "Seed" and ctx.p.resolve_name(mn, "Seed") == PJ + "Seed":
                sites.append((mn, n))
    node, mod = fnode(ctx, PJ + "seed")
    inside = [n for mn, n in sites if mn == "genjax.pjax" and any(x is n for x in ast.walk(node))]
    if len(sites) != 1 or len(inside) != 1:
        ctx.bad(rule, "pjax.Seed(...)", "constructed only inside seed.wrapped", f"{len(sites)} construction sites, {len(inside)} inside the wrapper", ctx.loc(mod, node))
    else:
        # term-based: the wrapper builds Seed(<its own key parameter>) on every call, uses it only as the receiver of method calls and stores it nowhere
        ev = mk_ev(ctx)
        ev.inline_methods_on_ctor = False
        s_ = summarize(ctx, ev, PJ + "seed")
        clo = closure_in(s_.ret)
        ctx.need(clo is not None, "pjax.seed: wrapper closure not found (anchor vanished)")
        K, A, KW = ("param", "k_"), ("param", "a_"), ("param", "kw_")
        body = ev.apply_closure(clo, (K, ("star", A)), ((None, KW),))
        cevs = ev.last_closure_summary.events
        ctor = call(N(PJ + "Seed"), K)
        pool = [body] + [e[2] for e in cevs if e[1] in ("call", "return") and isinstance(e[2], tuple)]
        ctors = list(dict.fromkeys(x for t in pool for x in subterms(t) if is_call(x, name=PJ + "Seed")))
        escapes = [short(x, ev, 80) for t in pool for x in subterms(t) if is_call(x) and any(o in ctors for o in direct_args(x))]
        stored = [e for e in cevs + s_.events if e[1] == "store" and any(x in ctors for x in subterms(e[2][1]))]
        outer = [x for e in s_.events if e[1] in ("call", "store") for x in subterms(e[2] if e[1] == "call" else e[2][1]) if is_call(x, name=PJ + "Seed")]
        if ctors != [ctor] or escapes or stored or outer:
            ctx.bad(rule, "pjax.seed.wrapped", "interpreter is call-local and seeded with the caller's key",
                    f"constructions {[short(c, ev, 60) for c in ctors]}; passed on to {escapes[:2]}; stored {len(stored)}; built outside the wrapper {len(outer)}", ctx.loc(mod, node))
        else:
            ctx.ok(rule, "pjax.seed.wrapped", "fresh Seed(key) per call, used only through method calls")
    fk = []
    for mn, mm in ctx.p.modules.items():
        for n in ast.walk(mm.tree):
            if isinstance(n, ast.Name) and n.id == "_fake_key" and isinstance(n.ctx, ast.Load) and ctx.p.resolve_name(mn, "_fake_key") == PJ + "_fake_key":
                fk.append((mn, n))
    good = 0
    FK = N(PJ + "_fake_key")
    for mn, n in fk:
        # the enclosing function, evaluated: every call the key reaches is the staged call self._make_flat(...)(_fake_key, …)
        encl = [(c, f) for c in ctx.p.modules[mn].tree.body if isinstance(c, ast.ClassDef) for f in c.body
                if isinstance(f, ast.FunctionDef) and any(x is n for x in ast.walk(f))]
        if len(encl) != 1:
            continue
        ev2 = mk_ev(ctx)
        s2 = summarize(ctx, ev2, f"{mn}.{encl[0][0].name}.{encl[0][1].name}")
        reach = list(dict.fromkeys(e[2] for e in s2.events if e[1] == "call" and FK in direct_args(e[2])))
        staged_ok = [t for t in reach if is_call(t[1]) and t[1][1][0] == "attr" and t[1][1][2] == "_make_flat" and t[2] and t[2][0] == FK
                     and not any(x == FK for a in t[2][1:] for x in subterms(a)) and not any(x == FK for _, v in t[3] for x in subterms(v))]
        stored_fk = [e for e in s2.events if e[1] == "store" and any(x == FK for x in subterms(e[2][1])) and not any(is_call(x) for x in subterms(e[2][1]))]
        if reach and len(staged_ok) == len(reach) and not stored_fk:
            good += 1
    if len(fk) != 1 or good != 1:
        ctx.bad(rule, "pjax._fake_key", "only a positional staging argument", f"{len(fk)} uses, {good} as the first argument of a staged call", "src/genjax/pjax.py")
    else:
        ctx.ok(rule, "pjax._fake_key", "flows only into the key parameter of the staged flat sampler")


def flat_cache_key(ctx, rule="DEP-cache-key"):
    """A memo returning a staged (shape-specialised) callable must be keyed on what the staging depended on."""
    ev = mk_ev(ctx)
    dotted = PJ + "FlatSamplerCache.get_flat_sampler"
    s = summarize(ctx, ev, dotted)
    key = s.env.get(("attr", SELF, "_cached_args_signature"))
    ctx.need(key is not None, f"{dotted}: cache key store not found")
    # the key as stored on the miss path
    k = key
    while k[0] == "ifexp":
        k = k[2] if k[2][0] != "attr" else k[3]
    from .util import expand_class_calls
    k = expand_class_calls(ev, k)
    ARGS = ("param", "args")
    AVAL_WORDS = ("shape", "dtype", "get_aval", "get_shaped_aval", "typeof", "result_type", "ShapedArray", "aval")
    shape_dep = struct_dep = False
    for x in subterms(k):
        # a library function that yields abstract values, called or passed to a map
        if x[0] == "name" and any(w in x[1].rsplit(".", 1)[-1] for w in AVAL_WORDS):
            shape_dep = True
        if x[0] == "attr" and x[2] in ("shape", "dtype", "aval"):
            shape_dep = True
        # the tree structure of (args, kwargs): a treedef, or the keyword names together with the positional count
        if x[0] == "name" and x[1].rsplit(".", 1)[-1] in ("tree_structure",):
            struct_dep = True
        if x[0] == "idx" and is_const(x[2], 1) and is_call(x[1]) and x[1][1][0] == "name" and x[1][1][1].endswith("tree_flatten"):
            struct_dep = True
        if is_call(x) and x[1][0] == "attr" and x[1][2] == "keys" and x[1][1] == ("param", "kwargs"):
            struct_dep = True
    # --- a memo that outlives the binder (class-level or module-level container) shares staged samplers between *different* samplers:
    #     its key must identify the sampler function itself, not only its label, sample shape and argument signature
    cnode = ctx.p.get_class(PJ + "FlatSamplerCache")[1]
    pmod = ctx.p.modules["genjax.pjax"]

    def is_container(v):
        return isinstance(v, (ast.Dict, ast.List, ast.Set)) or (isinstance(v, ast.Call) and isinstance(v.func, ast.Name) and v.func.id in ("dict", "list", "set", "defaultdict", "WeakKeyDictionary"))
    shared = set()
    for st in cnode.body:
        if isinstance(st, ast.Assign) and is_container(st.value):
            shared |= {("attr", SELF, t.id) for t in st.targets if isinstance(t, ast.Name)} | {("attr", N(PJ + "FlatSamplerCache"), t.id) for t in st.targets if isinstance(t, ast.Name)}
        if isinstance(st, ast.AnnAssign) and st.value is not None and is_container(st.value) and isinstance(st.target, ast.Name):
            shared |= {("attr", SELF, st.target.id), ("attr", N(PJ + "FlatSamplerCache"), st.target.id)}
    for st in pmod.tree.body:
        if isinstance(st, (ast.Assign, ast.AnnAssign)) and getattr(st, "value", None) is not None and is_container(st.value):
            for t in (st.targets if isinstance(st, ast.Assign) else [st.target]):
                if isinstance(t, ast.Name):
                    shared.add(N(PJ + t.id))
    SAMPLER_ID = (("attr", ("attr", SELF, "config"), "keyful_sampler"), ("attr", SELF, "config"))
    for g_, k_, pl_, ln_, q_ in s.events:
        if k_ != "store":
            continue
        tgt = pl_[0]
        if tgt[0] == "idx" and tgt[1] in shared:
            keyt = tgt[2]
            def names_sampler(t_, parent=None):
                # the sampler function, the whole config object (not one of its label fields), the shape-applied sampler, or an id(...) of them
                if not isinstance(t_, tuple) or not t_:
                    return False
                if t_ == SAMPLER_ID[0]:
                    return True
                if t_ == SAMPLER_ID[1] and not (parent is not None and parent[0] == "attr" and parent[1] == t_):
                    return True
                if is_call(t_) and t_[1][0] == "attr" and t_[1][2] == "get_keyful_sampler_with_shape":
                    return True
                return any(names_sampler(c_, t_) for c_ in t_ if isinstance(c_, tuple))
            ids = names_sampler(keyt)
            if not ids:
                ctx.bad(rule, "pjax.FlatSamplerCache (shared memo)", f"shared memo key = {short(keyt, ev, 120)}",
                        f"the staged flat sampler is also stored in {short(tgt[1], ev, 60)}, a container shared by every binder, under a key that does not identify the sampler "
                        "function: two distributions built with the same label (a factory closing over a static parameter) and equal argument signatures share one staged Jaxpr, "
                        "so seed(f)(key, ...) draws from whichever was staged first in the process", f"{s.module.path}:{ln_}")
                return
    only_len = not shape_dep
    if only_len:
        ctx.bad(rule, "pjax.FlatSamplerCache.get_flat_sampler", f"cache key = {short(k, ev)}",
                "the cached flat sampler closes over a Jaxpr staged for the first call's argument shapes/dtypes, but the key records only the argument "
                "count and keyword names: a binder re-used with differently shaped parameters evaluates a stale Jaxpr", func_loc(ctx, dotted))
    elif not struct_dep:
        ctx.bad(rule, "pjax.FlatSamplerCache.get_flat_sampler", f"cache key ignores the tree structure of (args, kwargs): {short(k, ev, 120)}",
                "the cached flat sampler was staged on a particular split of the operands into positional and keyword arguments (keywords are flattened in sorted-name "
                "order), but the key is built from the flat leaves only: prim(a, b) and prim(shift=a, scale=b) share a key when their leaf avals agree, and the stale "
                "sampler binds the operands the wrong way round — the seeded result depends on which call style was staged first", func_loc(ctx, dotted))
    else:
        ctx.ok(rule, "pjax.FlatSamplerCache.get_flat_sampler", short(k, ev))
    # every input of the staging call must be covered by the key, unless it is fixed for the lifetime of the cache object (a field of
    # self assigned only in __init__, or a module-level name): a parameter of get_flat_sampler that the staged callable is built from
    # (e.g. a config carrying sample_shape) and that the key ignores means two sites sharing the cache get each other's sampler
    staged = [e[2] for e in s.events if e[1] == "call" and is_call(e[2][1]) and e[2][1][1] == ("attr", SELF, "_make_flat")]
    kind, node, mod, owner = ctx.p.get_function(dotted)
    params = [a.arg for a in node.args.args[1:]] + ([node.args.vararg.arg] if node.args.vararg else []) + ([node.args.kwarg.arg] if node.args.kwarg else []) \
        + [a.arg for a in node.args.kwonlyargs]
    key_params = {x[1] for x in subterms(k) if x[0] == "param"}
    # fields of self written outside __init__ are not cache-lifetime constants
    cls_kind, cls_node, cls_mod, _ = ctx.p.lookup(PJ + "FlatSamplerCache")
    mutable_fields = set()
    for f in cls_node.body:
        if isinstance(f, ast.FunctionDef) and f.name != "__init__":
            for n in ast.walk(f):
                if isinstance(n, (ast.Assign, ast.AugAssign, ast.AnnAssign)):
                    for tg in (n.targets if isinstance(n, ast.Assign) else [n.target]):
                        if isinstance(tg, ast.Attribute) and isinstance(tg.value, ast.Name) and tg.value.id == "self":
                            mutable_fields.add(tg.attr)
    missing = []
    for t in dict.fromkeys(staged):
        used = set()
        for x in subterms(t):
            if x[0] == "param" and x[1] in params:
                used.add(x[1])
            if x[0] == "attr" and x[1] == SELF and x[2] in mutable_fields and x[2] not in ("_flat_sampler", "_cached_args_signature"):
                used.add("self." + x[2])
        for u in sorted(used):
            if u not in key_params and not any(x == ("attr", SELF, u[5:]) for x in subterms(k) if u.startswith("self.")):
                missing.append(u)
    if missing:
        ctx.bad(rule, "pjax.FlatSamplerCache.get_flat_sampler", f"the memo key covers every per-call input of the staging ({sorted(set(missing))} not covered)",
                f"the staged flat sampler is built from {sorted(set(missing))} but the key {short(k, ev, 100)} ignores it: two calls that differ only there "
                "(e.g. the same distribution with a different sample_shape) share one staged sampler, so the result of seed(f)(key, ...) depends on which call came first",
                func_loc(ctx, dotted))
    else:
        ctx.ok(rule, "pjax.FlatSamplerCache.get_flat_sampler (inputs covered)", f"staging inputs {sorted(key_params)} all in the key; other inputs are cache-lifetime constants")




# ====================================================================== C07


def eval_handle_modular_vmap(ev, ret, batched, size, kind, nconst, site_shape=(2,), axis_pos=0):
    """Value of VmapBatchHandler._handle_modular_vmap on model operands (dummy, <nconst keyless constants>, leaf0, leaf1) flattened from the
    site's own call f(leaf0, leaf1) / f(leaf0, kw=leaf1): (returned value, static_dim_length calls, re-bound sampler calls)."""
    from ..absint import Model, Opq, TreeDef
    VA, BA, PR = ("param", "vector_args"), ("param", "batch_axes"), ("param", "params")
    m = Model(evaluator=ev)
    consts = ("keyless-const",) * nconst
    m.bind(VA, ("dummy",) + consts + ("leaf0", "leaf1"))
    m.bind(BA, ("dummy-axis",) + (None,) * nconst + (axis_pos if batched else None, None))
    pd = {"axis_size": 5 if size else None, "ctx": "modular_vmap", "in_tree": TreeDef(kind), "num_consts": nconst, "yes_kwargs": kind == "kwargs"}
    m.bind(PR, pd)
    seen_sdl = []

    def sdl(axes, args):
        seen_sdl.append((tuple(axes), tuple(args)))
        return 3 if batched else None
    m.funcs[PJ + "static_dim_length"] = sdl
    m.bind(("attr", SELF, "_compute_outer_batch_dim"), lambda n, ax: () if n is not None else ((ax,) if ax else ()))
    m.bind(("attr", ("attr", SELF, "config"), "sample_shape"), tuple(site_shape))
    m.bind(("attr", ("attr", SELF, "config"), "with_sample_shape"), lambda shp: Opq("config-with-shape", tuple(shp)))
    m.funcs["jax.tree_util.tree_unflatten"] = lambda td, leaves: td.unflatten(leaves) if isinstance(td, TreeDef) else Opq("unflatten", td, tuple(leaves))
    rebound = []

    def csp(cfg):
        def run(*a, **k):
            rebound.append((cfg, a, k))
            return Opq("draw", len(rebound))
        return run
    m.funcs[PJ + "create_sample_primitive"] = csp
    return m.ev(ret), seen_sdl, rebound


def vmap_lane_randomness(ctx, rule="SHAPE-lanes"):
    """Under modular_vmap a sampling site draws one value per lane: the re-bound sample shape is extended by axis_size
    whenever no argument carries the batch axis, and the output is declared batched on axis 0 in that case."""
    ev = mk_ev(ctx)
    lin = mk_lin(ev)
    dotted = PJ + "VmapBatchHandler._compute_outer_batch_dim"
    s = summarize(ctx, ev, dotted)
    ck = Checker(ctx, ev, lin, rule, "pjax.VmapBatchHandler._compute_outer_batch_dim", func_loc(ctx, dotted))
    # evaluated over the four situations (operands batched or not × axis_size given or not), not matched against a shape
    from ..absint import Model, Unknown
    node, mod = fnode(ctx, dotted)
    pn = [a.arg for a in node.args.args if a.arg != "self"]
    ctx.need(len(pn) == 2, f"{dotted}: expected (n, axis_size) parameters")
    for has_n in (True, False):
        for size in (True, False):
            # the site's own sample shape is irrelevant to the decision - also when it happens to start with this vmap's axis size (an inner
            # vmap / repeat of the same size, or a user sample_shape=(B, ...) under a vmap of size B)
            for site_shape in ((2,), (5,), (5, 2), ()):
                m = Model()
                m.bind(("param", pn[0]), 3 if has_n else None)
                m.bind(("param", pn[1]), 5 if size else None)
                m.bind(("attr", ("attr", SELF, "config"), "sample_shape"), site_shape)
                try:
                    got = m.ev(s.ret)
                except Unknown as e:
                    raise AnalysisError(f"{dotted}: cannot evaluate [{has_n}, {size}, {site_shape}]: {e}")
                want = () if has_n or not size else (5,)
                if got != want:
                    ck.fail(f"outer batch dim [args batched={has_n}, axis_size given={size}]", f"with site sample_shape {site_shape!r}: found {got!r}, expected {want!r}" +
                            (": a site already vectorised by an inner vmap of the same size gets no new lane axis, so one draw is broadcast to every outer lane" if site_shape[:1] == (5,) else ""))
                    break
    ck.done()
    dotted = PJ + "VmapBatchHandler._handle_modular_vmap"
    s = summarize(ctx, ev, dotted)
    ck = Checker(ctx, ev, lin, rule, "pjax.VmapBatchHandler._handle_modular_vmap", func_loc(ctx, dotted))
    VA, BA, PR = ("param", "vector_args"), ("param", "batch_axes"), ("param", "params")
    # evaluated on model operands: (dummy, leaf0, leaf1) flattened from the site's own call f(leaf0, leaf1) / f(leaf0, kw=leaf1)
    from ..absint import Model, Opq, Unknown, TreeDef
    import itertools
    none_bad = False
    for batched, size, kind, nconst, site_shape in [x + ((2,),) for x in itertools.product((True, False), (True, False), ("args", "kwargs", "args_none"), (0, 1))] + \
            [(b_, s_, "args", 0, (5,)) for b_ in (True, False) for s_ in (True, False)]:
        consts = ("keyless-const",) * nconst
        try:
            got, seen_sdl, rebound = eval_handle_modular_vmap(ev, s.ret, batched, size, kind, nconst, site_shape)
        except Unknown as e:
            raise AnalysisError(f"{dotted}: cannot evaluate [batched={batched}, axis_size={size}, {kind}, {nconst} consts]: {e}")
        when = f"[operands batched={batched}, axis_size given={size}, site called with {'keyword' if kind == 'kwargs' else ('positional parameters after a None placeholder' if kind == 'args_none' else 'positional')} parameters, {nconst} closed-over constant(s)]"
        outer = () if batched else ((5,) if size else ())
        if not (isinstance(got, tuple) and len(got) == 2):
            ck.fail("returns (outvals, out_axes)", f"{when} found {got!r}")
            continue
        if seen_sdl and seen_sdl[0] not in (((None,) * nconst + (0 if batched else None, None), consts + ("leaf0", "leaf1")), ((0 if batched else None, None), ("leaf0", "leaf1"))):
            ck.fail("axis size taken from the dummy-stripped operands", f"{when} static_dim_length{seen_sdl[0]!r}")
        if len(rebound) != 1 or not (isinstance(got[0], (tuple, list)) and list(got[0]) == [Opq("draw", 1)]):
            ck.fail("re-bound with sample_shape = outer batch dim + site sample_shape on the dummy-stripped operands", f"{when} {len(rebound)} re-binds; outvals {got[0]!r}")
            continue
        cfg, a_, k_ = rebound[0]
        if cfg != Opq("config-with-shape", outer + tuple(site_shape)):
            ck.fail("re-bound with sample_shape = outer batch dim + site sample_shape on the dummy-stripped operands", f"{when} site sample_shape {site_shape!r}: new config {cfg!r}; expected sample_shape {outer + tuple(site_shape)!r}")
        want_a, want_k = {"args": (("leaf0", "leaf1"), {}), "kwargs": (("leaf0",), {"kw": "leaf1"}), "args_none": ((None, "leaf0", "leaf1"), {})}[kind]
        if (tuple(a_), dict(k_)) != (want_a, want_k) and kind == "args_none":
            none_bad = True
        elif (tuple(a_), dict(k_)) != (want_a, want_k):
            ck.fail("re-bound on the site's own (args, kwargs) rebuilt from the flat operands",
                    f"{when} the re-bound sampler is called with {tuple(a_)!r}, {dict(k_)!r} instead of {want_a!r}, {want_k!r}: under modular_vmap keyword "
                    "parameters reach the distribution positionally, in flattening order, and constants closed over by the sampler are passed as extra arguments; "
                    "input: modular_vmap(lambda: bernoulli.sample(probs=0.1), axis_size=N)() draws with logits=0.1")
        want_ax = 0 if (batched or size) else None
        if not (isinstance(got[1], (tuple, list)) and list(got[1]) == [want_ax]):
            ck.fail("out axis 0 whenever the lanes are batched or axis_size is given (never a broadcast single draw)", f"{when} found {got[1]!r}")
    ck.done()
    # a positional argument that is not a single leaf (a None placeholder, a pytree) keeps its position only if the positional call is
    # rebuilt with the recorded tree structure as well (its own obligation: one finding, however many situations show it)
    if none_bad:
        ctx.bad(rule, "pjax.VmapBatchHandler._handle_modular_vmap (positional structure)", "positional arguments rebuilt with the call's tree structure",
                "a site called positionally is re-bound on its flat leaves: f(None, p) is re-bound as f(p), so the parameter moves one position to the left "
                "(geometric.sample(None, 0.02) under modular_vmap / repeat draws with logits=0.02 instead of probs=0.02, while the un-vectorised site and logpdf use probs)",
                func_loc(ctx, PJ + "VmapBatchHandler._handle_modular_vmap"))
    else:
        ctx.ok(rule, "pjax.VmapBatchHandler._handle_modular_vmap (positional structure)", "a None placeholder keeps its position")
    # with_sample_shape copies every other field of the config
    dotted = PJ + "SamplerConfig.with_sample_shape"
    s = summarize(ctx, ev, dotted)
    ck = Checker(ctx, ev, lin, rule, "pjax.SamplerConfig.with_sample_shape", func_loc(ctx, dotted))
    r = s.ret
    if not is_call(r, name=PJ + "SamplerConfig"):
        ck.fail("returns a SamplerConfig", f"found {short(r, ev)}")
    else:
        for fld in ("keyful_sampler", "name", "support", "primitive"):
            ck.eq(f"{fld} copied", ev.ctor_field(r, fld) or NONE, ("attr", SELF, fld))
        ck.eq("sample_shape replaced", ev.ctor_field(r, "sample_shape") or NONE, ("param", "new_sample_shape"))
        pp = ev.ctor_field(r, "primitive_params") or NONE
        if pp not in (("attr", SELF, "primitive_params"), call(N("builtins.dict"), ("attr", SELF, "primitive_params"))):
            ck.fail("primitive_params copied (carries adev_prim)", f"found {short(pp, ev)}")
    ck.done()
    # the shape reaches both the keyless and the flat keyful sampler
    for dotted, what in ((PJ + "SamplerConfig.get_keyful_sampler_with_shape", "partial(keyful_sampler, sample_shape=self.sample_shape)"),):
        s = summarize(ctx, ev, dotted)
        want = ("partial", ("attr", SELF, "keyful_sampler"), (), (("sample_shape", ("attr", SELF, "sample_shape")),))
        if s.ret == want:
            ctx.ok(rule, "pjax.SamplerConfig.get_keyful_sampler_with_shape")
        else:
            ctx.bad(rule, "pjax.SamplerConfig.get_keyful_sampler_with_shape", what, f"found {short(s.ret, ev)}", func_loc(ctx, dotted))
    for cls, attr in (("KeylessWrapper", "__init__"), ("FlatSamplerCache", "get_flat_sampler")):
        node, mod = fnode(ctx, PJ + cls + "." + attr)
        if "get_keyful_sampler_with_shape()" in unp(node):
            ctx.ok(rule, f"pjax.{cls}.{attr}", "uses the shape-applied keyful sampler")
        else:
            ctx.bad(rule, f"pjax.{cls}.{attr}", "uses the shape-applied keyful sampler", "sample_shape not applied", ctx.loc(mod, node))


def sample_shape_threading(ctx, rule="ROLE-sample_shape"):
    """wrap_sampler pops sample_shape from kwargs and hands it to sample_binder; tfp_distribution's keyful sampler
    forwards it to .sample(seed=key, sample_shape=...)."""
    ev = mk_ev(ctx)
    lin = mk_lin(ev)
    s = summarize(ctx, ev, PJ + "wrap_sampler")
    ck = Checker(ctx, ev, lin, rule, "pjax.wrap_sampler", func_loc(ctx, PJ + "wrap_sampler"))
    if s.ret[0] != "closure":
        ck.fail("returns the wrapped sampler", f"found {short(s.ret, ev)}")
    else:
        A, K = ("param", "a"), ("param", "k")
        node = ev.closures[s.ret[1]].node
        src = unp(node)
        body = ev.apply_closure(s.ret, (("star", A),), ((None, K),))
        calls = [x for x in subterms(body) if is_call(x) and is_call(x[1], name=PJ + "sample_binder")]
        if not calls:
            ck.fail("binds through sample_binder", f"found {short(body, ev, 200)}")
        else:
            sb = calls[0][1]
            # replayed over both situations (sample_shape given / not given) with the kwargs dict mutated in program order
            from ..absint import Model, Opq, Unknown, run_mutations
            shape = ev.kwget(sb[3], "sample_shape")
            cevs = ev.last_closure_summary.events
            for present in (True, False):
                kd = {"sample_shape": (7,), "x": 1} if present else {"x": 1}
                m = Model()
                m.bind(K, kd)
                m.bind(A, (Opq("a0"),))
                try:
                    run_mutations(m, cevs, K)
                    got = m.ev(shape) if shape is not None else None
                    args, kwargs = m.args_of(calls[0])
                except Unknown as e:
                    raise AnalysisError(f"pjax.wrap_sampler: cannot evaluate [sample_shape given={present}]: {e}")
                if got != ((7,) if present else ()):
                    ck.fail("sample_shape taken from the call's keyword arguments", f"with sample_shape {'(7,)' if present else 'absent'} the binder receives {got!r}")
                if "sample_shape" in kwargs or kwargs.get("x") != 1 or list(args) != [Opq("a0")]:
                    ck.fail("sample_shape removed from the keyword arguments handed to the distribution", f"the sampler is applied to {args!r}, {kwargs!r}")
            for fld in ("name", "support"):
                ck.eq(f"{fld} forwarded", ev.kwget(sb[3], fld) or NONE, ("param", fld))
            ck.eq("keyful sampler forwarded", sb[2][0] if sb[2] else NONE, ("param", "keyful_sampler"))
    ck.done()
    s = summarize(ctx, ev, CORE + "tfp_distribution")
    ck = Checker(ctx, ev, lin, rule, "core.tfp_distribution", func_loc(ctx, CORE + "tfp_distribution"))
    r = s.ret
    D = ("param", "dist")
    ok = is_call(r, name=CORE + "distribution") and len(r[2]) == 2
    if not ok:
        ck.fail("returns distribution(wrap_sampler(keyful), wrap_logpdf(logpdf), name)", f"found {short(r, ev, 200)}")
    else:
        ws, wl = r[2]
        if not (is_call(ws, name=PJ + "wrap_sampler") and ws[2] and ws[2][0][0] == "closure" and is_call(wl, name=PJ + "wrap_logpdf") and wl[2] and wl[2][0][0] == "closure"):
            ck.fail("sampler and density wrapped by wrap_sampler / wrap_logpdf", f"found {short(r, ev, 200)}")
        else:
            KEY, A, K, SS, V = ("param", "key0"), ("param", "a"), ("param", "k"), ("param", "ss"), ("param", "v0")
            sb = ev.apply_closure(ws[2][0], (KEY, ("star", A)), (("sample_shape", SS), (None, K)))
            d = ("call", D, (("star", A),), ((None, K),))
            ck.eq("sampler = dist(*args, **kwargs).sample(seed=key, sample_shape=sample_shape)", sb,
                  ("call", ("attr", d, "sample"), (), (("seed", KEY), ("sample_shape", SS))))
            lb = ev.apply_closure(wl[2][0], (V, ("star", A)), ((None, K),))
            ck.eq("density = dist(*args, **kwargs).log_prob(v) from the same constructor", lb, ("call", ("attr", d, "log_prob"), (V,), ()))
    ck.done()


# ====================================================================== C08




def first_leaf_guard(ctx, rule="KIND-first-leaf"):
    """static_dim_length.find_axis_size takes tree_leaves(x)[0] for every non-None axis: an axis paired with a
    leafless pytree (None / {} constraint) raises IndexError."""
    node, mod = fnode(ctx, PJ + "static_dim_length")
    # every function static_dim_length can reach inside pjax.py: its own nested functions and the module-level helpers it references
    # (transitively) — extracting `find_axis_size` to module level does not move it out of the rule's reach
    mod_funcs = {st.name: st for st in mod.tree.body if isinstance(st, ast.FunctionDef)}
    reach, todo = [node], [node]
    while todo:
        f = todo.pop()
        for n in ast.walk(f):
            if isinstance(n, ast.Name) and n.id in mod_funcs and mod_funcs[n.id] not in reach:
                reach.append(mod_funcs[n.id])
                todo.append(mod_funcs[n.id])
    firsts = []
    for f in reach:
        for st in ast.walk(f):
            if isinstance(st, ast.Subscript) and isinstance(st.value, ast.Call) and unp(st.value.func).endswith("tree_leaves") and unp(st.slice) == "0":
                firsts.append((f, st))
            # leaves = tree_leaves(x); ... leaves[0]
            if isinstance(st, ast.Subscript) and isinstance(st.value, ast.Name) and unp(st.slice) == "0" and any(
                    isinstance(a, ast.Assign) and unp(a.targets[0]) == st.value.id and isinstance(a.value, ast.Call) and unp(a.value.func).endswith("tree_leaves")
                    for a in ast.walk(f)):
                firsts.append((f, st))
    ctx.need(bool(firsts), "static_dim_length: the first-leaf read tree_leaves(x)[0] was not found in any reachable function (anchor vanished)")
    bad = None
    for f, st in firsts:
        # guarded by a length/emptiness test on the leaves, in the function that takes the first leaf?
        if isinstance(st.value, ast.Name):
            v = st.value.id   # the variable holding the leaves: some test in the function must consult it (emptiness / length)
            guarded = any(isinstance(i, (ast.If, ast.IfExp)) and any(isinstance(n, ast.Name) and n.id == v for n in ast.walk(i.test)) for i in ast.walk(f))
        else:
            guarded = any(isinstance(i, (ast.If, ast.IfExp)) and ("tree_leaves" in unp(i.test) or "leaves" in unp(i.test)) for i in ast.walk(f))
        if not guarded:
            bad = st
    if bad is not None:
        ctx.bad(rule, "pjax.static_dim_length.find_axis_size", "tree_leaves(x)[0] without an emptiness guard",
                "an axis specification paired with a leafless argument (None or {} constraint of a vectorised sub-call whose axis size is inferred) raises IndexError; "
                "input: model.generate({}, xs) where the model calls g.vmap(in_axes=(0, None))(xs, c) @ 'ys'", ctx.loc(mod, bad))
    else:
        ctx.ok(rule, "pjax.static_dim_length.find_axis_size")


def sample_batch_axes(ctx, rule="DEP-batch-axes"):
    """A batch rule that declares a fixed output axis must first bring every batched operand to that axis: the *positions* in
    batch_axes (not just the size they imply) must reach a moveaxis-like normalisation, the re-bound call, or out_axes.  Decided on the finite
    model of the rule: evaluated with the batched operand's axis at position 0 and at position 1, everything else equal - if the re-bound
    sampler call, its configuration and the declared output axes are identical, the position is not used."""
    from ..absint import Unknown
    ev = mk_ev(ctx)
    dotted = PJ + "VmapBatchHandler._handle_modular_vmap"
    s = summarize(ctx, ev, dotted)
    node, mod = fnode(ctx, dotted)
    outs = []
    try:
        for pos in (0, 1):
            got, seen_sdl, rebound = eval_handle_modular_vmap(ev, s.ret, True, False, "args", 0, (2,), axis_pos=pos)
            outs.append((repr(got), repr([(c, a, sorted(k.items())) for c, a, k in rebound])))
    except Unknown as e:
        raise AnalysisError(f"{dotted}: cannot evaluate the rule with the batch axis at position {pos}: {e}")
    if outs[0] == outs[1]:
        ctx.bad(rule, "pjax.VmapBatchHandler._handle_modular_vmap", "batch axis positions unused",
                "the sampler is re-bound on operands whose batch axis may be anywhere (and whose per-lane ranks may differ) and the result is declared batched on axis 0: "
                "batch_axes is consulted only for the axis size; input: modular_vmap(lambda m: normal.sample(m, 1.), in_axes=1)(ones((3, N)))", ctx.loc(mod, node))
    else:
        ctx.ok(rule, "pjax.VmapBatchHandler._handle_modular_vmap", "the re-bound call or the declared output axis depends on where the operand's batch axis is")




# ====================================================================== C14








def closure_in(t):
    """The local function wrapped by functools.wraps(f)(<closure>) or returned directly."""
    if t[0] == "closure":
        return t
    if is_call(t) and t[2] and t[2][0][0] == "closure":
        return t[2][0]
    return None


def seed_wrapper_plumbing(ctx, rule="ROLE-seed-plumbing"):
    """seed(f)(key, *args, **kwargs) = Seed(key).eval(f, *args, **kwargs); eval stages f on exactly those arguments and
    interprets the staged Jaxpr with its literals and flat arguments, then rebuilds the output tree."""
    ev = mk_ev(ctx)
    ev.inline_methods_on_ctor = False
    s = summarize(ctx, ev, PJ + "seed")
    clo = closure_in(s.ret)
    F = ("param", "f")
    if clo is None:
        ctx.bad(rule, "pjax.seed", "returns the keyed wrapper", f"found {short(s.ret, ev)}", func_loc(ctx, PJ + "seed"))
        return
    K, A, KW = ("param", "k_"), ("param", "a_"), ("param", "kw_")
    body = ev.apply_closure(clo, (K, ("star", A)), ((None, KW),))
    want = ("call", ("attr", call(N(PJ + "Seed"), K), "eval"), (F, ("star", A)), ((None, KW),))
    if body == want:
        ctx.ok(rule, "pjax.seed.wrapped", "Seed(key).eval(f, *args, **kwargs)")
    else:
        ctx.bad(rule, "pjax.seed.wrapped", "Seed(key).eval(f, *args, **kwargs)", f"found {short(body, ev, 200)}", func_loc(ctx, PJ + "seed"))
    s = summarize(ctx, ev, PJ + "Seed.eval")
    FN, AR, KWA = ("param", "fn"), ("param", "args"), ("param", "kwargs")
    st = ("call", call(N(PJ + "stage"), FN), (("star", AR),), ((None, KWA),))
    cj, meta = ("idx", st, C(0)), ("idx", st, C(1))
    want = call(N("jax.tree_util.tree_unflatten"), ("call", ("idx", meta, C(2)), (), ()),
                ("call", ("attr", SELF, "eval_jaxpr_seed"), (("attr", cj, "jaxpr"), ("attr", cj, "literals"), ("idx", meta, C(0))), ()))
    if s.ret == want:
        ctx.ok(rule, "pjax.Seed.eval", "stage(fn)(*args, **kwargs) → eval_jaxpr_seed(jaxpr, literals, flat args) → unflatten with the staged out-tree")
    else:
        ctx.bad(rule, "pjax.Seed.eval", "stage on the call's own arguments, interpret, unflatten", f"found {short(s.ret, ev, 300)}", func_loc(ctx, PJ + "Seed.eval"))


def gfi_vmap_repeat(ctx, rule="ROLE-vmap-constructor"):
    ev = mk_ev(ctx)
    s = summarize(ctx, ev, CORE + "GFI.vmap")
    cst = lambda n: call(N(CORE + "const"), ("param", n))
    want = call(N(CORE + "Vmap"), SELF, cst("in_axes"), cst("axis_size"), cst("axis_name"), cst("spmd_axis_name"))
    if s.ret == want:
        ctx.ok(rule, "core.GFI.vmap")
    else:
        ctx.bad(rule, "core.GFI.vmap", "Vmap(self, const(in_axes), const(axis_size), const(axis_name), const(spmd_axis_name))", f"found {short(s.ret, ev, 200)}", func_loc(ctx, CORE + "GFI.vmap"))
    s = summarize(ctx, ev, CORE + "GFI.repeat")
    # bind the call's arguments to GFI.vmap's own parameters (positional or keyword, any keyword order)
    vnode, _ = fnode(ctx, CORE + "GFI.vmap")
    pnames = [a.arg for a in vnode.args.args][1:]
    r = s.ret
    bound = None
    if is_call(r) and r[1] == ("attr", SELF, "vmap") and not any(a[0] == "star" for a in r[2]) and all(k is not None for k, _ in r[3]) and len(r[2]) <= len(pnames):
        bound = dict(zip(pnames, r[2]))
        bound.update(dict(r[3]))
    nparam = [a.arg for a in fnode(ctx, CORE + "GFI.repeat")[0].args.args][1:]
    good = bound is not None and bound.get("in_axes") == NONE and len(nparam) == 1 and bound.get("axis_size") == ("param", nparam[0]) \
        and all(bound.get(k, NONE) == NONE for k in pnames if k not in ("in_axes", "axis_size"))
    if good:
        ctx.ok(rule, "core.GFI.repeat", "vmap(in_axes=None, axis_size=n): n independent draws with shared arguments")
    else:
        ctx.bad(rule, "core.GFI.repeat", "vmap(in_axes=None, axis_size=n)", f"found {short(s.ret, ev, 200)}", func_loc(ctx, CORE + "GFI.repeat"))


# ====================================================================== event-based (rename/temporary/reorder-insensitive) interpreter rules
PRIMS = {"genjax.pjax.sample_p": "sample", "genjax.pjax.adev_sample_p": "adev_sample", "jax.lax.cond_p": "cond", "jax.lax.scan_p": "scan",
         "genjax.state.state_p": "state", "genjax.state.namespace_push_p": "push", "genjax.state.namespace_pop_p": "pop"}


def guard_kinds(guards):
    """(positively tested primitive kinds, negatively tested kinds) of an event's guard stack."""
    pos, neg = set(), set()
    for c, v in guards:
        if not isinstance(c, tuple) or (c and c[0] == "loop"):
            continue
        # only tests on the *interpreted equation's own* primitive select an arm; a primitive mentioned in a test about some other
        # equation (a helper searching a sub-jaxpr for sampling sites) is part of that arm's body, not of the dispatch
        ks = set()
        tests = [x for x in subterms(c) if x[0] == "cmp" or (is_call(x) and x[1][0] == "name" and x[1][1].endswith("PPPrimitive.check"))]
        for tst in tests or [c]:
            names = {PRIMS[x[1]] for x in subterms(tst) if x[0] == "name" and x[1] in PRIMS}
            if not names:
                continue
            # the equation a test is about = the loop variable whose .primitive it reads (a test on an equation of a sub-jaxpr mentions
            # the interpreted equation too, as the place the sub-jaxpr came from)
            subjects = [x[1] for x in subterms(tst) if x[0] == "attr" and x[2] == "primitive" and x[1][0] == "iter"]
            its = subjects or [x for x in subterms(tst) if x[0] == "iter"]
            outer = [x for x in its if x[2][0] == "attr" and x[2][2] == "eqns" and x[2][1][0] == "param"]
            if its and not outer:
                continue
            ks |= names
        (pos if v else neg).update(ks)
    return frozenset(pos - neg if pos else set()), frozenset(neg)


def events_by_kind(s):
    out = {}
    for e in s.events:
        pos, neg = guard_kinds(e[0])
        in_loop = any(isinstance(c, tuple) and c and c[0] == "loop" for c, _ in e[0])
        if not in_loop:
            continue
        key = pos if pos else (frozenset({"else"}) if neg else frozenset({"common"}))
        out.setdefault(key, []).append(e)
    return out


def direct_args(t):
    """Direct operands of a call: positional/keyword arguments and the elements of literal tuple/list arguments."""
    out = []
    for a in t[2]:
        x = a[1] if a[0] == "star" else a
        out.append(x)
        if x[0] in ("tuple", "list"):
            out.extend(x[1])
    for k, v in t[3]:
        out.append(v)
    return out


def key_linearity_events(ctx, rule="KEY-linearity"):
    """Decided on the guarded event log of Seed.eval_jaxpr_seed: in every key-consuming branch the interpreter key is replaced by
    split(key)[0] and split(key)[1] is handed to exactly one consumer; the interpreter key itself is read by nothing but its split."""
    ev = mk_ev(ctx)
    dotted = PJ + "Seed.eval_jaxpr_seed"
    s = summarize(ctx, ev, dotted)
    loc = func_loc(ctx, dotted)
    KEY = ("attr", SELF, "key")
    by = events_by_kind(s)
    branches = {k: v for k, v in by.items() if k & {"sample", "adev_sample", "cond", "scan"}}
    ctx.need(len(branches) == 3, f"KEY-linearity: {len(branches)} key-consuming branches found (floor 3): {[sorted(k) for k in by]}")
    for kind, evs in sorted(branches.items(), key=lambda kv: sorted(kv[0])):
        construct = f"pjax.Seed.eval_jaxpr_seed[{'+'.join(sorted(kind))}]"
        split = None
        for e in evs:
            if e[1] == "call" and e[2][1][0] == "name" and e[2][1][1] in ("jax.random.split",) and e[2][2][:1] == (KEY,):
                split = e[2]
        stores = [e for e in evs if e[1] == "store" and e[2][0] == KEY]
        if split is None or len(stores) != 1 or stores[0][2][1] != ("idx", split, C(0)):
            ctx.bad(rule, construct, "self.key, sub_key = split(self.key)", "the interpreter key is not advanced by split(self.key)[0] in this branch "
                    f"(stores: {[short(x[2][1], ev, 80) for x in stores]})", loc)
            continue
        sub = ("idx", split, C(1))
        consumers = [e[2] for e in evs if e[1] == "call" and e[2] is not split and any(a == sub for a in direct_args(e[2]))]
        consumers = list(dict.fromkeys(consumers))
        raw_reads = [e[2] for e in evs if e[1] == "call" and e[2] != split and any(a == KEY for a in direct_args(e[2]))]
        if raw_reads:
            ctx.bad(rule, construct, "interpreter key read only by its own split", f"self.key handed directly to {short(raw_reads[0], ev, 120)}", loc)
        elif len(consumers) != 1:
            ctx.bad(rule, construct, "sub-key consumed exactly once", f"the sub-key split(self.key)[1] is handed to {len(consumers)} consumers in this branch", loc)
        else:
            ctx.ok(rule, construct, f"split once; sub-key consumed by {short(consumers[0][1], ev, 60)}")
        if "scan" in kind and len(consumers) == 1:
            # the scan that carries the sub-key
            construct2 = "pjax.Seed.eval_jaxpr_seed[scan].new_body"
            sc = [(sid, rec) for sid, rec in ev.scans.items() if items(rec["init"]) and items(rec["init"])[0] == sub]
            if len(sc) != 1:
                ctx.bad(rule, construct2, "scan init = (fresh sub-key, carry)", "the re-issued scan does not start from (sub_key, carry)", loc)
                continue
            sid, rec = sc[0]
            ckey = ("scan_carry", sid, 0)
            co = items(rec["carry_out"])
            xs = items(rec["xs"])
            idx_ok = xs is not None and is_call(xs[0], name="jax.numpy.arange") and len(xs[0][2]) == 1
            body = rec.get("body") or NONE
            seeded = [x for x in subterms(body) if is_call(x) and is_call(x[1], name=PJ + "seed")]
            fold = ("call", N("jax.random.fold_in"), (ckey, ("elem", sid, xs[0]) if xs else NONE), ())
            good = co is not None and co[0] == ckey and idx_ok and len(set(seeded)) == 1 and seeded[0][2][:1] == (fold,)
            if good:
                ln = ev.kwget(rec["kwargs"], "length")
                good = xs[0][2][0] == ln if ln is not None else True
            if good:
                ctx.ok(rule, construct2, "per-iteration key = fold_in(carried key, index from arange(length)); carried key returned unchanged")
            else:
                ctx.bad(rule, construct2, "per-iteration key = fold_in(carried key, scanned index); carried key unchanged",
                        f"carry_out[0]={short(co[0], ev, 60) if co else None}; nested seed key={[short(x[2][0], ev, 100) for x in set(seeded)]}; index source={short(xs[0], ev, 60) if xs else None}", loc)
        if "cond" in kind and len(consumers) == 1:
            construct2 = "pjax.Seed.eval_jaxpr_seed[cond]"
            sw = consumers[0]
            ok = is_call(sw, name="jax.lax.switch") and len(sw[2]) >= 3 and sw[2][2] == sub
            if ok:
                br = sw[2][1]
                ok = any(is_call(x, name=PJ + "seed") for x in subterms(br)) and any(x[0] == "comp" for x in subterms(br))
                elts = [x for x in subterms(br) if x[0] == "comp"]
                ok = ok and all(is_call(v, name=PJ + "seed") for c in elts for v in c[2])
            if ok:
                ctx.ok(rule, construct2, "every branch seeded and given the same fresh sub-key")
            else:
                ctx.bad(rule, construct2, "switch(index, seeded branches, sub_key, *operands)", f"found {short(sw, ev, 200)}", loc)


def seed_sample_branch_events(ctx, rule="GUARD-seed-sample-branch"):
    ev = mk_ev(ctx)
    dotted = PJ + "Seed.eval_jaxpr_seed"
    s = summarize(ctx, ev, dotted)
    loc = func_loc(ctx, dotted)
    construct = "pjax.Seed.eval_jaxpr_seed[sample]"
    by = events_by_kind(s)
    br = [v for k, v in by.items() if {"sample", "adev_sample"} <= k]
    if len(br) != 1:
        ctx.bad(rule, construct, "one branch handles sample_p and adev_sample_p", f"branches: {[sorted(k) for k in by]}", loc)
        return
    evs = br[0]
    calls = [e[2] for e in evs if e[1] == "call"]
    rebinds = [c for c in calls if c[1][0] == "attr" and c[1][2] in ("bind", "impl")]
    if rebinds:
        ctx.bad(rule, construct, "re-binds the primitive", f"the sampling branch calls {short(rebinds[0], ev, 120)} (reaches the keyless implementation and the global counter)", loc)
        return
    KEY = ("attr", SELF, "key")
    split = ("call", N("jax.random.split"), (KEY,), ())
    sub = ("idx", split, C(1))
    samplers = [c for c in calls if c[1][0] == "idx" and c[1][2] == C("flat_keyful_sampler")]
    good = len(set(samplers)) == 1 and samplers[0][2][:1] == (sub,) and len(samplers[0][2]) == 2 and samplers[0][2][1][0] == "star" \
        and len(samplers[0][3]) == 1 and samplers[0][3][0][0] is None and samplers[0][3][0][1] == samplers[0][1][1]
    if good:
        # operands = subfuns + the equation's inputs read from the environment
        ops = samplers[0][2][1][1]
        good = any(is_call(x) and x[1][0] == "name" and x[1][1].endswith("safe_map") for x in subterms(ops))
    if good:
        ctx.ok(rule, construct, "no re-bind; output = inner_params['flat_keyful_sampler'](sub_key, *inputs, **inner_params)")
    else:
        ctx.bad(rule, construct, "outvals = flat_keyful_sampler(fresh sub-key, *args, **inner_params)", f"found {[short(c, ev, 160) for c in set(samplers)]}", loc)


def impure_dispatch(s, ev, need):
    """Arms of a Jaxpr interpreter must be selected by the interpreted equation's primitive alone.  Returns {arm kinds: (extra condition,
    line)} for guard conditions that test the primitive against one of `need` *and* something else: equations of that primitive failing the
    extra test fall through to the generic re-bind, where the sampling sites / tags inside their sub-jaxprs are not interpreted (a lane-wise
    draw is broadcast, a seeded site stays unseeded, a saved value is lost)."""
    from .c16 import bool_atoms

    def is_eqn(x):
        return x[0] == "iter" and x[2][0] == "attr" and x[2][2] == "eqns" and x[2][1][0] == "param"

    def is_prim(t):
        if t[0] == "attr" and t[2] == "primitive" and is_eqn(t[1]):
            return True
        return t[0] == "idx" and is_const(t[2], 0) and is_call(t[1], name=PJ + "PPPrimitive.unwrap") and len(t[1][2]) == 1 and is_prim(t[1][2][0])

    def isname(t):
        return (t[0] == "name" and t[1].split(".")[-1].endswith("_p")) or (t[0] in ("tuple", "list", "set") and all(isname(y) for y in t[1]))

    def pure(a):
        if a[0] == "cmp" and a[1] in ("==", "is", "in", "!=", "is not", "not in"):
            return (is_prim(a[2]) and isname(a[3])) or (is_prim(a[3]) and isname(a[2]))
        if is_call(a, name=PJ + "PPPrimitive.check") and len(a[2]) == 2:
            return is_prim(a[2][0]) and isname(a[2][1])
        return False
    impure = {}
    for g, k, pl, ln, q in s.events:
        for c, v in g:
            if not isinstance(c, tuple) or not c or c[0] == "loop":
                continue
            atoms = []
            bool_atoms(c, atoms)
            pk = {PRIMS[x[1]] for a in atoms if pure(a) for x in subterms(a) if x[0] == "name" and x[1] in PRIMS} & need
            if not pk:
                continue
            for a in atoms:
                if not pure(a):
                    impure.setdefault(tuple(sorted(pk)), (a, ln))
    return impure


def dispatch_sets_events(ctx, rule="SIB-interpreter-dispatch"):
    want = {"sample", "adev_sample", "cond", "scan"}
    for cls, meth in (("Seed", "eval_jaxpr_seed"), ("ModularVmap", "eval_jaxpr_modular_vmap")):
        ev = mk_ev(ctx)
        dotted = PJ + cls + "." + meth
        s = summarize(ctx, ev, dotted)
        for ks, (a, ln) in sorted(impure_dispatch(s, ev, want).items()):
            ctx.bad("EXH-interpreter-dispatch", f"pjax.{cls}.{meth}[{'+'.join(ks)}]", "arm selected by the primitive alone",
                    f"the {'/'.join(ks)} arm is additionally conditional on {short(a, ev, 120)}: equations of that primitive failing the test are re-bound as they are, "
                    "so sampling sites nested deeper in their sub-jaxprs are not interpreted (under modular_vmap one draw is broadcast to every lane; under seed the "
                    "site is left unseeded)", f"{s.module.path}:{ln}")
        got = set()
        for k in events_by_kind(s):
            got |= (k - {"else", "common"})
        if got == want:
            ctx.ok(rule, f"pjax.{cls}.{meth}", f"handles {sorted(got)}")
        else:
            ctx.bad(rule, f"pjax.{cls}.{meth}", f"handles {sorted(got)}", f"special-cased primitives {sorted(got)} differ from {sorted(want)}", func_loc(ctx, dotted))


def seed_fallthrough_events(ctx, rule="EXH-seed-fallthrough"):
    """The arm of Seed.eval_jaxpr_seed for primitives it does not interpret re-binds the equation.  A primitive whose impl evaluates a
    sub-jaxpr in Python (custom_jvp_call, custom_vjp_call, remat, closed_call, ...) would then run the sampling sites inside it through the
    keyless implementation (process-global counter).  Contract (property C14: "or raises the same error for constructs it does not
    interpret"): before the re-bind, on the path where a sub-jaxpr of the equation contains a sampling site, the site's own
    `lowering_exception` is raised under the same flag policy as the lowering rule.  Obligations, decided on the guarded event log with
    the private helpers inlined:
      O1 a raise precedes the bind in the arm;  O2 the raised value is a sampling site's 'lowering_exception' entry;
      O3 the raise is guarded by enforce_lowering_exception (positively) and not by its negation;
      O4 the site search tests membership in {sample_p, adev_sample_p} on equations of a sub-jaxpr, covers ClosedJaxpr and raw Jaxpr
         params (or uses jax's jaxprs_in_params) and descends into nested sub-jaxprs (recursion, or a library traversal)."""
    ev = mk_ev(ctx)
    dotted = PJ + "Seed.eval_jaxpr_seed"
    s = summarize(ctx, ev, dotted)
    by = events_by_kind(s)
    els = by.get(frozenset({"else"}), [])
    construct = "pjax.Seed.eval_jaxpr_seed[else]"
    loc = func_loc(ctx, dotted)
    bind_pos = [i for i, e in enumerate(els) if e[1] == "call" and e[2][1][0] == "attr" and e[2][1][2] == "bind"]
    ctx.need(bool(bind_pos), "Seed fall-through bind not found (anchor vanished)")
    ib = bind_pos[0]
    raises = [e for e in els[:ib] if e[1] == "raise"]
    nested_seed = [e for e in els[:ib] if e[1] == "call" and is_call(e[2], name=PJ + "seed")]
    if not raises and not nested_seed:
        ctx.bad(rule, construct, "unguarded eqn.primitive.bind(*args, **params)",
                "higher-order primitives other than cond/scan (custom_jvp_call, custom_vjp_call, checkpoint/remat, closed_call, pjit evaluated eagerly) are re-bound as is: "
                "a sampling site inside them is evaluated by the primitive's impl with the process-global counter key, silently, in an eagerly executed seed(f); "
                "input: seed(f)(key) with f sampling inside jax.checkpoint or inside a custom_jvp function", loc)
        return
    if not raises:
        ctx.ok(rule, construct, "fall-through interprets sub-jaxprs through a nested seed(...)")
        return
    SAMPLE, ADEV = N(PJ + "sample_p"), N(PJ + "adev_sample_p")
    problems = []
    good_raise = None
    for e in raises:
        guard, raised = e[0], e[2]
        rtxt = ts(raised, ev)
        # O2: the value raised is <site params>['lowering_exception']
        o2 = any(x[0] == "idx" and x[2] == C("lowering_exception") for x in subterms(raised)) if isinstance(raised, tuple) else False
        # O3: flag policy — polarity of every occurrence of the flag in the raise's path condition
        pos_flag = neg_flag = False
        FLAG = N(PJ + "enforce_lowering_exception")

        def polarity(c, v):
            nonlocal pos_flag, neg_flag
            if c == FLAG:
                pos_flag |= v
                neg_flag |= not v
            elif c[0] == "unop" and c[1] == "not":
                polarity(c[2], not v)
            elif c[0] == "boolop":
                for y in c[2]:
                    polarity(y, v)
            elif any(x == FLAG for x in subterms(c)):
                pos_flag |= v       # appears inside a comparison or call: treated as consulted
        for c, v in guard:
            if isinstance(c, tuple):
                polarity(c, bool(v))
        # O4: membership test on equations of a sub-jaxpr, both primitives
        tests = [x for c, _ in guard if isinstance(c, tuple) for x in subterms(c) if x[0] == "cmp" and x[1] == "in" and x[3][0] in ("tuple", "list", "set")]
        tests += [x for x in (subterms(raised) if isinstance(raised, tuple) else ()) if x[0] == "cmp" and x[1] == "in" and x[3][0] in ("tuple", "list", "set")]
        both = [x for x in tests if {SAMPLE, ADEV} <= set(x[3][1])]
        only_one = [x for x in tests if len({SAMPLE, ADEV} & set(x[3][1])) == 1]
        def is_outer(subject):
            # PPPrimitive.unwrap(<the interpreted equation>.primitive)[0]: the arm's own dispatch test, not part of the search
            try:
                eq = subject[1][2][0][1]
                return subject[0] == "idx" and eq[0] == "iter" and eq[2] == ("attr", ("param", "jaxpr"), "eqns")
            except (IndexError, TypeError):
                return False
        inner = [x for x in both if not is_outer(x[2])]
        only_one = [x for x in only_one if not is_outer(x[2])]
        if not o2:
            problems.append(f"raises {rtxt[:100]} — not a sampling site's 'lowering_exception'")
            continue
        if neg_flag and not pos_flag:
            problems.append("the raise is taken when enforce_lowering_exception is False (policy inverted with respect to the lowering rule)")
            continue
        if not pos_flag:
            problems.append("the raise does not consult enforce_lowering_exception (the lowering rule's policy)")
            continue
        if not inner:
            problems.append("site search tests " + (f"only {ts(only_one[0][3], ev)}" if only_one else "no membership in (sample_p, adev_sample_p)") + " on the sub-jaxpr's equations")
            continue
        good_raise = e
        break
    if good_raise is None:
        ctx.bad(rule, construct, "raise site['lowering_exception'] under enforce_lowering_exception when a sub-jaxpr holds a sampling site", "; ".join(dict.fromkeys(problems)), loc)
        return
    # O5: nothing else decides whether the check runs.  Every literal on the raise's path is a dispatch test on the interpreted equation,
    # part of the search / of the site's own parameters (it mentions equations of a jaxpr taken from this equation's params), or the flag
    # policy; any other condition (tracer-ness of the operands, an argument of seed, a module switch) opens a path on which a site exists
    # and the equation is re-bound all the same.
    FLAGS = {N(PJ + "enforce_lowering_exception"), N(PJ + "lowering_warning")}

    def about_sub_jaxpr(c):
        for x in subterms(c):
            if x[0] == "iter":
                for y in subterms(x[2]):
                    if y[0] == "attr" and y[2] == "params" and y[1][0] == "iter" and y[1][2] == ("attr", ("param", "jaxpr"), "eqns"):
                        return True
        return False

    def is_dispatch(c):
        subj = [x[1] for x in subterms(c) if x[0] == "attr" and x[2] == "primitive" and x[1][0] == "iter"]
        return bool(subj) and all(x[2] == ("attr", ("param", "jaxpr"), "eqns") for x in subj) and any(x[0] == "name" and (x[1] in PRIMS or x[1].endswith("_p")) for x in subterms(c))
    extra = [(c, v) for c, v in good_raise[0] if isinstance(c, tuple) and c and c[0] != "loop" and not is_dispatch(c) and not about_sub_jaxpr(c)
             and not any(x in FLAGS for x in subterms(c))]
    if extra:
        c, v = extra[0]
        ctx.bad(rule, construct, "the sub-jaxpr check runs for every equation reaching the fall-through arm",
                f"the check is made only when {short(c, ev, 120)} is {v}: on the other path an equation whose sub-jaxprs hold a sampling site is re-bound as it is "
                "(for tracer-ness tests: eager jax.vmap / jax.grad / jax.jvp of the seeded function trace without lowering, so the site runs its keyless impl silently)", loc)
        return
    # O4 (search completeness): structural facts about the search, gathered over the arm's events before the bind
    allterms = []
    for e in els[:ib]:
        for c, _ in e[0]:
            if isinstance(c, tuple):
                allterms.extend(subterms(c))
        if isinstance(e[2], tuple):
            allterms.extend(subterms(e[2]))
    names = set()
    for x in allterms:
        if x[0] == "call" and x[1][0] == "name":
            names.add(x[1][1])
    library = any(n.endswith(("jaxprs_in_params",)) for n in names)
    isinst = set()
    for x in allterms:
        if x[0] == "call" and x[1] == N("builtins.isinstance") and len(x[2]) == 2:
            k = x[2][1]
            for y in (k[1] if k[0] in ("tuple", "list") else (k,)):
                if y[0] == "name":
                    isinst.add(y[1].rsplit(".", 1)[-1])
    # descent: some module-level helper reachable from the arm both mentions the sampling primitives and lies on a call-graph cycle
    # (direct or mutual recursion over sub-jaxprs); a library traversal (jaxprs_in_params + subjaxprs) also counts
    mod_funcs = {}
    anode, amod = fnode(ctx, dotted)
    for st in amod.tree.body:
        if isinstance(st, ast.FunctionDef):
            mod_funcs[st.name] = st
    edges = {f: {n.func.id for n in ast.walk(node) if isinstance(n, ast.Call) and isinstance(n.func, ast.Name) and n.func.id in mod_funcs}
             for f, node in mod_funcs.items()}

    def reach(src):
        seen, todo = set(), list(edges.get(src, ()))
        while todo:
            g = todo.pop()
            if g not in seen:
                seen.add(g)
                todo.extend(edges.get(g, ()))
        return seen
    called = {n.rsplit(".", 1)[-1] for n in names if n.startswith(PJ)} & set(mod_funcs)
    helpers = set(called)
    for f in called:
        helpers |= reach(f)
    # generator helpers stay opaque call terms in the event log: their isinstance tests are read from their definitions
    for f in helpers:
        for n in ast.walk(mod_funcs[f]):
            if isinstance(n, ast.Call) and isinstance(n.func, ast.Name) and n.func.id == "isinstance" and len(n.args) == 2:
                k = n.args[1]
                for y in (k.elts if isinstance(k, (ast.Tuple, ast.List)) else [k]):
                    isinst.add(ast.unparse(y).rsplit(".", 1)[-1])
            if isinstance(n, ast.MatchClass):   # `case ClosedJaxpr():` is the same test
                isinst.add(ast.unparse(n.cls).rsplit(".", 1)[-1])
    kinds_ok = library or {"ClosedJaxpr", "Jaxpr"} <= isinst
    mentions = {f for f in helpers if {"sample_p", "adev_sample_p"} <= {n.id for n in ast.walk(mod_funcs[f]) if isinstance(n, ast.Name)}}
    recursive = any(f in reach(f) for f in mentions) or (library and any(n.endswith("subjaxprs") for n in names))
    if not kinds_ok:
        ctx.bad(rule, construct, "sub-jaxprs are found whether the parameter holds a ClosedJaxpr (custom_jvp_call, closed_call, pjit) or a raw Jaxpr (checkpoint/remat)",
                f"the search recognises only {sorted(isinst & {'ClosedJaxpr', 'Jaxpr'}) or 'neither kind'}: a sampling site inside the other kind of sub-jaxpr is still re-bound unseeded", loc)
        return
    if not recursive:
        ctx.bad(rule, construct, "the site search descends into nested sub-jaxprs",
                "only the equations of the immediate sub-jaxpr are inspected: a site nested one level deeper (checkpoint inside a custom_jvp function) is still re-bound unseeded", loc)
        return
    ctx.ok(rule, construct, "before the re-bind, a sampling site found (recursively) in a ClosedJaxpr/Jaxpr parameter raises its own lowering_exception under enforce_lowering_exception")


def dummy_protocol_events(ctx, rule="SIB-dummy-arg"):
    """Writer/reader agreement on the dummy operand, decided on ModularVmap's guarded event log and on the symbolic
    summaries of the two readers."""
    ev = mk_ev(ctx)
    dotted = PJ + "ModularVmap.eval_jaxpr_modular_vmap"
    s = summarize(ctx, ev, dotted)
    loc = func_loc(ctx, dotted)
    by = events_by_kind(s)
    br = [v for k, v in by.items() if {"sample", "adev_sample"} <= k]
    construct = "pjax.ModularVmap.eval_jaxpr_modular_vmap[sample]"
    injected = None
    DUMMY, AXS = ("param", "dummy_arg"), ("param", "axis_size")
    if len(br) != 1:
        ctx.bad(rule, construct, "one branch re-binds sample_p/adev_sample_p", f"branches {[sorted(k) for k in by]}", loc)
    else:
        binds = list(dict.fromkeys(e[2] for e in br[0] if e[1] == "call" and e[2][1][0] == "attr" and e[2][1][2] == "bind"))
        if len(binds) != 1:
            ctx.bad(rule, construct, "one re-bind", f"{len(binds)} bind calls", loc)
        else:
            b = binds[0]
            pos = [a for a in b[2] if a[0] != "star"]
            stars = [a for a in b[2] if a[0] == "star"]
            kw = dict((k, v) for k, v in b[3] if k is not None)
            fwd = [v for k, v in b[3] if k is None]
            params_ok = len(fwd) == 1 and any(x[0] == "attr" and x[2] == "params" for x in subterms(fwd[0]))
            good = pos == [DUMMY] and len(stars) == 1 and kw.get("axis_size") == AXS and kw.get("ctx") == C("modular_vmap") and params_ok \
                and any(is_call(x) and x[1][0] == "name" and x[1][1].endswith("safe_map") for x in subterms(stars[0]))
            injected = len(pos)
            if good:
                ctx.ok(rule, construct, "injects 1 dummy operand, forwards the equation's operands and original params, tags ctx='modular_vmap' and axis_size")
            else:
                ctx.bad(rule, construct, "bind(dummy_arg, *operands, axis_size=axis_size, ctx='modular_vmap', **params)", f"found {short(b, ev, 260)}", loc)
    injected = injected or 1
    # reader 1: abstract rule strips the dummy aval under ctx == 'modular_vmap'
    rule_fns_, amod = isb_rule_functions(ctx)
    abstract = [rule_fns_["abstract"]] if "abstract" in rule_fns_ else []
    ctx.need(len(abstract) == 1, "initial_style_bind.abstract not found")
    strips = [st for st in ast.walk(abstract[0]) if isinstance(st, ast.Assign) and isinstance(st.value, ast.Subscript) and isinstance(st.value.slice, ast.Slice)
              and unp(st.targets[0]) == unp(st.value.value)]
    guard_ok = any(isinstance(i, ast.If) and "modular_vmap" in unp(i.test) and "ctx" in unp(i.test) and any(s_ is x for x in ast.walk(i) for s_ in strips) for i in ast.walk(abstract[0]))
    lower = [unp(st.value.slice.lower) if st.value.slice.lower is not None else "0" for st in strips]
    if len(strips) != 1 or lower != [str(injected)] or not guard_ok or unp(strips[0].targets[0]) != abstract[0].args.vararg.arg:
        ctx.bad(rule, "pjax.initial_style_bind.abstract", "strips the dummy aval under ctx == 'modular_vmap'", f"found {[unp(s_) for s_ in strips]} guarded={guard_ok}", ctx.loc(amod, abstract[0]))
    else:
        ctx.ok(rule, "pjax.initial_style_bind.abstract", f"strips {injected} leading aval under ctx == 'modular_vmap'")
    # reader 2: the sample batch rule strips operand and axis (symbolic summary)
    s2 = summarize(ctx, ev, PJ + "VmapBatchHandler._handle_modular_vmap")
    from ..absint import Unknown
    try:
        got, seen_sdl, rebound = eval_handle_modular_vmap(ev, s2.ret, True, True, "args", 0)
    except Unknown as e:
        raise AnalysisError(f"pjax.VmapBatchHandler._handle_modular_vmap: cannot evaluate: {e}")
    flat_seen = [x for c in rebound for x in list(c[1]) + list(c[2].values())] + [x for c in seen_sdl for part in c for x in part]
    ok = injected == 1 and bool(rebound) and "dummy" not in flat_seen and "dummy-axis" not in flat_seen and all("leaf0" in c[1] for c in rebound)
    if ok:
        ctx.ok(rule, "pjax.VmapBatchHandler._handle_modular_vmap", f"strips {injected} leading operand and axis")
    else:
        ctx.bad(rule, "pjax.VmapBatchHandler._handle_modular_vmap", "strips the dummy operand and its axis",
                f"re-bind does not use vector_args[{injected}:] / batch_axes[{injected}:]: {short(s2.ret, ev, 240)}", func_loc(ctx, PJ + "VmapBatchHandler._handle_modular_vmap"))
    # ModularVmap.eval pairs (dummy, args) with in_axes (0, in_axes)
    s3 = summarize(ctx, ev, PJ + "ModularVmap.eval")
    lanes = [x for x in subterms(s3.ret) if x[0] == "lanes"]
    ok = False
    if lanes:
        rec = ev.vmaps[lanes[0][1]]
        # in_axes paired with the arguments tuple: (0, in_axes), evaluated for every shape of axis specification jax.vmap accepts; a list
        # is not a tree prefix of the arguments *tuple* and has to be turned into one
        from ..absint import Model, Unknown
        IA = ("param", "in_axes")
        pair_ok, list_bad = True, False
        for val, want2 in ((0, 0), (None, None), ((0, None), (0, None)), ([0, None], (0, None))):
            m_ = Model()
            m_.bind(IA, val)
            try:
                got = m_.ev(rec["in_axes"])
            except Unknown:
                pair_ok = False
                break
            if not (isinstance(got, (tuple, list)) and len(got) == 2 and got[0] == 0 and type(got) is tuple):
                pair_ok = False
            elif isinstance(val, list):
                if isinstance(got[1], list):
                    list_bad = True
                elif got[1] != want2:
                    pair_ok = False
            elif got[1] != want2 or type(got[1]) is not type(want2):
                pair_ok = False
        if list_bad and pair_ok:
            ctx.bad("NARROW-in_axes", "pjax.ModularVmap.eval", "list in_axes paired with the arguments tuple",
                    "in_axes=[...] is accepted by jax.vmap but `(0, in_axes)` is matched against `(dummy, args)` with args a tuple: a list is not a tree prefix of a tuple, "
                    "so modular_vmap(f, in_axes=[0, None]) raises ValueError where jax.vmap works", func_loc(ctx, PJ + "ModularVmap.eval"))
        else:
            ctx.ok("NARROW-in_axes", "pjax.ModularVmap.eval", "int / None / tuple / list axis specifications all pair with the arguments tuple")
        ok = rec["which"] == "jax.vmap" and pair_ok and len(rec["args"]) == 2 and rec["args"][1] == ("param", "args")
        f = rec["f"]
        ok = ok and f[0] == "partial" and f[1] == N(PJ + "ModularVmap.stage_and_run") and len(f[2]) == 2 and f[2][1] == ("param", "fn")
        want_size = ("ifexp", ("cmp", "is", ("param", "axis_size"), NONE), call(N(PJ + "static_dim_length"), ("param", "in_axes"), ("param", "args")), ("param", "axis_size"))
        ok = ok and f[2][0] == want_size and ev.kwget(rec["opts"], "axis_size") == want_size
    if ok:
        ctx.ok(rule, "pjax.ModularVmap.eval", "jax.vmap(stage_and_run(axis_size, fn), in_axes=(0, in_axes))(dummy, args)")
    else:
        ctx.bad(rule, "pjax.ModularVmap.eval", "jax.vmap(partial(stage_and_run, axis_size, fn), in_axes=(0, in_axes), axis_size=axis_size)(dummy, args)", f"found {short(s3.ret, ev, 300)}", func_loc(ctx, PJ + "ModularVmap.eval"))


def mvmap_fallthrough(ctx, rule="EXH-mvmap-fallthrough"):
    """The arm of ModularVmap.eval_jaxpr_modular_vmap for primitives it does not interpret re-binds the equation under jax.vmap.  A
    primitive that carries a sub-jaxpr with a sampling site (checkpoint, custom_jvp, while_loop, a jitted callee) is then evaluated by its
    own batching rule: when no operand of the site is batched the site runs once and the single draw is broadcast to every lane.
    Obligations on the guarded event log (the same three as for the State interpreter's fall-through):
      O1 the plain re-bind is reached only under the negation of a test that looks for the sampling primitives among the equations of the
         interpreted equation's own sub-jaxprs;  O2 the search tests sample_p and adev_sample_p and descends into nested sub-jaxprs;
      O3 on the positive side every event is a raise or an interpretation by this interpreter of a jaxpr taken from the equation's params."""
    ev = mk_ev(ctx)
    dotted = PJ + "ModularVmap.eval_jaxpr_modular_vmap"
    s = summarize(ctx, ev, dotted)
    loc = func_loc(ctx, dotted)
    construct = "pjax.ModularVmap.eval_jaxpr_modular_vmap[else]"
    by = events_by_kind(s)
    els = by.get(frozenset({"else"}), [])
    binds = [e for e in els if e[1] == "call" and e[2][1][0] == "attr" and e[2][1][2] == "bind" and e[2][1][1][0] == "attr" and e[2][1][1][2] == "primitive"
             and not any(k == "ctx" for k, _ in e[2][3])]
    ctx.need(bool(binds), "ModularVmap fall-through bind not found (anchor vanished)")
    SAMPLE, ADEV = N(PJ + "sample_p"), N(PJ + "adev_sample_p")

    def is_search(c):
        if not isinstance(c, tuple):
            return False
        subs = list(subterms(c))
        if SAMPLE not in subs:
            return False
        for x in subs:
            if x[0] == "attr" and x[2] == "primitive" and x[1][0] == "iter":
                itb = x[1][2]
                if itb[0] == "attr" and itb[2] == "eqns" and itb[1][0] != "param":
                    if any(y[0] == "attr" and y[2] == "params" and y[1][0] == "iter" and y[1][2] == ("attr", ("param", "jaxpr"), "eqns") for y in subterms(itb[1])):
                        return True
        return False

    def implied(c, v):
        if isinstance(c, tuple) and c and c[0] == "unop" and c[1] == "not":
            yield from implied(c[2], not v)
        elif isinstance(c, tuple) and c and c[0] == "boolop" and ((c[1] == "and" and v) or (c[1] == "or" and not v)):
            for y in c[2]:
                yield from implied(y, v)
        elif isinstance(c, tuple) and c and c[0] == "boolop":
            return
        else:
            yield c, v

    def lits(e):
        return [(a, p) for c, v in e[0] if isinstance(c, tuple) and isinstance(v, bool) for a, p in implied(c, v)]
    unguarded = [e for e in binds if not any(p is False and is_search(a) for a, p in lits(e))]
    if unguarded:
        ctx.bad(rule, construct, "unguarded eqn.primitive.bind(*args, **params)",
                "primitives carrying a sub-jaxpr (checkpoint, custom_jvp/vjp, while_loop, a jitted callee) are re-bound under jax.vmap as they are: a sampling site inside them whose "
                "operands are not batched runs once and its single draw is broadcast to every lane; input: modular_vmap(lambda: jax.checkpoint(lambda: normal.sample(0., 1.))(), "
                "in_axes=(), axis_size=4)() returns four equal values", loc)
        return
    conds = [a for e in binds for a, p in lits(e) if p is False and is_search(a)]
    both_kinds = all(ADEV in list(subterms(c)) for c in conds)
    anode, amod = fnode(ctx, dotted)
    mod_funcs = {st.name: st for st in amod.tree.body if isinstance(st, ast.FunctionDef)}
    edges = {f: {n.func.id for n in ast.walk(node) if isinstance(n, ast.Call) and isinstance(n.func, ast.Name) and n.func.id in mod_funcs} for f, node in mod_funcs.items()}

    def reach(src):
        seen, todo = set(), list(edges.get(src, ()))
        while todo:
            g = todo.pop()
            if g not in seen:
                seen.add(g)
                todo.extend(edges.get(g, ()))
        return seen
    called = {n.id for n in ast.walk(anode) if isinstance(n, ast.Name) and n.id in mod_funcs}
    helpers = set(called)
    for f in called:
        helpers |= reach(f)
    mentions = {f for f in helpers if {"sample_p", "adev_sample_p"} <= {n.id for n in ast.walk(mod_funcs[f]) if isinstance(n, ast.Name)}}
    recursive = any(f in reach(f) for f in mentions)
    if not both_kinds or not recursive:
        ctx.bad(rule, construct, "the site search covers sample_p and adev_sample_p and descends into nested sub-jaxprs",
                ("the search does not test adev_sample_p" if not both_kinds else "only the equations of the immediate sub-jaxpr are inspected") +
                ": a site of the other kind / one level deeper is still re-bound and broadcast", loc)
        return
    pos = [e for e in els if any(p is True and is_search(a) for a, p in lits(e))]
    handled = [e for e in pos if e[1] == "raise" or (e[1] == "call" and e[2][1][0] in ("attr", "name") and (e[2][1][-1] if e[2][1][0] == "attr" else e[2][1][1]).endswith("eval_jaxpr_modular_vmap"))]
    if not handled:
        ctx.bad(rule, construct, "a sub-jaxpr with sampling sites is interpreted by this interpreter or rejected", "the search result is computed but neither raises nor interprets the sub-jaxpr", loc)
        return
    ctx.ok(rule, construct, "before the re-bind, sampling sites found (recursively) in the equation's sub-jaxprs are vectorised by this interpreter or rejected with an error")


def modular_vmap_control_flow_events(ctx, rule="ROLE-modular_vmap"):
    ev = mk_ev(ctx)
    s0 = summarize(ctx, ev, PJ + "modular_vmap")
    clo = closure_in(s0.ret)
    A = ("param", "a_")
    ok = False
    if clo is not None:
        ev2 = mk_ev(ctx)
        ev2.inline_methods_on_ctor = False
        s0 = summarize(ctx, ev2, PJ + "modular_vmap")
        clo = closure_in(s0.ret)
        body = ev2.apply_closure(clo, (("star", A),), ())
        want = ("call", ("attr", call(N(PJ + "ModularVmap")), "eval"), (("param", "in_axes"), ("param", "axis_size"), ("param", "axis_name"), ("param", "spmd_axis_name"), ("param", "f"), ("star", A)), ())
        ok = body == want
    if ok:
        ctx.ok(rule, "pjax.modular_vmap.wrapped")
    else:
        ctx.bad(rule, "pjax.modular_vmap.wrapped", "eval(in_axes, axis_size, axis_name, spmd_axis_name, f, *args)", "wrapper plumbing changed", func_loc(ctx, PJ + "modular_vmap"))
    dotted = PJ + "ModularVmap.eval_jaxpr_modular_vmap"
    s = summarize(ctx, ev, dotted)
    loc = func_loc(ctx, dotted)
    by = events_by_kind(s)
    DUMMY, AXS = ("param", "dummy_arg"), ("param", "axis_size")
    run = N(PJ + "ModularVmap.stage_and_run")
    for k, evs in by.items():
        if "scan" in k:
            construct = "pjax.ModularVmap[scan]"
            sc = [(sid, rec) for sid, rec in ev.scans.items() if rec["init"][0] == "tuple" and rec["init"][1][:1] == (DUMMY,)]
            if len(sc) != 1:
                ctx.bad(rule, construct, "scan re-issued with the dummy threaded through the carry", "no scan starting from (dummy_arg, *carry)", loc)
                continue
            sid, rec = sc[0]
            carry = ("scan_carry", sid, None)
            d = ("idx", carry, C(0))
            body = rec.get("body") or NONE
            runs = list(dict.fromkeys(x for x in subterms(body) if is_call(x) and x[1] == run))
            co = rec["carry_out"]
            fwd = all(ev.kwget(rec["kwargs"], p_) is not None and any(y == C(p_) for y in subterms(ev.kwget(rec["kwargs"], p_))) for p_ in ("length", "reverse"))
            good = len(runs) == 1 and runs[0][2][:1] == (AXS,) and len(runs[0][2]) == 4 and runs[0][2][2] == d and co[0] == "tuple" and co[1][:1] == (d,) and fwd
            if good:
                ctx.ok(rule, construct, "body re-interpreted with the same axis size and dummy; dummy carried unchanged; length/reverse forwarded")
            else:
                ctx.bad(rule, construct, "scan re-issued with the dummy threaded through the carry and the same length/reverse", f"found body {short(body, ev, 200)}", loc)
        if "cond" in k:
            construct = "pjax.ModularVmap[cond]"
            sw = list(dict.fromkeys(e[2] for e in evs if e[1] == "call" and e[2][1] == N("jax.lax.switch")))
            good = len(sw) == 1 and len(sw[0][2]) == 4 and sw[0][2][2] == DUMMY
            if good:
                brs = sw[0][2][1]
                comps = [x for x in subterms(brs) if x[0] == "comp"]
                good = bool(comps) and all(v[0] == "partial" and v[1] == run and v[2][:1] == (AXS,) for c in comps for v in c[2])
            if good:
                ctx.ok(rule, construct, "switch over re-interpreted branches with the same axis size and dummy")
            else:
                ctx.bad(rule, construct, "switch(index, re-interpreted branches, dummy_arg, operands)", f"found {[short(x, ev, 200) for x in sw]}", loc)


def lowering_guard_terms(ctx, rule="GUARD-lowering"):
    """The lowering rule of InitialStylePrimitive, as a decision table over its four atomic conditions: it raises
    params['lowering_exception'] exactly when the exception is carried and enforcement is on and the warning override is off;
    nothing is lowered on that path."""
    from .c16 import bool_eval, bool_atoms, resolve_all
    import itertools
    ev = mk_ev(ctx)
    dotted = PJ + "InitialStylePrimitive.__init__"
    s = summarize(ctx, ev, dotted)
    loc = func_loc(ctx, dotted)
    construct = "pjax.InitialStylePrimitive.lowering"
    clo = s.env.get("lowering")
    ctx.need(clo is not None and clo[0] == "closure", "InitialStylePrimitive.lowering not found")
    PR = ("param", "params_")
    r = ev.apply_closure(clo, (("param", "c_"), ("star", ("param", "a_"))), ((None, PR),))
    # decided by replaying the rule's guarded events (first live raise wins) over the 16 situations: flag values × carried params
    from ..absint import Model, Opq, Unknown, Raised
    cevs = ev.last_closure_summary.events
    ctx.need(any(e[1] == "raise" for e in cevs) or any(x[0] == "raise" for x in subterms(r or NONE)), f"{construct}: no raise found in the lowering rule (anchor vanished)")
    problems = []
    EXC, WMSG = Opq("the-carried-exception"), "warn-text"
    for warn_flag, enforce, warn_in, exc_in in itertools.product([True, False], repeat=4):
        m = Model()
        m.bind(N(PJ + "lowering_warning"), warn_flag)
        m.bind(N(PJ + "enforce_lowering_exception"), enforce)
        pd = {"other": 1}
        if warn_in:
            pd["lowering_warning"] = WMSG
        if exc_in:
            pd["lowering_exception"] = EXC
        m.bind(PR, pd)
        raised = None
        try:
            for g, k, pl, ln, q in cevs:
                if k == "raise" and m.live(g):
                    raised = m.ev(pl)
                    break
            if raised is None and r is not None:
                v = m.ev(r)
                if isinstance(v, Raised):
                    raised = m.ev(v.what)
        except Unknown as e:
            raise AnalysisError(f"{construct}: cannot evaluate [{warn_flag}, {enforce}, {warn_in}, {exc_in}]: {e}")
        want = exc_in and enforce and not (warn_in and warn_flag)
        when = f"enforce={enforce}, exc_in={exc_in}, warn_flag={warn_flag}, warn_in={warn_in}"
        if (raised is not None) != want:
            problems.append(f"[{when}] should {'raise' if want else 'lower'} but {'raises' if raised is not None else 'lowers'}")
        elif raised is not None and raised != EXC:
            problems.append(f"[{when}] raises {raised!r} instead of the carried lowering exception")
    if problems:
        for p_ in dict.fromkeys(problems):
            ctx.bad(rule, construct, p_[:160], p_, loc)
    else:
        ctx.ok(rule, construct, "16 cases: raises the carried exception iff it is carried and enforced and the warning override is off")
    # flags: module-level constants, never written elsewhere
    m = ctx.p.modules["genjax.pjax"]
    for flag, want in (("enforce_lowering_exception", True), ("lowering_warning", False)):
        v = m.defs.get(flag)
        good = isinstance(v, ast.Constant) and v.value is want
        writes = []
        for mn, mm in ctx.p.modules.items():
            for n in ast.walk(mm.tree):
                if isinstance(n, (ast.Assign, ast.AugAssign, ast.AnnAssign)):
                    tg = n.targets if isinstance(n, ast.Assign) else [n.target]
                    for t in tg:
                        if (isinstance(t, ast.Name) and t.id == flag) or (isinstance(t, ast.Attribute) and t.attr == flag):
                            writes.append((mn, n.lineno))
                if isinstance(n, ast.Global) and flag in n.names:
                    writes.append((mn, n.lineno))
                if isinstance(n, ast.Call) and unp(n.func) in ("setattr",) and any(isinstance(a, ast.Constant) and a.value == flag for a in n.args):
                    writes.append((mn, n.lineno))
        if good and len(writes) == 1:
            ctx.ok("OWN-lowering-flags", f"pjax.{flag}", f"module constant {want}, no other writer")
        else:
            ctx.bad("OWN-lowering-flags", f"pjax.{flag}", "module-level constant, single writer", f"value={unp(v) if v is not None else None}, writers={writes}", "src/genjax/pjax.py")
    # registration and proxy forwarding (symbolic)
    regs = [e[2] for e in s.events if e[1] == "call" and e[2][1] == N("jax.interpreters.mlir.register_lowering")]
    if not any(r_[2] == (SELF, clo) for r_ in regs):
        ctx.bad(rule, "pjax.InitialStylePrimitive", "lowering registered", "mlir.register_lowering(self, lowering) missing", loc)
    ev2 = mk_ev(ctx)
    s2 = summarize(ctx, ev2, PJ + "PPPrimitive.__init__")
    clo2 = s2.env.get("lowering")
    if clo2 is None:
        # the rule registered for lowering, however it was built (e.g. by a forwarding-rule factory method)
        reg_ = [e[2][2][1] for e in s2.events if e[1] == "call" and e[2][1] == N("jax.interpreters.mlir.register_lowering") and len(e[2][2]) == 2]
        clo2 = reg_[0] if len(reg_) == 1 else None
    ok = clo2 is not None and clo2[0] == "closure"
    if ok:
        r2 = ev2.apply_closure(clo2, (("star", ("param", "a_")),), ((None, PR),))
        want = ("call", ("attr", ("attr", SELF, "prim"), "lowering"), (("star", ("param", "a_")),), ((None, ("attr", SELF, "params")), (None, PR)))
        hidden = s2.env.get(("attr", SELF, "params"))
        want2 = ("call", ("attr", ("param", "prim"), "lowering"), (("star", ("param", "a_")),), ((None, hidden), (None, PR))) if hidden else None
        regs2 = [e[2] for e in s2.events if e[1] == "call" and e[2][1] == N("jax.interpreters.mlir.register_lowering")]
        ok = (r2 == want or r2 == want2 or (is_call(r2) and r2[1][0] == "attr" and r2[1][2] == "lowering" and len(r2[3]) == 2 and r2[3][1] == (None, PR)
              and (r2[3][0][1] in (("attr", SELF, "params"), hidden, ("param", "params"))))) and any(x[2][1:] == (clo2,) or x[2] == (SELF, clo2) for x in regs2)
    if ok:
        ctx.ok(rule, "pjax.PPPrimitive.lowering", "forwards to the wrapped primitive's guard with the hidden params")
    else:
        ctx.bad(rule, "pjax.PPPrimitive.lowering", "forward with hidden params", f"found {short(r2, ev2, 200) if clo2 else None}", func_loc(ctx, PJ + "PPPrimitive.__init__"))


def isb_rule_functions(ctx):
    """The default rule functions of initial_style_bind, wherever they live: its nested defs and the module-level functions it references
    (transitively) — {kind: FunctionDef} for kind in impl/abstract/batch/jvp, recognised by the kind appearing in the function's name."""
    node, mod = fnode(ctx, PJ + "initial_style_bind")
    mod_funcs = {st.name: st for st in mod.tree.body if isinstance(st, ast.FunctionDef)}
    reach, todo = [], [node]
    seen = {id(node)}
    while todo:
        f = todo.pop()
        for n in ast.walk(f):
            if isinstance(n, ast.FunctionDef) and n is not f and id(n) not in seen:
                seen.add(id(n))
                reach.append(n)
            if isinstance(n, ast.Name) and n.id in mod_funcs and id(mod_funcs[n.id]) not in seen:
                seen.add(id(mod_funcs[n.id]))
                reach.append(mod_funcs[n.id])
                todo.append(mod_funcs[n.id])
    out = {}
    for f in reach:
        for kind in ("abstract", "batch", "jvp", "impl"):
            if kind in f.name and kind not in out and f.name not in ("initial_style_bind",):
                out[kind] = f
                break
    return out, mod


def sample_transform_rules(ctx, rule="OWN-keyless-impl"):
    """Who may evaluate the staged keyless implementation of a sampling site.  `initial_style_bind` gives every primitive default
    transformation rules that *re-trace `impl`* (eval of the staged Jaxpr — for a sampling site the KeylessWrapper's Jaxpr with the
    process-global counter key baked in as a constant): the default batch rule (batch_fun over impl) and the default JVP rule (ad.jvp over
    impl).  A rule that re-traces impl replaces the site by the sampler's own equations, so no sampling primitive is left for the lowering
    rule to reject or for Seed to rewrite.  For a sampling site every such default must therefore be overridden at the bind site (as the
    batch rule is) or consult the lowering policy before re-tracing.  (Necessary condition of C14's "through ... grad ... raises" and of
    C06's "depends on nothing but key and args".)"""
    ev = mk_ev(ctx)
    ev.inline_methods_on_ctor = False
    dotted = PJ + "create_sample_primitive"
    s = summarize(ctx, ev, dotted)
    loc = func_loc(ctx, dotted)
    if s.ret[0] != "closure":
        raise AnalysisError(f"{dotted}: binding closure not recognised")
    r = ev.apply_closure(s.ret, (("star", ("param", "a_")),), ((None, ("param", "kw_")),))
    binds = list(dict.fromkeys(x for x in subterms(r) if is_call(x, name=PJ + "initial_style_bind")))
    ctx.need(len(binds) >= 1, f"{dotted}: bind site not found (anchor vanished)")
    overridden = {k for b in binds for k, v in b[3] if k is not None}
    # default rules of initial_style_bind that re-trace impl
    rule_fns, mod = isb_rule_functions(ctx)
    defaults = {}
    for kind, f in rule_fns.items():
        names = {n.id for n in ast.walk(f) if isinstance(n, ast.Name)} | {a.arg for a in f.args.posonlyargs + f.args.args}
        consults = any(isinstance(n, ast.Constant) and n.value in ("lowering_exception", "lowering_warning") for n in ast.walk(f)) or \
            any(isinstance(n, ast.Raise) for n in ast.walk(f))
        defaults[kind] = ("impl" in names and kind != "impl", consults, f.lineno)
    ctx.need({"batch", "jvp"} <= set(defaults), "initial_style_bind: default batch/jvp rules not found (anchor vanished)")
    for name in ("batch", "jvp"):
        retraces, consults, ln = defaults[name]
        construct = f"pjax.create_sample_primitive[{name} rule]"
        if name in overridden:
            ctx.ok(rule, construct, f"{name} rule supplied at the bind site")
        elif not retraces or consults:
            ctx.ok(rule, construct, f"default {name} rule does not re-trace the keyless implementation unguarded")
        else:
            ctx.bad(rule, construct, f"the default {name} rule (re-traces the keyless implementation) is overridden or guarded for sampling sites",
                    f"sampling sites are bound without a {name}= rule, and initial_style_bind's default {name} rule re-traces impl: "
                    + ("differentiating through an unseeded site (jax.grad / jax.jvp / value_and_grad) inlines the keyless sampler's Jaxpr with the global-counter key as a "
                       "constant, so no sampling primitive is left — input: jax.jit(jax.value_and_grad(lambda x: normal.sample(x, 1.) * 2.))(0.) compiles without the lowering "
                       "error and returns the same draw on every call; seed(jax.grad(lambda x: normal.sample(x, 1.) ** 2))(key, 0.) gives different results for the same key"
                       if name == "jvp" else "vectorising a site replaces it by the batched keyless sampler"),
                    f"{mod.path}:{ln}")


def sample_bind_terms(ctx, rule="OWN-sample-bind"):
    """create_sample_primitive binds the configured primitive once, always with the lowering exception/warning, the batch rule and
    the flat keyful sampler (symbolic value of the returned `sample` closure)."""
    ev = mk_ev(ctx)
    ev.inline_methods_on_ctor = False
    dotted = PJ + "create_sample_primitive"
    s = summarize(ctx, ev, dotted)
    loc = func_loc(ctx, dotted)
    construct = "pjax.create_sample_primitive"
    CFG = ("param", "config")
    if s.ret[0] != "closure":
        ctx.bad(rule, construct, "returns the binding closure", f"found {short(s.ret, ev)}", loc)
        return
    A, KW = ("param", "a_"), ("param", "kw_")
    r = ev.apply_closure(s.ret, (("star", A),), ((None, KW),))
    binds = list(dict.fromkeys(x for x in subterms(r) if is_call(x, name=PJ + "initial_style_bind")))
    if len(binds) != 1:
        ctx.bad(rule, construct, "one bind site", f"{len(binds)} initial_style_bind calls", loc)
    else:
        b = binds[0]
        kw = dict((k, v) for k, v in b[3] if k is not None)
        fwd = [v for k, v in b[3] if k is None]
        problems = []
        if b[2] != (("attr", CFG, "primitive"),):
            problems.append(f"primitive = config.primitive (found {short(('tuple', b[2]), ev)})")
        exc = kw.get("lowering_exception")
        if not (exc is not None and is_call(exc, name=PJ + "LoweringSamplePrimitiveToMLIRException")):
            problems.append(f"carries a LoweringSamplePrimitiveToMLIRException (found {short(exc or NONE, ev, 80)})")
        if kw.get("lowering_warning") is None:
            problems.append("carries the lowering warning text")
        br = kw.get("batch")
        if not (br is not None and any(x == ("attr", call(N(PJ + "VmapBatchHandler"), CFG), "create_batch_rule") for x in subterms(br))):
            problems.append(f"batch rule from VmapBatchHandler(config) (found {short(br or NONE, ev, 100)})")
        fk = kw.get("flat_keyful_sampler")
        if not (fk is not None and is_call(fk) and fk[1] == ("attr", call(N(PJ + "FlatSamplerCache"), CFG), "get_flat_sampler") and fk[2] == (("star", A),) and fk[3] == ((None, KW),)):
            problems.append(f"flat keyful sampler staged for this call's arguments (found {short(fk or NONE, ev, 120)})")
        for f_ in ("keyful_sampler", "sample_shape", "support"):
            if kw.get(f_) != ("attr", CFG, f_):
                problems.append(f"{f_} = config.{f_}")
        if fwd != [("attr", CFG, "primitive_params")]:
            problems.append("forwards config.primitive_params (carries adev_prim)")
        # the staged implementation is the keyless wrapper; the final call applies the caller's arguments
        outer = [x for x in subterms(r) if is_call(x) and x[1] == b]
        if not (len(outer) == 1 and outer[0][2][:1] == (call(N(PJ + "KeylessWrapper"), CFG),)):
            problems.append("staged function = KeylessWrapper(config)")
        if not (is_call(r) and r[2] == (("star", A),) and r[3] == ((None, KW),)):
            problems.append("bound primitive applied to the caller's arguments")
        if problems:
            for p_ in problems:
                ctx.bad(rule, construct, p_[:120], p_, loc)
        else:
            ctx.ok(rule, construct, "every sampling site is bound with lowering_exception/lowering_warning/batch/flat_keyful_sampler")
    others = []
    for mn, mm in ctx.p.modules.items():
        for c in ast.walk(mm.tree):
            if isinstance(c, ast.Call) and unp(c.func) == "initial_style_bind" and c.args and unp(c.args[0]) in ("sample_p", "adev_sample_p"):
                others.append((mn, c.lineno))
            if isinstance(c, ast.Call) and unp(c.func) in ("sample_p.bind", "adev_sample_p.bind"):
                others.append((mn, c.lineno))
    if others:
        ctx.bad(rule, "sample_p/adev_sample_p", "bound outside create_sample_primitive", f"direct bind sites {others}", f"{others[0][0]}:{others[0][1]}")
    else:
        ctx.ok(rule, "sample_p/adev_sample_p", "no direct bind site outside create_sample_primitive")


def apply_rule_value(ctx, ev, cls_dotted, f, args, kwargs):
    """Apply the callable a factory method returned - a local closure, or a bound method of the same object (self._rule) - to argument
    terms; None if it is neither."""
    if f[0] == "closure":
        return ev.apply_closure(f, args, kwargs)
    if f[0] == "attr" and f[1] == SELF:
        look = ctx.p.lookup(cls_dotted + "." + f[2])
        if look is not None and look[0] == "method":
            sm = ev.eval_funcnode(look[1], look[2], cls_dotted + "." + f[2], cls=look[3].name if look[3] is not None else None, args=(SELF,) + tuple(args), kwargs=tuple(kwargs))
            ev.last_closure_summary = sm
            return sm.ret
    return None


def vmap_context_guard_terms(ctx, rule="GUARD-plain-vmap"):
    ev = mk_ev(ctx)
    dotted = PJ + "VmapBatchHandler.create_batch_rule"
    s = summarize(ctx, ev, dotted)
    loc = func_loc(ctx, dotted)
    construct = "pjax.VmapBatchHandler.batch_rule"
    VA, BA, PR = ("param", "va_"), ("param", "ba_"), ("param", "params_")
    r = apply_rule_value(ctx, ev, PJ + "VmapBatchHandler", s.ret, (VA, BA), ((None, PR),))
    if r is None:
        ctx.bad(rule, construct, "returns the batch rule", f"found {short(s.ret, ev)}", loc)
        return
    from .c16 import bool_eval, bool_atoms, resolve_all
    import itertools
    atoms = []
    for x in subterms(r):
        if x[0] == "ifexp":
            bool_atoms(x[1], atoms)
    names = {}
    for a in atoms:
        if a == ("cmp", "in", C("ctx"), PR):
            names[a] = "has"
        elif a in (("cmp", "==", ("idx", PR, C("ctx")), C("modular_vmap")), ("cmp", "==", ("call", ("attr", PR, "get"), (C("ctx"),), ()), C("modular_vmap"))):
            names[a] = "is_mv"
        else:
            raise AnalysisError(f"{construct}: unrecognised condition {short(a, ev)}")
    ctx.need("is_mv" in names.values(), f"{construct}: context test not found")
    bad = []
    for bits in itertools.product([True, False], repeat=len(atoms)):
        asg = dict(zip(atoms, bits))
        sem = {names[a]: v for a, v in asg.items()}
        leaf = resolve_all(r, asg)
        mv = sem.get("has", True) and sem["is_mv"]
        if mv:
            ok = is_call(leaf) and leaf[1] == ("attr", SELF, "_handle_modular_vmap") and leaf[2][:2] == (VA, BA)
        else:
            ok = leaf[0] == "raise"
        if not ok:
            bad.append(f"[modular_vmap context={mv}] found {short(leaf, ev, 120)}")
    if bad:
        for b in bad:
            ctx.bad(rule, construct, b[:120], "a sampling site under plain jax.vmap must raise; under modular_vmap it is re-bound: " + b, loc)
    else:
        ctx.ok(rule, construct, "raises on every path where ctx != 'modular_vmap'")


_CTX = []


def _logdensity_case(ev, outs, vm, batch_tree, in_tree, impl):
    problems = []
    if not vm:
        problems.append("the density is vmapped")
    for v in vm:
        if ev.kwget(v[3], "in_axes") != batch_tree and (len(v[2]) < 2 or v[2][1] != batch_tree):
            problems.append(f"jax.vmap(density, in_axes = tree rebuilt from batch_axes[num_consts:]) (found in_axes={short(ev.kwget(v[3], 'in_axes') or NONE, ev, 120)})")
        f = v[2][0] if v[2] else NONE
        if f != impl:
            if f[0] == "closure" or (f[0] == "attr" and f[1] == SELF):
                A_, K_ = ("param", "aa_"), ("param", "kk_")
                b = apply_rule_value(_CTX[0], ev, PJ + "LogDensityVmapHandler", f, (A_, K_), ()) if _CTX else ev.apply_closure(f, (A_, K_), ())
                if b != ("call", impl, (("star", A_),), ((None, K_),)):
                    problems.append(f"the site's own density is vmapped (found {short(b, ev, 120)})")
            else:
                problems.append(f"the site's own density is vmapped (found {short(f, ev, 80)})")
    # operands
    applied = [x for x in subterms(outs) if is_call(x) and is_call(x[1], name=PJ + "create_log_density_primitive")]
    for a in dict.fromkeys(applied):
        ops = tuple(y for x in a[2] for y in (x[1][1] if x[0] == "star" and x[1][0] in ("tuple", "list") else (x,)))
        ok = ops == (("star", in_tree),) or ops == (("idx", in_tree, C(0)), ("idx", in_tree, C(1)))
        if not ok:
            problems.append(f"applied to the operands rebuilt from vector_args[num_consts:] (found {short(('tuple', a[2]), ev, 160)})")
    if not applied:
        problems.append("re-bound as a log-density primitive")
    return problems


def logdensity_batch_terms(ctx, rule="ROLE-logdensity-batch"):
    """The log-density batch rule vmaps the site's own density with the in-axes tree rebuilt from this site's batch axes
    (constants skipped), applies it to the operands rebuilt the same way, and declares axis 0 iff some operand is batched."""
    ev = mk_ev(ctx)
    dotted = PJ + "LogDensityVmapHandler.create_batch_rule"
    s = summarize(ctx, ev, dotted)
    loc = func_loc(ctx, dotted)
    construct = "pjax.LogDensityVmapHandler.batch_rule"
    _CTX[:] = [ctx]
    VA, BA, PR = ("param", "va_"), ("param", "ba_"), ("param", "params_")
    r = apply_rule_value(ctx, ev, PJ + "LogDensityVmapHandler", s.ret, (VA, BA), ((None, PR),))
    if r is None:
        ctx.bad(rule, construct, "returns the batch rule", f"found {short(s.ret, ev)}", loc)
        return
    nc = ("idx", PR, C("num_consts"))
    tree = lambda seq: call(N("jax.tree_util.tree_unflatten"), ("idx", PR, C("in_tree")), ("idx", seq, ("slice", nc, NONE, NONE)))
    in_tree, batch_tree = tree(VA), tree(BA)
    impl = ("attr", ("attr", SELF, "config"), "log_density_impl")
    problems = []
    it = items(r)
    if it is None or len(it) != 2:
        raise AnalysisError(f"{construct}: return shape not recognised")
    outs0, axes = it
    from .util import resolve_deep
    YK = ("idx", PR, C("yes_kwargs"))
    for yk in (True, False):
        outs = resolve_deep(outs0, {YK: yk})
        vm = list(dict.fromkeys(x for x in subterms(outs) if is_call(x, name="jax.vmap")))
        problems += _logdensity_case(ev, outs, vm, batch_tree, in_tree, impl)
    ax = items(axes)
    n = call(N(PJ + "static_dim_length"), BA, call(N("builtins.tuple"), VA))
    n2 = call(N(PJ + "static_dim_length"), BA, VA)
    n3 = call(N(PJ + "static_dim_length"), BA, ("tuple", (("star", VA),)))
    if not (ax and len(ax) == 1 and ax[0] in (("ifexp", n, C(0), NONE), ("ifexp", n2, C(0), NONE), ("ifexp", n3, C(0), NONE))):
        problems.append(f"out axis 0 iff some operand is batched (found {short(axes, ev, 120)})")
    if problems:
        for p_ in dict.fromkeys(problems):
            ctx.bad(rule, construct, p_[:120], p_, loc)
    else:
        ctx.ok(rule, construct, "density vmapped with the in-axes tree rebuilt from this site's batch axes")


def nested_jaxpr_seeded_events(ctx, rule="OWN-nested-key-stream"):
    """In the cond and scan arms of Seed.eval_jaxpr_seed the equation's sub-jaxprs (params['branches'], params['jaxpr']) may only be
    turned into functions with jaxpr_as_fun and run through a *fresh* seed(...) on a sub-key: interpreting them with the current
    interpreter (self.eval_jaxpr_seed / self.eval), with jax's plain evaluator, or calling the un-seeded function makes the draws depend
    on the outer key stream (and, behind a concreteness test, makes eager and traced runs differ)."""
    ev = mk_ev(ctx)
    dotted = PJ + "Seed.eval_jaxpr_seed"
    s = summarize(ctx, ev, dotted)
    loc = func_loc(ctx, dotted)
    by = events_by_kind(s)
    ALLOWED = {PJ + "seed", "jax.extend.core.jaxpr_as_fun", "jax.core.jaxpr_as_fun", "jax.lax.switch", "jax.lax.cond", "jax.lax.scan",
               "builtins.tuple", "builtins.list", "builtins.len", "builtins.enumerate", "builtins.zip", "builtins.range", "builtins.reversed",
               "jax._src.util.split_list", "jax.tree_util.tree_leaves", "jax._src.util.safe_map"}
    for kind, key in (("cond", "branches"), ("scan", "jaxpr")):
        evs = [e for k, v in by.items() if kind in k for e in v]
        construct = f"pjax.Seed.eval_jaxpr_seed[{kind}]"
        ctx.need(bool(evs), f"{construct}: arm not found (anchor vanished)")
        # a module-level body function handed the sub-jaxpr — called directly, applied as a partial(...) term, or built with
        # functools.partial(F, jaxpr_as_fun(sub), …) — is judged by its own calls, evaluated on these arguments
        from .util import apply_fn_summary
        skip_partial = set()

        def is_sub(t):
            return t[0] == "idx" and is_const(t[2], key)

        def repo_fn(f):
            if f[0] == "name" and f[1].startswith("genjax.") and f[1] != PJ + "seed":
                look = ev.p.lookup(f[1])
                return look if look is not None and look[0] == "func" else None
            return None

        def expand_term(x, guards, depth=0):
            out = []
            if depth > 3 or not is_call(x) or x in skip_partial or not any(is_sub(y) for y in subterms(x)):
                return out
            r = None
            if x[1] == N("functools.partial") and x[2] and repo_fn(x[2][0]) is not None:
                a = repo_fn(x[2][0])[1].args
                given = tuple(x[2][1:])
                rest = tuple(("param", f"pa{i}_") for i in range(max(0, len(a.posonlyargs) + len(a.args) - len(given))))
                r = apply_fn_summary(ev, x[2][0], given + rest, tuple(x[3]))
            elif x[1][0] == "partial" and repo_fn(x[1][1]) is not None:
                r = apply_fn_summary(ev, x[1], tuple(x[2]), tuple(x[3]))
            elif repo_fn(x[1]) is not None:
                r = apply_fn_summary(ev, x[1], tuple(x[2]), tuple(x[3]))
            if r is not None:
                skip_partial.add(x)
                for q in r[1]:
                    out.append((guards, q[1], q[2], q[3]) + tuple(q[4:]))
                    if q[1] == "call":
                        out += expand_term(q[2], guards, depth + 1)
            return out
        expanded = []
        for e in evs:
            if e[1] == "call":
                for x in subterms(e[2]):
                    expanded += expand_term(x, e[0])
        for rec in ev.scans.values():
            for x in subterms(rec.get("body") or NONE):
                expanded += expand_term(x, ())
        evs = [e for e in evs if not (e[1] == "call" and e[2] in skip_partial)] + expanded

        bad = []
        seen_seed = False
        for e in evs:
            if e[1] != "call":
                continue
            t = e[2]
            if not any(is_sub(x) for x in subterms(t)):
                continue
            fn = t[1]
            # seed(f)(key, …): calling the seeded function is the intended consumer
            if is_call(fn, name=PJ + "seed"):
                seen_seed = True
                continue
            if fn[0] == "closure":
                continue
            if fn[0] == "name" and fn[1] in ALLOWED:
                if fn[1] == PJ + "seed":
                    seen_seed = True
                continue
            bad.append((t, e[3]))
        # un-seeded use of jaxpr_as_fun(...): as the callee of a call, or as an operand of anything but seed(...)
        for e in evs:
            if e[1] != "call":
                continue
            for x in subterms(e[2]):
                if not is_call(x):
                    continue
                asfun = lambda y: is_call(y) and y[1][0] == "name" and y[1][1].endswith("jaxpr_as_fun")
                if x in skip_partial:
                    continue
                if asfun(x[1]) or (any(asfun(a) for a in direct_args(x)) and not is_call(x, name=PJ + "seed")
                                   and not (x[1][0] == "name" and x[1][1] in ("builtins.tuple", "builtins.list"))):
                    bad.append((x, e[3]))
        pool = [e[2] for e in evs if e[1] == "call"] + [rec.get("body") or NONE for rec in ev.scans.values()]
        for t in pool:
            for x in subterms(t):
                if x in skip_partial:
                    continue
                if is_call(x, name=PJ + "seed") and any(is_sub(y) for y in subterms(x)):
                    seen_seed = True
                # the seeded function's own un-seeded twin inside a scan body / comprehension
                if is_call(x) and is_call(x[1]) and x[1][1][0] == "name" and x[1][1][1].endswith("jaxpr_as_fun") and any(is_sub(y) for y in subterms(x)):
                    bad.append((x, 0))
        if bad:
            t, ln = bad[0]
            ctx.bad(rule, construct, "sub-jaxprs run only through a fresh seed(...)", f"the equation's sub-jaxpr reaches {short(t, ev, 160)}: it is interpreted "
                    "outside a fresh seed(...) (outer key stream / unseeded), so its draws are not a function of the sub-key split off for this equation", f"{s.module.path}:{ln}")
        elif not seen_seed:
            ctx.bad(rule, construct, "sub-jaxprs run only through a fresh seed(...)", "no seed(...) of the equation's sub-jaxprs found in this arm", loc)
        else:
            ctx.ok(rule, construct, f"params[{key!r}] reaches only jaxpr_as_fun → seed(...)")
    # any arm (including ones added later): a sub-jaxpr taken from the equation's params must not be handed to JAX's plain evaluator or be
    # called un-seeded — Seed is an interpreter over equations, not a tracer: sampling sites in an inlined callee are then simply bound
    # (keyless impl with the counter key baked in at trace time) and the result no longer depends on the key
    def from_eqn(t):
        for x in subterms(t):
            if x[0] == "attr" and x[2] == "params" and x[1][0] == "iter":
                return True
            if is_call(x) and x[1][0] == "attr" and x[1][2] == "get_bind_params":
                return True
        return False
    plain = []
    for e in s.events:
        if e[1] != "call":
            continue
        t = e[2]
        fn = t[1]
        is_plain_eval = fn[0] == "name" and fn[1].rsplit(".", 1)[-1] in ("eval_jaxpr", "eval_jaxpr_transpose") and not fn[1].startswith(PJ)
        is_unseeded_call = is_call(fn) and fn[1][0] == "name" and fn[1][1].endswith("jaxpr_as_fun")
        if (is_plain_eval or is_unseeded_call) and from_eqn(t):
            plain.append((t, e[3]))
    if plain:
        t, ln = plain[0]
        ctx.bad(rule, "pjax.Seed.eval_jaxpr_seed[sub-jaxpr evaluation]", "sub-jaxprs of an equation are evaluated only by a seed interpreter",
                f"{short(t, ev, 160)} evaluates a sub-jaxpr of the equation with JAX's plain evaluator: sampling sites inside it escape the Seed interpreter, are bound "
                "unseeded (process-global counter key) when the seeded function runs eagerly, and never reach the lowering rule", f"{s.module.path}:{ln}")
    else:
        ctx.ok(rule, "pjax.Seed.eval_jaxpr_seed[sub-jaxpr evaluation]", "no arm hands an equation's sub-jaxpr to a plain evaluator")
    # stated as an observation only: a tracer/concreteness test in the interpreter means eager and traced runs take different paths
    tr = sorted({short(c, ev, 80) for e in s.events for c, v in e[0] if isinstance(c, tuple) and any(x[0] == "name" and x[1].split(".")[-1] in ("Tracer", "is_concrete") for x in subterms(c))})
    if tr:
        ctx.observe(rule, "pjax.Seed.eval_jaxpr_seed", f"dispatch depends on tracer-ness: {tr}")


def flat_sampler_staging(ctx, rule="ROLE-flat-sampler"):
    """The flat keyful sampler that `seed` substitutes for a sampling site is the shape-applied keyful sampler staged on exactly the
    site's own call - (key, *args, **kwargs) - so positional and keyword parameters reach the distribution the same way they do in
    the unseeded sampler and in logpdf; the flat wrapper evaluates the staged Jaxpr on (consts, remaining flat operands)."""
    ev = mk_ev(ctx)
    dotted = PJ + "FlatSamplerCache.get_flat_sampler"
    s = summarize(ctx, ev, dotted)
    loc = func_loc(ctx, dotted)
    construct = "pjax.FlatSamplerCache.get_flat_sampler"
    ARGS, KW = ("param", "args"), ("param", "kwargs")
    staged = [e[2] for e in s.events if e[1] == "call" and is_call(e[2][1]) and e[2][1][1] == ("attr", SELF, "_make_flat")]
    staged = list(dict.fromkeys(staged))
    ctx.need(len(staged) >= 1, f"{dotted}: staging call self._make_flat(...)(...) not found (anchor vanished)")
    problems = []
    for t in staged:
        f0 = t[1][2][0] if len(t[1][2]) == 1 else None
        # the shape-applied keyful sampler of a sampler config (whichever way the config reaches this method)
        is_kws = f0 is not None and is_call(f0) and f0[1][0] == "attr" and f0[1][2] == "get_keyful_sampler_with_shape" and not f0[2] and not f0[3]
        if not is_kws:
            problems.append(f"the staged function is {short(t[1][2][0] if t[1][2] else NONE, ev, 80)}, not the shape-applied keyful sampler")
        if t[2] != (N(PJ + "_fake_key"), ("star", ARGS)) or t[3] != ((None, KW),):
            problems.append(f"staged on {short(('tuple', t[2]), ev, 100)} {short(('dict', tuple((C(k), v) for k, v in t[3] if k is not None)), ev, 60) if any(k for k, _ in t[3]) else ''}"
                            "instead of (fake key, *args, **kwargs): keyword parameters (or their order) reach the distribution differently on the seeded path than in sample()/logpdf()")
    stored = s.env.get(("attr", SELF, "_flat_sampler"))
    if stored is None or not any(x == ("idx", t, C(0)) for t in staged for x in subterms(stored)):
        problems.append("the flat sampler returned/stored is not the first component of the staging result")
    if problems:
        ctx.bad(rule, construct, "flat sampler staged on (fake key, *args, **kwargs) of this call", "; ".join(dict.fromkeys(problems)), loc)
    else:
        ctx.ok(rule, construct, "keyful sampler with sample_shape applied, staged on (fake key, *args, **kwargs)")
    # _make_flat: stage f on its own call, evaluate the staged jaxpr on (consts, rest)
    dotted = PJ + "FlatSamplerCache._make_flat"
    s = summarize(ctx, ev, dotted)
    construct = "pjax.FlatSamplerCache._make_flat"
    clo = closure_in(s.ret)
    ctx.need(clo is not None, f"{dotted}: inner wrapper not found (anchor vanished)")
    A_, K_ = ("param", "a_"), ("param", "kw_")
    r = ev.apply_closure(clo, (("star", A_),), ((None, K_),))
    F = ("param", "f")
    st = ("call", call(N(PJ + "stage"), F), (("star", A_),), ((None, K_),))
    it = items(r)
    ok = it is not None and len(it) == 2 and it[0][0] in ("closure", "partial")
    why = f"returns {short(r, ev, 120)}"
    if ok:
        FA, PR = ("param", "fa_"), ("param", "pr_")
        from .util import apply_fn_summary as _afs
        rb = _afs(ev, it[0], (("star", FA),), ((None, PR),))
        b = rb[0] if rb is not None else NONE
        ok = is_call(b) and b[1][0] == "name" and b[1][1].split(".")[-1] == "eval_jaxpr" and any(x == st for x in subterms(b))
        why = f"flat(*flat_args, **params) = {short(b, ev, 160)}"
        if ok:
            # writer/reader protocol: Seed calls flat(sub_key, *operands, **inner_params) where the equation's operands are the constants of the
            # *keyless* staging (params['num_consts'] of them) followed by the site's flat arguments; the keyful staging has its own constants.
            from ..absint import Model, Opq, Unknown
            for nconst in (0, 1, 2):
                m = Model()
                ops = tuple(f"keyless-const{i}" for i in range(nconst)) + ("x0", "x1")
                m.bind(FA, ("KEY",) + ops)
                m.bind(PR, {"num_consts": nconst, "other": 2})
                m.funcs["jax._src.util.split_list"] = lambda l, ns: [list(l)[:ns[0]], list(l)[ns[0]:]]
                m.funcs["jax.util.split_list"] = m.funcs["jax._src.util.split_list"]

                class CJ:
                    model_attrs = {"jaxpr": Opq("J"), "consts": ["keyful-const"], "literals": ["keyful-const"]}
                cj = CJ()
                m.bind(st, (cj, Opq("meta")))
                m.bind(("idx", st, C(0)), cj)
                try:
                    args, kwargs = m.args_of(b)
                except Unknown as e:
                    raise AnalysisError(f"{construct}: cannot evaluate flat(): {e}")
                want_consts = ["keyful-const"] if nconst else None
                good = len(args) >= 2 and args[0] == Opq("J") and list(args[2:]) == ["KEY", "x0", "x1"] and not kwargs \
                    and (list(args[1]) == ["keyful-const"] or (nconst == 0 and list(args[1]) == []))
                if not good:
                    ok = False
                    why = (f"Seed calls flat(key, *operands, **params) with operands = {nconst} constant(s) of the keyless staging followed by the site's arguments; flat evaluates the "
                           f"keyful jaxpr with consts {list(args[1]) if len(args) > 1 else None!r} on {list(args[2:])!r} instead of its own constants on ('KEY', 'x0', 'x1'): a sampler that closes over an "
                           "array constant works unseeded but fails (or draws from the wrong operands) under seed; input: d = tfp_distribution(lambda s: tfd.Normal(loc_array, s)); seed(lambda: d.sample(1.))(key)")
                    break
    if ok:
        ctx.ok(rule, construct, "stage(f)(*args, **kwargs); flat(*flat_args) = eval_jaxpr(jaxpr, consts, *rest)")
    else:
        ctx.bad(rule, construct, "stage on the call's own arguments; evaluate on (consts, rest)", why, func_loc(ctx, dotted))

"""C13 distributions: documented parameters, matching sampler (structural clauses, DESIGN §4-C13)."""
from __future__ import annotations

import ast

from ..model import AnalysisError
from ..tfpsig import installed_signatures, FROZEN
from ..symeval import subterms
from .util import mk_ev, summarize, func_loc, short, N, C, is_call
from . import pjaxr
from .pjaxr import unp

EXPLANATION = ("Parameterisation table: for each of the 24 distributions the defining expression is resolved to a TFP class and a binding of genjax "
               "positionals to TFP constructor parameters (constructor signatures parsed statically from the installed TFP source), and compared with the "
               "documented parameterisation; docstring Args must name constructor parameters in order; sampler and density come from one constructor; "
               "sample_shape threading; ADEV estimators' keyless sampler, keyful sampler and density must resolve to the same class and binding.")

# genjax name -> (TFP class, parameters the leading positionals must bind to, required keyword bindings)
TABLE = {
    "bernoulli": ("Bernoulli", ["logits"], {}),
    "flip": ("Bernoulli", ["probs"], {"dtype": "jnp.bool_"}),
    "beta": ("Beta", ["concentration1", "concentration0"], {}),
    "categorical": ("Categorical", ["logits"], {}),
    "geometric": ("Geometric", ["logits"], {}),
    "normal": ("Normal", ["loc", "scale"], {}),
    "uniform": ("Uniform", ["low", "high"], {}),
    "exponential": ("Exponential", ["rate"], {}),
    "poisson": ("Poisson", ["rate"], {}),
    "multivariate_normal": ("MultivariateNormalFullCovariance", ["loc", "covariance_matrix"], {}),
    "dirichlet": ("Dirichlet", ["concentration"], {}),
    "binomial": ("Binomial", ["total_count", "logits"], {}),
    "gamma": ("Gamma", ["concentration", "rate"], {}),
    "log_normal": ("LogNormal", ["loc", "scale"], {}),
    "student_t": ("StudentT", ["df", "loc", "scale"], {}),
    "laplace": ("Laplace", ["loc", "scale"], {}),
    "half_normal": ("HalfNormal", ["scale"], {}),
    "inverse_gamma": ("InverseGamma", ["concentration", "scale"], {}),
    "weibull": ("Weibull", ["concentration", "scale"], {}),
    "cauchy": ("Cauchy", ["loc", "scale"], {}),
    "chi2": ("Chi2", ["df"], {}),
    "multinomial": ("Multinomial", ["total_count", "logits"], {}),
    "negative_binomial": ("NegativeBinomial", ["total_count", "logits"], {}),
    "zipf": ("Zipf", ["power"], {}),
}


def resolve_ctor(expr, sigs):
    """Resolve a constructor expression (tfd.Class or a lambda around tfd.Class(...)) to
    (class, [tfp param bound by positional i], {tfp param: source text of fixed keyword})."""
    if isinstance(expr, ast.Attribute) and isinstance(expr.value, ast.Name) and expr.value.id == "tfd":
        cls = expr.attr
        return cls, list(sigs.get(cls, [])), {}, None
    if isinstance(expr, ast.Lambda) and isinstance(expr.body, ast.Call) and isinstance(expr.body.func, ast.Attribute) and unp(expr.body.func.value) == "tfd":
        cls = expr.body.func.attr
        sig = sigs.get(cls, [])
        lam_params = [a.arg for a in expr.args.args]
        binding = {}
        fixed = {}
        for i, a in enumerate(expr.body.args):
            if isinstance(a, ast.Name) and a.id in lam_params and i < len(sig):
                binding[a.id] = sig[i]
        for k in expr.body.keywords:
            if isinstance(k.value, ast.Name) and k.value.id in lam_params:
                binding[k.value.id] = k.arg
            else:
                fixed[k.arg] = unp(k.value)
        # exact re-parameterisations (catalogue): N(loc, Sigma) written as MultivariateNormalTriL(loc, scale_tril=cholesky(Sigma)) — the form
        # TFP's deprecation notice for MultivariateNormalFullCovariance prescribes — is the covariance parameterisation, provided the
        # Cholesky factor is taken of the parameter itself (a jittered / scaled covariance is a different distribution and stays unbound)
        if cls == "MultivariateNormalTriL":
            tril = next((k.value for k in expr.body.keywords if k.arg == "scale_tril"), None)
            if tril is None and len(expr.body.args) >= 2:
                tril = expr.body.args[1]
            if isinstance(tril, ast.Call) and unp(tril.func).split(".")[-1] == "cholesky" and len(tril.args) == 1 and isinstance(tril.args[0], ast.Name) \
                    and tril.args[0].id in lam_params and all(kw.arg == "lower" and unp(kw.value) == "True" for kw in tril.keywords):
                binding[tril.args[0].id] = "covariance_matrix"
                fixed.pop("scale_tril", None)
                cls = "MultivariateNormalFullCovariance"
        return cls, [binding.get(p) for p in lam_params], fixed, lam_params
    return None


def resolve_def(ctx, mod, st, sigs):
    """Term-level resolution of a distribution definition `name = <expr>`: the right-hand side is evaluated with the symbolic evaluator at
    module level (private factory helpers are inlined, getattr(tfd, "X") is tfd.X), the tfp_distribution(constructor, ...) call is located
    in the value, and the constructor - a TFP class, a lambda, or a module-level function around tfd.Class(...) - is applied to its own
    parameters.  Returns (class, [tfp parameter bound by positional i], {fixed keyword: text}, lambda parameter names | None)."""
    from ..symeval import Frame, ts
    ev = mk_ev(ctx)
    fr = Frame(ev, mod, mod.name + ".<module>")
    try:
        val = ev.expr(st.value, fr)
    except Exception as e:   # noqa: BLE001
        raise AnalysisError(f"distributions.{unp(st.targets[0])}: definition not evaluable ({type(e).__name__}: {e})")
    calls = [x for x in subterms(val) if is_call(x) and x[1][0] == "name" and x[1][1].endswith("tfp_distribution")]
    if not calls:
        return None
    c = calls[0]
    ctor = c[2][0] if c[2] else dict(c[3]).get("dist")
    if ctor is None:
        return None

    def tfd_class(fn):
        if fn[0] == "name" and (".tfd." in fn[1] or fn[1].startswith("tfd.") or (".distributions." in fn[1] and not fn[1].startswith("genjax."))):
            return fn[1].rsplit(".", 1)[-1]
        return None
    cls = tfd_class(ctor)
    if cls is not None:
        return cls, list(sigs.get(cls, [])), {}, None
    # functools.partial(tfd.Class, <bound positionals>, <bound keywords>): the remaining constructor parameters, in order
    if ctor[0] == "partial" and tfd_class(ctor[1]) is not None and not any(a[0] == "star" for a in ctor[2]) and all(k is not None for k, _ in ctor[3]):
        cls = tfd_class(ctor[1])
        sig = list(sigs.get(cls, []))
        fixed = {sig[i]: ts(a, ev).replace("jax.numpy.", "jnp.") for i, a in enumerate(ctor[2]) if i < len(sig)}
        fixed.update({k: ts(v, ev).replace("jax.numpy.", "jnp.") for k, v in ctor[3]})
        return cls, [p_ for p_ in sig[len(ctor[2]):] if p_ not in dict(ctor[3])], fixed, None
    # a lambda / module-level function around tfd.Class(...)
    VA, KW = ("param", "__varargs__"), ("param", "__varkw__")
    if ctor[0] == "closure":
        node = ev.closures[ctor[1]].node
        lam_params = [a.arg for a in node.args.args]
        args_ = tuple(("param", p_) for p_ in lam_params) + ((("star", VA),) if node.args.vararg is not None else ())
        body = ev.apply_closure(ctor, args_, ((None, KW),) if node.args.kwarg is not None else ())
    elif ctor[0] == "name" and ctor[1].startswith("genjax."):
        look = ctx.p.lookup(ctor[1])
        if look is None or look[0] != "func":
            return None
        node = look[1]
        lam_params = [a.arg for a in node.args.args]
        args_ = tuple(("param", p_) for p_ in lam_params) + ((("star", VA),) if node.args.vararg is not None else ())
        body = ev.eval_funcnode(look[1], look[2], ctor[1], args=args_, kwargs=((None, KW),) if node.args.kwarg is not None else ()).ret
    else:
        return None
    if body is None or not is_call(body):
        return None
    cls = tfd_class(body[1])
    if cls is None:
        return None
    sig = sigs.get(cls, [])
    binding, fixed = {}, {}
    passthrough = None
    for i, a in enumerate(body[2]):
        if a[0] == "param" and a[1] in lam_params and i < len(sig):
            binding[a[1]] = sig[i]
        if a[0] == "star" and (a[1] == VA or (a[1][0] == "param" and node.args.vararg is not None and a[1][1] == node.args.vararg.arg)) and passthrough is None:
            # f(named..., *args) -> tfd.Class(named..., *args): the caller's further positionals continue the constructor's own order
            passthrough = i
    for k, v in body[3]:
        if k is None:
            continue
        if v[0] == "param" and v[1] in lam_params:
            binding[v[1]] = k
        else:
            fixed[k] = ts(v, ev).replace("jax.numpy.", "jnp.")
    # exact re-parameterisation (catalogue): N(loc, Sigma) written as MultivariateNormalTriL(loc, scale_tril=cholesky(Sigma)) is the covariance
    # parameterisation, provided the Cholesky factor is taken of the parameter itself (a jittered / scaled covariance is a different distribution)
    if cls == "MultivariateNormalTriL":
        tril = dict((k, v) for k, v in body[3] if k is not None).get("scale_tril") or (body[2][1] if len(body[2]) >= 2 else None)
        if tril is not None and is_call(tril) and tril[1][0] == "name" and tril[1][1].rsplit(".", 1)[-1] == "cholesky" and len(tril[2]) == 1 \
                and tril[2][0][0] == "param" and tril[2][0][1] in lam_params and all(k == "lower" and v == C(True) for k, v in tril[3]):
            binding[tril[2][0][1]] = "covariance_matrix"
            fixed.pop("scale_tril", None)
            cls = "MultivariateNormalFullCovariance"
    out = [binding.get(p_) for p_ in lam_params]
    if passthrough is not None and passthrough == len(lam_params):
        out = out + [p_ for p_ in sig[passthrough:]]
    return cls, out, fixed, lam_params


def docs_of(mod):
    """name -> (assignment, first docstring line, [Args names], docstring) for every module-level `name = <call>` followed by a docstring
    (the distribution definitions, however they are spelled)."""
    out = {}
    body = mod.tree.body
    for i, st in enumerate(body):
        if isinstance(st, ast.Assign) and isinstance(st.value, ast.Call) and len(st.targets) == 1 and isinstance(st.targets[0], ast.Name) \
                and i + 1 < len(body) and isinstance(body[i + 1], ast.Expr) and isinstance(body[i + 1].value, ast.Constant) and isinstance(body[i + 1].value.value, str):
            name = st.targets[0].id
            doc = None
            if i + 1 < len(body) and isinstance(body[i + 1], ast.Expr) and isinstance(body[i + 1].value, ast.Constant) and isinstance(body[i + 1].value.value, str):
                doc = body[i + 1].value.value
            args = []
            if doc and "Args:" in doc:
                for line in doc.split("Args:")[1].splitlines()[1:]:
                    if not line.strip():
                        break
                    if line.startswith("    ") and not line.startswith("        ") and ":" in line:
                        args.append(line.strip().split(":")[0])
            out[name] = (st, (doc or "").strip().splitlines()[0] if doc else "", args, doc or "")
    return out


def parameterisation(ctx, rule="TABLE-parameterisation"):
    mod = ctx.p.modules.get("genjax.distributions")
    ctx.need(mod is not None, "anchor vanished: genjax.distributions")
    sigs, origin = installed_signatures(sorted({v[0] for v in TABLE.values()} | {"MultivariateNormalDiag"}))
    ctx.observe(rule, "TFP signatures", origin)
    docs = docs_of(mod)
    ctx.need(len(docs) >= 24, f"only {len(docs)} tfp_distribution definitions found (floor 24)")
    for name, (cls_want, params_want, fixed_want) in TABLE.items():
        construct = f"distributions.{name}"
        if name not in docs:
            ctx.bad(rule, construct, "defined", f"{name} is not defined through tfp_distribution", mod.path)
            continue
        st, first, dargs, doc = docs[name]
        r = resolve_def(ctx, mod, st, sigs)
        if r is None:
            raise AnalysisError(f"{construct}: constructor expression {unp(st.value)[:80]} not recognised")
        cls, binding, fixed, lam = r
        loc = ctx.loc(mod, st)
        if cls != cls_want:
            ctx.bad(rule, construct, f"class {cls}", f"wraps tfd.{cls}, documented parameterisation needs tfd.{cls_want}", loc)
            continue
        got = binding[: len(params_want)]
        if got != params_want:
            ctx.bad(rule, construct, f"positional binding {got}", f"leading positional parameters bind to TFP {got}, the documented parameterisation is {params_want}", loc)
            continue
        badfix = {k: fixed.get(k) for k, v in fixed_want.items() if fixed.get(k) != v}
        if badfix:
            ctx.bad(rule, construct, f"fixed keywords {badfix}", f"expected {fixed_want}, found {fixed}", loc)
            continue
        ctx.ok(rule, construct, f"tfd.{cls}({', '.join(params_want)}{', ' + str(fixed_want) if fixed_want else ''})")
        # documentation agreement: Args names are constructor parameters, in constructor order (lambda params map through the binding)
        sig = sigs.get(cls, [])
        mapped = []
        for a in dargs:
            if lam and a in lam:
                mapped.append(binding[lam.index(a)])
            else:
                mapped.append(a)
        unknown = [a for a in mapped if a not in sig]
        order_ok = [a for a in mapped if a in sig] == [p for p in sig if p in mapped]
        if unknown:
            ctx.bad("DOC-parameters", construct, f"documents {unknown}",
                    f"docstring documents parameter(s) {unknown} that tfd.{cls}{tuple(sig[:4])} does not accept (passing them raises TypeError)", loc)
        elif not order_ok:
            ctx.bad("DOC-parameters", construct, f"documents order {mapped}", f"docstring order {mapped} differs from the constructor order {sig}", loc)
        else:
            ctx.ok("DOC-parameters", construct)
    # documented semantics of geometric: failures before the first success (TFP's convention)
    first = docs["geometric"][1]
    if "trials until" in first or "number of trials" in first:
        ctx.bad("DOC-parameters", "distributions.geometric (semantics)", "docstring says trials-until-success",
                "the docstring describes the number of trials until the first success; tfd.Geometric (and the property) count failures before the first success", ctx.loc(mod, docs["geometric"][0]))
    else:
        ctx.ok("DOC-parameters", "distributions.geometric (semantics)")
    # documented semantics of negative_binomial.total_count: tfd.NegativeBinomial counts successes before `total_count` *failures*;
    # describing total_count as the number of successes documents a different distribution (mean total_count*(1-p)/p instead of
    # total_count*p/(1-p)).  Only the contradiction is armed: the parameter's line calls it a number of successes and not of failures.
    nb = docs.get("negative_binomial")
    if nb is not None:
        line = next((ln_ for ln_ in nb[3].splitlines() if ln_.strip().startswith("total_count")), "")
        low = line.lower()
        if "success" in low and not any(w in low for w in ("failure", "unsuccessful", "negative")):
            ctx.bad("DOC-parameters", "distributions.negative_binomial (semantics)", "docstring calls total_count the number of successes",
                    "tfd.NegativeBinomial(total_count, probs) is the number of successes observed before `total_count` failures (logpdf(2., 3., probs=0.3) = log C(4,2) 0.3^2 0.7^3 = "
                    "-1.686); the docstring reads as the opposite convention, under which the same call would be -2.53", ctx.loc(mod, nb[0]))
        else:
            ctx.ok("DOC-parameters", "distributions.negative_binomial (semantics)")
    ctx.sample({"rule": rule, "signature_source": origin, "flip": "tfd.Bernoulli(probs=p, dtype=jnp.bool_)"})


def exports(ctx, rule="EXH-exports"):
    init = ctx.p.modules.get("genjax")
    ctx.need(init is not None, "anchor vanished: genjax/__init__.py")
    dist = ctx.p.modules["genjax.distributions"]
    names = set()
    for st in init.tree.body:
        if isinstance(st, ast.ImportFrom) and st.module and st.module.endswith("distributions"):
            names |= {a.name for a in st.names}
    missing = sorted(n for n in names if n not in dist.defs)
    ctx.need(len(names) >= 20, f"only {len(names)} distributions exported from genjax/__init__.py")
    if missing:
        ctx.bad(rule, "genjax.__init__", f"missing {missing}", f"exported distributions not defined: {missing}", init.path)
    else:
        ctx.ok(rule, "genjax.__init__", f"{len(names)} exported distributions all defined")


def adev_param_agreement(ctx, rule="SIB-estimator-parameterisation"):
    """For every ADEV distribution built with reinforce(sample, logpdf, keyful): the keyful sampler's TFP class and parameter
    binding agree with the base distribution's; for the primitive classes, sample_with_key agrees with sample."""
    mod = ctx.p.modules.get("genjax.adev")
    ctx.need(mod is not None, "anchor vanished: genjax.adev")
    dmod = ctx.p.modules["genjax.distributions"]
    sigs, origin = installed_signatures(sorted({v[0] for v in TABLE.values()} | {"MultivariateNormalDiag"}))
    docs = docs_of(dmod)

    def base_binding(name):
        st = docs[name][0]
        return resolve_def(ctx, dmod, st, sigs)

    from ..symeval import ts as _ts

    def keyful_binding(fn, dotted):
        """Decided on the evaluator's value of the keyful sampler (private helpers it delegates to are inlined):
        tfd.X(<site arguments>).sample(seed=key, sample_shape=sample_shape)  ->  (class, [tfp parameter of site argument i], fixed kwargs, sample kwargs)."""
        ev = mk_ev(ctx)
        s_ = summarize(ctx, ev, dotted)
        v = s_.ret
        if not (is_call(v) and v[1][0] == "attr" and v[1][2] == "sample" and is_call(v[1][1])):
            return None
        ctor = v[1][1]
        cname = ctor[1][1] if ctor[1][0] == "name" else (_ts(ctor[1]) if ctor[1][0] == "attr" else None)
        if cname is None or ".tfd." not in "." + cname and "distributions." not in cname:
            return None
        cls = cname.split(".")[-1]
        sig = sigs.get(cls, [])
        names = [a.arg for a in fn.args.posonlyargs + fn.args.args]
        if fn.args.vararg is not None:
            # method style: sample_with_key(self, key, *args, sample_shape=()) - site argument i is args[i]
            A = ("param", fn.args.vararg.arg)
            site = {}
            for i in range(4):
                site[("idx", A, C(i))] = i
            nsite = 1 + max([site[x] for x in subterms(ctor) if x in site] or [-1])
        else:
            ps = [n_ for n_ in names if n_ not in ("self", "key", "sample_shape")]
            site = {("param", n_): i for i, n_ in enumerate(ps)}
            nsite = len(ps)
        bind = [None] * nsite
        for i, a_ in enumerate(ctor[2]):
            if a_ in site and i < len(sig):
                bind[site[a_]] = sig[i]
        fixed = {}
        for k, val in ctor[3]:
            if val in site:
                bind[site[val]] = k
            elif k is not None:
                fixed[k] = short(val, ev, 60).replace("jnp.", "jnp.")
        kws = {}
        for k, val in v[3]:
            kws[k] = val[1] if val[0] == "param" else short(val, ev, 40)
        return cls, bind, fixed, kws

    n = 0
    # the estimators built with distribution(reinforce(sample, logpdf, keyful), logpdf) are found on the *value* of each module-level
    # definition (evaluated with the symbolic evaluator, private factory helpers inlined), not on its spelling
    from ..symeval import Frame, ts as _ts2
    CORE_ = "genjax.core."
    for name, node in mod.defs.items():
        if not isinstance(node, ast.Call):
            continue
        ev_ = mk_ev(ctx)
        try:
            val = ev_.expr(node, Frame(ev_, mod, mod.name + ".<module>"))
        except Exception:
            continue
        dcalls = [x for x in subterms(val) if is_call(x, name=CORE_ + "distribution") and x[2] and is_call(x[2][0], name="genjax.adev.reinforce")]
        if not dcalls:
            continue
        d = dcalls[0]
        n += 1
        r = d[2][0]
        construct = f"adev.{name}"
        loc = f"{mod.path}:{node.lineno}"

        def dotted(t):
            return t[1].replace("genjax.distributions.", "").replace("genjax.adev.", "") if t[0] == "name" else _ts2(t, ev_)
        rargs = list(r[2]) + [v for k, v in r[3] if k in ("keyful_sample_func",)]
        a = [dotted(x) for x in rargs]
        if len(a) != 3:
            ctx.bad(rule, construct, "reinforce(sample, logpdf, keyful)", f"found reinforce({', '.join(a)})", loc)
            continue
        base = a[0].split(".")[0]
        assess_lp = dotted(d[2][1]) if len(d[2]) > 1 else None
        if a[0] != f"{base}.sample" or a[1] != f"{base}.logpdf" or assess_lp != f"{base}.logpdf":
            ctx.bad(rule, construct, "sampler and densities from one base distribution", f"found sample={a[0]} logpdf={a[1]} assess-logpdf={assess_lp}", loc)
            continue
        kf = mod.defs.get(a[2])
        if not isinstance(kf, ast.FunctionDef) or base not in docs:
            raise AnalysisError(f"{construct}: keyful sampler {a[2]} or base distribution {base} not resolvable")
        kb = keyful_binding(kf, "genjax.adev." + a[2])
        bb = base_binding(base)
        if kb is None or bb is None:
            raise AnalysisError(f"{construct}: keyful sampler shape not recognised")
        kcls, kbind, kfixed, kkws = kb
        bcls, bbind, bfixed, _ = bb
        nb = len(kbind)
        if kcls != bcls or kbind != bbind[:nb] or {k: v for k, v in kfixed.items()} != {k: v for k, v in bfixed.items()}:
            ctx.bad(rule, construct, f"keyful {kcls}{kbind}{kfixed} vs base {bcls}{bbind[:nb]}{bfixed}",
                    f"the keyful sampler used under seed/modular_vmap draws from tfd.{kcls} with its positionals bound to {kbind} {kfixed}, while {base}.sample / {base}.logpdf "
                    f"bind them to {bbind[:nb]} {bfixed}: seeded draws and their score disagree", f"{mod.path}:{kf.lineno}")
        elif kkws.get("seed") != "key" or kkws.get("sample_shape") != "sample_shape":
            ctx.bad(rule, construct, "keyful sampler forwards key and sample_shape", f"found .sample({kkws})", f"{mod.path}:{kf.lineno}")
        else:
            ctx.ok(rule, construct, f"tfd.{kcls} with {kbind} in keyless sampler, keyful sampler and density")
    ctx.need(n >= 5, f"only {n} reinforce-built estimators found (floor 5)")
    # primitive classes: sample() vs sample_with_key()
    want = {"FlipEnum": ("flip", "Bernoulli"), "FlipMVD": ("flip", "Bernoulli"), "FlipEnumParallel": ("flip", "Bernoulli"),
            "CategoricalEnumParallel": ("categorical", "Categorical"), "NormalREPARAM": ("normal", "Normal"), "UniformREPARAM": ("uniform", "Uniform"),
            "MultivariateNormalREPARAM": ("multivariate_normal", "MultivariateNormalFullCovariance")}
    for cls, (base, tcls) in want.items():
        cnode = mod.defs.get(cls)
        if not isinstance(cnode, ast.ClassDef):
            raise AnalysisError(f"anchor vanished: adev.{cls}")
        meths = {f.name: f for f in cnode.body if isinstance(f, ast.FunctionDef)}
        construct = f"adev.{cls}"
        # own or inherited from a repo base class
        sw = meths.get("sample_with_key") or ctx.p.class_member(cnode, "sample_with_key", mod)
        sm = meths.get("sample") or ctx.p.class_member(cnode, "sample", mod)
        sw = sw if isinstance(sw, ast.FunctionDef) else None
        sm = sm if isinstance(sm, ast.FunctionDef) else None
        if sw is None or sm is None:
            ctx.bad(rule, construct, "sample and sample_with_key defined", "missing", f"{mod.path}:{cnode.lineno}")
            continue
        kb = keyful_binding(sw, f"genjax.adev.{cls}.sample_with_key")
        bb = base_binding(base)
        uses = [c for c in ast.walk(sm) if isinstance(c, ast.Call) and unp(c.func) == f"{base}.sample"]
        if kb is None or not uses:
            raise AnalysisError(f"{construct}: sampler shapes not recognised")
        kcls, kbind, kfixed, kkws = kb
        bcls, bbind, bfixed, _ = bb
        nb = len(kbind)
        if kcls != bcls or kbind != bbind[:nb] or kfixed != bfixed or kkws.get("seed") != "key" or kkws.get("sample_shape") != "sample_shape":
            ctx.bad(rule, construct, f"sample_with_key {kcls}{kbind}{kfixed} vs {base} {bcls}{bbind[:nb]}{bfixed}",
                    f"sample_with_key draws from tfd.{kcls}{kbind}{kfixed} while sample() uses {base}.sample = tfd.{bcls}{bbind[:nb]}{bfixed}", f"{mod.path}:{sw.lineno}")
        else:
            ctx.ok(rule, construct, f"sample and sample_with_key both tfd.{kcls}{kbind}")


RULES = [parameterisation, exports, pjaxr.sample_shape_threading, pjaxr.flat_sampler_staging, pjaxr.vmap_lane_randomness, adev_param_agreement]
FLOOR = 40

"""ADEV interpreter and Dual helpers, decided by finite-model evaluation of the symbolic evaluator's terms (absint).

The interpreter's arms (ADEV sample site, plain sample site, cond, default JVP) are evaluated on a model equation: the
equation's inputs are concrete lists of Dual values over opaque atoms, the primitive's parameters are concrete dicts, JAX's
own entry points (primitive_jvps.get, the jvp rule, bind, tree_unflatten) and the repository's one-line helpers are modelled
by reference functions, and the value the arm returns / writes back is compared with the contract.  The Dual helpers are checked
against the same reference functions first (assume-guarantee), so the interpreter rules do not depend on how they are written."""
from __future__ import annotations

import itertools

from ..absint import Model, Opq, Atom, Some, Raised, Unknown, ModelError, TreeDef, truth
from ..model import AnalysisError
from ..symeval import subterms, is_const, C, NONE
from .util import mk_ev, summarize, func_loc, short, is_call, items, N, call

AD = "genjax.adev."
PJ = "genjax.pjax."


class DualV:
    """Model of a Dual number (a pytree node with children primal, tangent)."""
    model_class = "Dual"

    def __init__(self, p, t):
        self.p, self.t = p, t
        self.model_attrs = {"primal": p, "tangent": t}

    def __eq__(self, o):
        return isinstance(o, DualV) and _eq(self.p, o.p) and _eq(self.t, o.t)

    def __ne__(self, o):
        return not self.__eq__(o)

    def __hash__(self):
        return hash(("DualV", repr(self.p), repr(self.t)))

    def __repr__(self):
        return f"Dual({self.p!r}, {self.t!r})"

    def tree_children(self):
        return [self.p, self.t], lambda xs: DualV(xs[0], xs[1])


def _eq(a, b):
    if isinstance(a, (list, tuple)) and isinstance(b, (list, tuple)):
        return len(a) == len(b) and all(_eq(x, y) for x, y in zip(a, b))
    if isinstance(a, (list, tuple)) or isinstance(b, (list, tuple)):
        return False
    if isinstance(a, dict) and isinstance(b, dict):
        return set(a) == set(b) and all(_eq(a[k], b[k]) for k in a)
    try:
        return bool(a == b)
    except Unknown:
        return False


def zero(v):
    return Opq("zero_tangent_like", v)


def is_dualv(v):
    return isinstance(v, DualV)


def make_model(ev, zeroset=(), jvps=None):
    """Model with the reference semantics of the Dual helpers and of the JAX entry points the interpreter uses."""
    m = Model(evaluator=ev)

    def tree_pure(v):
        return m.tree_map(lambda x: x if is_dualv(x) else DualV(x, zero(x)), [v], is_dualv)

    def tree_primal(v):
        return m.tree_map(lambda x: x.p if is_dualv(x) else x, [v], is_dualv)

    def tree_tangent(v):
        return m.tree_map(lambda x: x.t if is_dualv(x) else x, [v], is_dualv)

    def tree_leaves(v):
        return m.tree_flatten(tree_pure(v), is_dualv)

    def tree_unzip(v):
        return tuple(m.tree_flatten(tree_primal(v))), tuple(m.tree_flatten(tree_tangent(v)))

    def dual_tree(ps, ts):
        return m.tree_map(lambda a, b: DualV(a, b), [ps, ts])

    def flat_unzip(ds):
        return [d.p for d in ds], [d.t for d in ds]

    def jtu_leaves(v, is_leaf=None):
        return m.tree_flatten(v, is_leaf)

    def unflatten(td, leaves):
        if isinstance(td, TreeDef):
            return td.unflatten(leaves)
        return Opq("tree_unflatten", td, tuple(leaves))

    def unzip2(pairs):
        pairs = list(pairs)
        return tuple(p[0] for p in pairs), tuple(p[1] for p in pairs)

    def jtu_map(f, *trees, is_leaf=None):
        return m.tree_map(lambda *xs: m.apply_value(f, list(xs)), list(trees), is_leaf)

    m.funcs.update({
        AD + "Dual": lambda p, t: DualV(p, t),
        AD + "Dual.tree_pure": tree_pure, AD + "Dual.tree_primal": tree_primal, AD + "Dual.tree_tangent": tree_tangent,
        AD + "Dual.tree_leaves": tree_leaves, AD + "Dual.tree_unzip": tree_unzip, AD + "Dual.dual_tree": dual_tree,
        AD + "Dual.static_check_is_dual": is_dualv,
        AD + "ADEV.flat_unzip": flat_unzip,
        AD + "_zero_tangent_like": zero, AD + "_discrete_zero_tangent": zero,
        AD + "_canonicalize_tangent_for_primitive_jvp": lambda p, t: Opq("canonical", p, t),
        AD + "_is_ad_zero": lambda x: any(_eq(x, z) for z in zeroset),
        AD + "_instantiate_zero_tangents": lambda x: m.tree_map(lambda y: Opq("instantiated", y), [x]),
        "jax.tree_util.tree_leaves": jtu_leaves, "jax.tree.leaves": jtu_leaves,
        "jax.tree_util.tree_unflatten": unflatten, "jax.tree.unflatten": unflatten,
        "jax.tree_util.tree_map": jtu_map, "jax.tree.map": jtu_map,
        "jax._src.util.unzip2": unzip2, "jax.util.unzip2": unzip2,
    })
    m.ref = dict(tree_pure=tree_pure, tree_primal=tree_primal, tree_tangent=tree_tangent, tree_leaves=tree_leaves, tree_unzip=tree_unzip, dual_tree=dual_tree)
    return m


# ================================================================================================ Dual helpers against the reference
def dual_helpers_rule(ctx, rule="ROLE-dual-helpers"):
    a = [Atom("x", i) for i in range(6)]
    t = [Atom("dx", i) for i in range(6)]
    mixed = [DualV(a[0], t[0]), a[1], (DualV(a[2], t[2]), {"k": a[3]})]
    alld = [DualV(a[0], t[0]), (DualV(a[1], t[1]), {"k": DualV(a[2], t[2])})]
    ps, ts = [a[0], (a[1], {"k": a[2]})], [t[0], (t[1], {"k": t[2]})]
    flatd = [DualV(a[i], t[i]) for i in range(3)]
    cases = [
        ("Dual.tree_pure", {"v": mixed}, lambda m: m.ref["tree_pure"](mixed), "non-Dual leaves lifted with a zero tangent shaped like the value; Dual leaves kept"),
        ("Dual.tree_primal", {"v": mixed}, lambda m: m.ref["tree_primal"](mixed), "Dual leaves replaced by their primal"),
        ("Dual.tree_tangent", {"v": alld}, lambda m: m.ref["tree_tangent"](alld), "Dual leaves replaced by their tangent"),
        ("Dual.dual_tree", {"primals": ps, "tangents": ts}, lambda m: m.ref["dual_tree"](ps, ts), "leafwise Dual(primal, tangent)"),
        ("Dual.tree_leaves", {"v": mixed}, lambda m: m.ref["tree_leaves"](mixed), "flat list of Dual leaves (non-Dual leaves lifted)"),
        ("Dual.tree_unzip", {"v": alld}, lambda m: m.ref["tree_unzip"](alld), "(primal leaves, tangent leaves)"),
        ("ADEV.flat_unzip", {"duals": flatd}, lambda m: ([d.p for d in flatd], [d.t for d in flatd]), "(primals, tangents) of a flat list of Duals"),
    ]
    for name, binds, want, what in cases:
        ev = mk_ev(ctx)
        dotted = AD + name
        s = summarize(ctx, ev, dotted)
        m = make_model(ev)
        # the helper under test is evaluated from its own code, the others from the reference
        m.funcs.pop(dotted, None)
        for k, v in binds.items():
            m.bind(("param", k), v)
        try:
            got = m.ev(s.ret)
            exp = want(m)
        except Unknown as e:
            raise AnalysisError(f"adev.{name}: cannot evaluate on the model tree: {e}")
        if _eq(got, exp):
            ctx.ok(rule, f"adev.{name}", what)
        else:
            ctx.bad(rule, f"adev.{name}", what, f"on {list(binds.values())!r}: expected {exp!r}, found {got!r}", func_loc(ctx, dotted))
    # the zero-tangent helpers themselves (term equality: one-liners over JAX's AD module)
    ev = mk_ev(ctx)
    s = summarize(ctx, ev, AD + "_zero_tangent_like")
    want = call(N("jax.interpreters.ad.instantiate_zeros"), call(N("jax.interpreters.ad.Zero.from_primal_value"), ("param", "v")))
    if s.ret == want:
        ctx.ok("ROLE-default-jvp", "adev._zero_tangent_like", "zero with the primal's shape and tangent dtype")
    else:
        ctx.bad("ROLE-default-jvp", "adev._zero_tangent_like", "instantiate_zeros(Zero.from_primal_value(v))", f"found {short(s.ret, ev)}", func_loc(ctx, AD + "_zero_tangent_like"))
    s = summarize(ctx, ev, AD + "_discrete_zero_tangent")
    if s.ret == call(N(AD + "_zero_tangent_like"), ("param", "v")):
        ctx.ok("ROLE-default-jvp", "adev._discrete_zero_tangent")
    else:
        ctx.bad("ROLE-default-jvp", "adev._discrete_zero_tangent", "forwards to _zero_tangent_like", f"found {short(s.ret, ev)}", func_loc(ctx, AD + "_discrete_zero_tangent"))
    # canonicalisation table: Zero stays, float0 -> Zero.from_primal_value(primal), anything else unchanged.  The model enumerates the
    # well-typed (primal dtype, tangent kind) pairs of JAX's AD: an inexact primal (float32, bfloat16, complex64) carries a symbolic Zero or
    # an ordinary tangent of its own dtype; a discrete primal (int32, bool) carries a symbolic Zero or a float0 array.  dtype queries the
    # helper may make on either operand (result_type / .dtype / issubdtype / primal_dtype_to_tangent_dtype) are answered from NumPy's
    # abstract dtype lattice for the modelled kind.
    s = summarize(ctx, ev, AD + "_canonicalize_tangent_for_primitive_jvp")
    P_, T_ = ("param", "primal"), ("param", "tangent")
    good = True
    detail = ""
    LATTICE = {"float32": {"floating", "inexact", "number", "generic"}, "bfloat16": {"floating", "inexact", "number", "generic"},
               "complex64": {"complexfloating", "inexact", "number", "generic"},
               "int32": {"signedinteger", "integer", "number", "generic"}, "bool": {"bool_", "generic", "bool"}, "float0": {"generic", "void"}}

    class DT(Atom):
        def __init__(self, kind):
            super().__init__("dtype", kind)
            self.kind = kind

    class Val(Atom):
        def __init__(self, name, kind):
            super().__init__(name, kind)
            self.model_attrs = {"dtype": DT(kind)}

    def dtype_of(x):
        if isinstance(x, DT):
            return x
        if isinstance(x, Val):
            return x.model_attrs["dtype"]
        raise Unknown(f"dtype of {x!r}")

    def issub(d, cls):
        d = dtype_of(d)
        if isinstance(cls, tuple):
            return any(issub(d, c) for c in cls)
        nm = cls.parts[1].rsplit(".", 1)[-1] if isinstance(cls, Opq) and cls.parts[:1] == ("name",) else None
        if nm is None:
            raise Unknown(f"issubdtype against {cls!r}")
        return nm in LATTICE[d.kind] or nm == d.kind

    def tangent_dtype(d):
        d = dtype_of(d)
        return d if "inexact" in LATTICE[d.kind] else DT("float0")
    cases = []
    for pk in ("float32", "bfloat16", "complex64"):
        cases += [(pk, "zero"), (pk, "ordinary")]
    for pk in ("int32", "bool"):
        cases += [(pk, "zero"), (pk, "float0")]
    for pk, tk in cases:
        m = Model(evaluator=ev)
        pv = Val("p", pk)
        tv = Val("t", pk if tk == "ordinary" else "float0") if tk != "zero" else Atom("symbolic-zero")
        m.bind(P_, pv)
        m.bind(T_, tv)
        isz, isf = tk == "zero", tk == "float0"
        m.funcs[AD + "_is_ad_zero"] = lambda x, isz=isz, tv=tv: isz if x is tv else False
        m.funcs[AD + "_is_float0_tangent"] = lambda x, isf=isf, tv=tv: isf if x is tv else False
        m.funcs["jax.interpreters.ad.Zero.from_primal_value"] = lambda x: Opq("Zero", x)
        for nm in ("jax.numpy.result_type", "jax.dtypes.result_type", "numpy.result_type", "jax.numpy.dtype", "numpy.dtype", "jax.dtypes.dtype"):
            m.funcs[nm] = lambda x, *a, **k: dtype_of(x)
        for nm in ("jax.numpy.asarray", "jax.numpy.array", "numpy.asarray", "jax._src.core.get_aval", "jax.core.get_aval", "jax.typeof", "jax._src.core.typeof",
                   "jax.api_util.shaped_abstractify", "jax._src.api_util.shaped_abstractify", "jax.core.raise_to_shaped"):
            # the abstract value of a model value carries the same dtype: the model value stands for it
            m.funcs[nm] = lambda x, *a, **k: x
        for nm in ("jax.numpy.issubdtype", "jax.dtypes.issubdtype", "numpy.issubdtype"):
            m.funcs[nm] = issub
        for nm in ("jax.dtypes.primal_dtype_to_tangent_dtype", "jax._src.dtypes.primal_dtype_to_tangent_dtype", "jax._src.core.primal_dtype_to_tangent_dtype"):
            m.funcs[nm] = tangent_dtype
        for nm in ("jax.numpy.iscomplexobj", "numpy.iscomplexobj"):
            m.funcs[nm] = lambda x: dtype_of(x).kind.startswith("complex")
        m.bind(N("jax.dtypes.float0"), DT("float0"))
        m.bind(N("jax.numpy.float0"), DT("float0"))
        try:
            got = m.ev(s.ret)
        except Unknown as e:
            raise AnalysisError(f"adev._canonicalize_tangent_for_primitive_jvp: cannot evaluate: {e}")
        want_v = tv if tk != "float0" else Opq("Zero", pv)
        if not _eq(got, want_v):
            good = False
            detail = (f"[{pk} primal, {'symbolic Zero' if isz else ('float0' if isf else 'ordinary ' + pk)} tangent] gives {got!r}, expected {want_v!r}"
                      + (": the tangent of an inexact (differentiable) value is discarded, so every derivative flowing through it becomes 0" if tk == "ordinary" else ""))
            break
    if good:
        ctx.ok("ROLE-default-jvp", "adev._canonicalize_tangent_for_primitive_jvp", f"{len(cases)} (primal dtype, tangent kind) pairs: Zero stays, float0 → Zero.from_primal_value(primal), ordinary tangents unchanged")
    else:
        ctx.bad("ROLE-default-jvp", "adev._canonicalize_tangent_for_primitive_jvp", "canonicalisation table", detail, func_loc(ctx, AD + "_canonicalize_tangent_for_primitive_jvp"))


# ================================================================================================ the interpreter
class Interp:
    def __init__(self, ctx):
        self.ctx = ctx
        self.ev = ev = mk_ev(ctx)
        # the function that owns the equation loop: ADEV.eval_jaxpr_adev itself, or a module-level function of genjax.adev it hands the
        # program to (the loop hoisted out of the method)
        def find_inv(s):
            calls = [e[2] for e in s.events if e[1] == "call"]
            inv = [t for t in calls if t[1][0] == "name" and t[1][1].split(".")[-1] in ("safe_map", "map") and len(t[2]) == 2 and t[2][1][0] == "attr" and t[2][1][2] == "invars"
                   and any(isinstance(c, tuple) and c and c[0] == "loop" for e in s.events if e[2] is t for c, _ in e[0])
                   and any(u[1] == ("attr", ("attr", t[2][1][1], "primitive"), "get_bind_params") for u in calls)
                   and any(is_call(u, name=PJ + "PPPrimitive.unwrap") and u[2] == (("attr", t[2][1][1], "primitive"),) for u in calls)]
            return calls, inv
        self.dotted = AD + "ADEV.eval_jaxpr_adev"
        self.s = s = summarize(ctx, ev, self.dotted)
        calls, inv = find_inv(s)
        if not inv:
            cands = list(dict.fromkeys(x[1][1] for t in calls for x in subterms(t) if is_call(x) and x[1][0] == "name" and x[1][1].startswith(AD)
                                       and (ctx.p.lookup(x[1][1]) or (None,))[0] == "func"))
            for d in cands:
                ev2 = mk_ev(ctx)
                try:
                    s2 = summarize(ctx, ev2, d)
                except AnalysisError:
                    continue
                c2, i2 = find_inv(s2)
                if i2:
                    self.ev = ev = ev2
                    self.dotted, self.s, s, calls, inv = d, s2, s2, c2, i2
                    break
        self.loc = func_loc(ctx, self.dotted)
        ctx.need(bool(inv), "ADEV.eval_jaxpr_adev: read of the equation's inputs not found (anchor vanished)")
        self.INVALS = inv[0]
        self.EQN = inv[0][2][1][1]
        self.ENV = inv[0][2][0][1]
        gbp = [t for t in calls if t[1] == ("attr", ("attr", self.EQN, "primitive"), "get_bind_params")]
        ctx.need(bool(gbp), "ADEV.eval_jaxpr_adev: get_bind_params not found (anchor vanished)")
        self.GBP = gbp[0]
        unw = [t for t in calls if is_call(t, name=PJ + "PPPrimitive.unwrap") and t[2] == (("attr", self.EQN, "primitive"),)]
        ctx.need(bool(unw), "ADEV.eval_jaxpr_adev: PPPrimitive.unwrap not found (anchor vanished)")
        self.UNW = unw[0]
        # loop id of the equation loop
        it = [x for x in subterms(self.EQN) if x[0] == "iter"]
        ctx.need(bool(it), "ADEV.eval_jaxpr_adev: equation loop not found (anchor vanished)")
        self.ITER = it[0]
        self.lid = it[0][1]
        self.enumerated = is_call(self.ITER[2]) and self.ITER[2][1] == ("name", "builtins.enumerate")
        self.EQNS = self.ITER[2][2][0] if self.enumerated else self.ITER[2]
        self.IDX = ("idx", self.ITER, C(0)) if self.enumerated else None
        # the frame that owns the equation loop (returns of inlined helpers are not exits of the interpreter)
        lq = [e[4] for e in s.events if e[1] == "loop" and e[2][0] == self.lid]
        self.frame = lq[0] if lq else None

    def in_loop(self, g):
        return any(isinstance(c, tuple) and c and c[0] == "loop" and c[1] == self.lid for c, _ in g)

    def model(self, prim, eqn_prim, params, inner, invals, **kw):
        m = make_model(self.ev, **kw)
        m.bind(self.UNW, (prim, inner))
        m.bind(("attr", self.EQN, "primitive"), eqn_prim)
        m.bind(self.GBP, ([], params))
        m.bind(("attr", self.EQN, "params"), params)
        m.bind(self.INVALS, invals)
        m.bind(("attr", self.EQN, "outvars"), Opq("outvars"))
        if self.IDX is not None:
            m.bind(self.IDX, 3)
        m.bind(self.EQNS, ["e0", "e1", "e2", "e3", "e4", "e5"])
        m.bind(("attr", ("attr", self.EQN, "primitive"), "multiple_results"), False)
        return m

    def first_exit(self, m):
        """('return', value) / ('raise', value) of the first live return/raise inside the equation loop, or None."""
        for g, k, pl, ln, q in self.s.events:
            if k not in ("return", "raise") or not self.in_loop(g) or (k == "return" and self.frame is not None and q != self.frame):
                continue
            if m.live(g):
                return k, (m.ev(pl) if pl is not None else None), ln
        return None

    def live_calls(self, m, pred):
        out = []
        for g, k, pl, ln, q in self.s.events:
            if k == "call" and self.in_loop(g) and pred(pl) and m.live(g):
                out.append(pl)
        return out


def PRIMV(name):
    return Opq("name", name)


def kont_target(ev, clo_val, nargs_terms):
    """First call a continuation closure makes to one of the interpreter's own evaluation loops: (callee closure name, argument terms)."""
    r = ev.apply_closure(("closure", clo_val.parts[1]), nargs_terms, ())
    evs = ev.last_closure_summary.events
    for g, k, pl, ln, q in evs:
        if k == "call" and pl[1][0] == "closure":
            cl = ev.closures.get(pl[1][1])
            if cl is not None and cl.qual.split(".")[-1].startswith("eval_jaxpr_iterate"):
                return cl.qual.split(".")[-1], pl[2], g
        # the evaluation loops hoisted to module level: a private function of genjax.adev named for the mode it evaluates in
        if k == "call" and pl[1][0] == "name" and pl[1][1].startswith(AD) and (ev.p.lookup(pl[1][1]) or (None,))[0] == "func":
            nm = pl[1][1].split(".")[-1]
            for which in ("pure", "dual"):
                if "eval" in nm and which in nm and len(pl[2]) >= 4 and not pl[3]:
                    return f"eval_jaxpr_iterate_{which}", pl[2][:4], g
    return None, None, None


def interpreter_rule(ctx, rule="ROLE-adev-interpreter"):
    I = Interp(ctx)
    ev = I.ev
    construct = "adev.ADEV.eval_jaxpr_adev"
    a = [Atom("x", i) for i in range(4)]
    t = [Atom("dx", i) for i in range(4)]
    PRIM = Opq("the-site-estimator")
    problems = {}

    def bad(key, what):
        problems.setdefault(key, what)

    seen_site = None
    for kind, yes_kwargs, shape in itertools.product(("args", "kwargs", "single"), (None, True, False), ((), (4,))):
        if (kind == "kwargs") != bool(yes_kwargs):
            continue
        # operands: one closed-over constant, then the site's own arguments
        nargs = {"args": 2, "kwargs": 3, "single": 1}[kind]
        invals = [DualV(Atom("const"), Atom("dconst"))] + [DualV(a[i], t[i]) for i in range(nargs)]
        inner = {"adev_prim": PRIM, "in_tree": TreeDef(kind), "num_consts": 1}
        if yes_kwargs is not None:
            inner["yes_kwargs"] = yes_kwargs
        if shape:
            inner["sample_shape"] = shape
        m = I.model(PRIMV(PJ + "adev_sample_p"), Opq("wrapped"), {}, inner, invals)
        try:
            ex = I.first_exit(m)
        except Unknown as e:
            raise AnalysisError(f"{construct}[adev_sample_p]: cannot evaluate the arm ({kind}, yes_kwargs={yes_kwargs}, sample_shape={shape}): {e}")
        if ex is None or ex[0] != "return":
            bad("adev_sample_p sites are interpreted", f"an ADEV sample site ({kind}) does not return the site estimator's result (found {ex})")
            continue
        v = ex[1]
        ok = isinstance(v, Opq) and v.parts[:1] == ("call",) and v.parts[1] == Opq("attr", PRIM, "prim_jvp_estimate") and len(v.parts[2]) == 2 and not v.parts[3]
        if not ok:
            bad("site estimator receives (dual args, (kpure, kdual))", f"the site returns {v!r}")
            continue
        duals, konts = v.parts[2]
        npos = 2 if kind in ("args", "kwargs") else 1
        want = [DualV(a[i], t[i]) for i in range(npos)]
        if shape:
            def bc(x):
                return isinstance(x, Opq) and x.parts[:1] == ("call",) and x.parts[1] == PRIMV("jax.numpy.broadcast_to") and len(x.parts[2]) == 2 and None
            good = isinstance(duals, tuple) and len(duals) == npos and all(
                isinstance(d, DualV) and all(isinstance(z, Opq) and z.parts[:1] == ("call",) and z.parts[1] == PRIMV("jax.numpy.broadcast_to") and _eq(z.parts[2][0], w)
                                             for z, w in ((d.p, wd.p), (d.t, wd.t))) for d, wd in zip(duals, want))
        else:
            good = isinstance(duals, tuple) and _eq(list(duals), want)
        if not good:
            bad("site arguments rebuilt as a Dual tree from the equation's operands",
                f"[{kind} site, sample_shape={shape}] the estimator receives {duals!r}; expected the site's positional arguments {want!r}"
                + (" broadcast to the sample shape" if shape else "") + " (closed-over constants skipped, primal i paired with tangent i)")
        if not (isinstance(konts, tuple) and len(konts) == 2 and all(isinstance(k, Opq) and k.parts[:1] == ("closure",) for k in konts)):
            bad("site estimator receives (dual args, (kpure, kdual))", f"continuations are {konts!r}")
            continue
        seen_site = konts
    # --- the two continuations: the rest of the program (eqns[idx+1:]) over an environment copy, bound to the site's outvars
    if seen_site is not None:
        for which, clo in zip(("pure", "dual"), seen_site):
            A = ("param", "kargs_")
            name, args, g = kont_target(ev, clo, (("star", A),))
            key = f"_sample_{which}_kont: evaluates the rest of the program (eqns[eqn_idx+1:]) bound to this site's outvars"
            if name != f"eval_jaxpr_iterate_{which}" or args is None or len(args) != 4:
                bad(key, f"the {which} continuation calls {name}")
                continue
            m = I.model(PRIMV(PJ + "adev_sample_p"), Opq("wrapped"), {}, {}, [])
            m.bind(A, (Atom("k0"), Atom("k1")))
            try:
                rest, envv, outv, vals = (m.ev(x) for x in args)
            except Unknown as e:
                raise AnalysisError(f"{construct}: cannot evaluate the {which} continuation's arguments: {e}")
            if rest != ["e4", "e5"]:
                bad(key, f"the {which} continuation re-runs {rest!r} of ['e0'..'e5'] from site 3 (expected the equations after the site)")
            if outv != Opq("outvars"):
                bad(key, f"the {which} continuation binds {outv!r}, not the site's outvars")
            if not _eq(list(vals) if isinstance(vals, (list, tuple)) else vals, [Atom("k0"), Atom("k1")]):
                bad(key, f"the {which} continuation passes {vals!r}, not the values it is called with")
            # environment: a copy (dual) / a primal projection of a copy (pure), never the live loop environment
            envt = args[1]
            copies = [x for x in subterms(envt) if is_call(x) and x[1][0] == "attr" and x[1][2] == "copy"]
            if not copies:
                bad("continuations run over a copy of the environment", f"the {which} continuation captures {short(envt, ev, 80)}: later equations overwrite what the continuation reads")
            if which == "pure":
                # the pure environment holds primals only
                prim_proj = [e_ for e_ in I.s.events if e_[1] == "store" and e_[2][0][0] == "attr" and e_[2][0][2] == "env" and any(is_call(x, name=AD + "Dual.tree_primal") for x in subterms(e_[2][1]))]
                if not prim_proj:
                    bad("continuations run over a copy of the environment", "the pure continuation's environment is not projected to primals")
    # --- plain sample_p inside an expectation raises
    m = I.model(PRIMV(PJ + "sample_p"), Opq("wrapped"), {}, {}, [DualV(a[0], t[0])])
    try:
        ex = I.first_exit(m)
    except Unknown as e:
        raise AnalysisError(f"{construct}[sample_p]: cannot evaluate: {e}")
    if ex is None or ex[0] != "raise":
        bad("plain sample_p inside an expectation raises", f"a pjax.sample site without ADEV semantics does not raise (found {ex})")
    if problems:
        for k, v in problems.items():
            ctx.bad(rule, construct, k, v, I.loc)
    else:
        ctx.ok(rule, construct, "continuations = rest of the program over an environment copy, bound to the site's outvars; plain sample_p raises")
    bridge_rules(ctx, rule)


def bridge_rules(ctx, rule):
    from .adevr import pr, tg, SELF
    ev = mk_ev(ctx)
    s = summarize(ctx, ev, AD + "invoke_closed_over_jvp")
    pn = [p for p in s.params] if hasattr(s, "params") and s.params else ["primals", "tangents"]
    PR_, TG_ = ("param", "primals"), ("param", "tangents")
    inst = ("idx", PR_, C(0))
    d = ("call", ("attr", inst, "jvp_estimate"), (("star", call(N(AD + "Dual.dual_tree"), ("idx", PR_, C(1)), ("idx", TG_, C(1)))),), ())
    want = ("tuple", (pr(d), tg(d)))
    if s.ret == want:
        ctx.ok(rule, "adev.invoke_closed_over_jvp", "(primal, tangent) of instance.jvp_estimate(*Dual.dual_tree(primals, tangents))")
    else:
        ctx.bad(rule, "adev.invoke_closed_over_jvp", "bridge returns (primal, tangent) of jvp_estimate on the dual tree", f"found {short(s.ret, ev, 300)}", func_loc(ctx, AD + "invoke_closed_over_jvp"))
    m = ctx.p.modules["genjax.adev"]
    src = m.src
    if "invoke_closed_over.defjvp(invoke_closed_over_jvp" not in src or "@jax.custom_jvp\ndef invoke_closed_over" not in src:
        ctx.bad(rule, "adev.invoke_closed_over", "custom_jvp registered", "defjvp registration missing", "src/genjax/adev/__init__.py")
    else:
        ctx.ok(rule, "adev.invoke_closed_over", "custom_jvp with invoke_closed_over_jvp registered")
    s = summarize(ctx, ev, AD + "invoke_closed_over")
    if s.ret != ("call", ("attr", ("param", "instance"), "estimate"), (("star", ("param", "args")),), ()):
        ctx.bad(rule, "adev.invoke_closed_over", "primal = instance.estimate(*args)", f"found {short(s.ret, ev)}", func_loc(ctx, AD + "invoke_closed_over"))
    # grad_estimate = jax.grad(lambda primals: invoke_closed_over(self, primals))(primals) (unwrapped for one argument)
    s = summarize(ctx, ev, AD + "Expectation.grad_estimate")
    ok = True
    why = ""
    for n in (1, 2):
        mm = Model(evaluator=ev)
        pv = tuple(Atom("arg", i) for i in range(n))
        mm.bind(("param", "primals"), pv)
        G = Opq("GRAD")

        def grad(f, *a_, **k_):
            def run(x):
                out = mm.apply_value(f, [x])
                return Opq("grad-of", out, x)
            return run
        mm.funcs["jax.grad"] = grad
        mm.funcs[AD + "invoke_closed_over"] = lambda inst, p: Opq("invoke_closed_over", inst, p if not isinstance(p, (list, tuple)) else tuple(p))
        try:
            got = mm.ev(s.ret)
        except Unknown as e:
            raise AnalysisError(f"adev.Expectation.grad_estimate: cannot evaluate: {e}")
        full = Opq("grad-of", Opq("invoke_closed_over", Opq("param", "self"), pv), pv)
        want_v = Opq("idx", full, 0) if n == 1 else full
        if got != want_v:
            ok, why = False, f"with {n} argument(s): found {got!r}"
    if ok:
        ctx.ok(rule, "adev.Expectation.grad_estimate", "jax.grad of invoke_closed_over(self, primals)")
    else:
        ctx.bad(rule, "adev.Expectation.grad_estimate", "grad of the custom-JVP primal", why, func_loc(ctx, AD + "Expectation.grad_estimate"))


# ================================================================================================ default JVP path (C15)
def default_jvp_path(ctx, rule="ROLE-default-jvp"):
    I = Interp(ctx)
    ev = I.ev
    construct = "adev.ADEV.eval_jaxpr_adev[default]"
    a = [Atom("x", i) for i in range(3)]
    t = [Atom("dx", i) for i in range(3)]
    ADD = PRIMV("jax.lax.add_p")
    params = {"axis": 1}
    JVP = Some("the-jvp-rule")
    problems = {}

    def bad(key, what):
        problems.setdefault(key, what)

    writes = [e for e in I.s.events if e[1] == "call" and e[2][1][0] == "name" and e[2][1][1].split(".")[-1] in ("safe_map", "map") and len(e[2][2]) == 3
              and e[2][2][1] == ("attr", I.EQN, "outvars") and I.in_loop(e[0])]
    ctx.need(bool(writes), f"{construct}: write-back of the equation's outputs not found (anchor vanished)")
    OUT = writes[-1][2][2][2]
    bind_t = ("attr", ("attr", I.EQN, "primitive"), "bind")
    # the shortcut must depend on the tangents being symbolic zeros only
    from .c16 import bool_atoms
    binds = [e for e in I.s.events if e[1] == "call" and e[2][1] == bind_t and I.in_loop(e[0])]
    ctx.need(bool(binds), f"{construct}: primal-only bind not found (anchor vanished)")
    for e in binds:
        for c, v in e[0]:
            if not isinstance(c, tuple) or not c or c[0] == "loop":
                continue
            atoms = []
            bool_atoms(c, atoms)
            for at in atoms:
                names = {x[1] for x in subterms(at) if x[0] == "name"}
                dispatch = any(n.endswith("_p") for n in names) or any(x == I.UNW or x == ("attr", I.EQN, "primitive") for x in subterms(at))
                zero_test = (AD + "_is_ad_zero") in names or is_call(at, name="builtins.len") or (at[0] == "cmp" and any(is_call(x, name="builtins.len") for x in at[2:]))
                if not dispatch and not zero_test:
                    bad("primal-only shortcut only when ALL tangents are symbolic zeros",
                        f"the primal-only path (all output tangents zeroed) is also taken when {short(at, ev, 120)}: inputs with non-zero tangents lose their contribution on that path")
    if problems:
        for k, v in problems.items():
            ctx.bad(rule, construct, k, v, I.loc)
        return
    for label, nin, zeros, rule_present in (("no inputs", 0, (), True), ("all tangents zero", 2, (0, 1), True), ("one tangent non-zero", 2, (0,), True),
                                            ("all non-zero", 2, (), True), ("no JVP rule", 2, (), False), ("all zero, no rule", 2, (0, 1), False)):
        invals = [DualV(a[i], t[i]) for i in range(nin)]
        canon = [Opq("canonical", a[i], t[i]) for i in range(nin)]
        m = I.model(ADD, ADD, params, {}, invals, zeroset=[canon[i] for i in zeros])
        POUT, TOUT = Atom("primal-out"), Atom("tangent-out")
        BOUND = Atom("bound-out")
        m.funcs["jax.interpreters.ad.primitive_jvps.get"] = lambda p, *d: (JVP if rule_present else (d[0] if d else None))

        def jvp_rule(ps_, ts_, **kw):
            return (Opq("jvp-primal", tuple(ps_), tuple(ts_), tuple(sorted(kw.items()))), Opq("jvp-tangent", tuple(ps_), tuple(ts_), tuple(sorted(kw.items()))))
        # calls: eqn.primitive.bind(...) and <rule>(...) are modelled through apply hooks
        try:
            ex = I.first_exit(m)
            allzero = nin == 0 or len(zeros) == nin
            if not allzero and not rule_present:
                if ex is None or ex[0] != "raise":
                    bad("missing rule raises", f"[{label}] a primitive without a JVP rule and with non-zero input tangents does not raise (found {ex})")
                continue
            if ex is not None:
                bad("outputs written back as Duals", f"[{label}] the default path exits the loop early: {ex[:2]}")
                continue
            out = m.ev(OUT)
        except Unknown as e:
            raise AnalysisError(f"{construct}: cannot evaluate [{label}]: {e}")
        ps_ = [a[i] for i in range(nin)]
        if allzero:
            bound = Opq("call", Opq("attr", ADD, "bind"), tuple(ps_), tuple(sorted(params.items())))
            want = [DualV(bound, zero(bound))]
            key = "fresh zero tangents derived from the primal outputs"
        else:
            jvp_call = Opq("call", JVP, (list(ps_), list(canon)), tuple(sorted(params.items())))
            want = None
            key = "jvp(primals, canonical tangents, **params)"
        if allzero:
            if not _eq(out, want):
                bad(key, f"[{label}] written back {out!r}; expected {want!r} (primal = bind(*primals, **params), tangent = zero shaped like it)")
        else:
            # expected: [Dual(rule(...)[0], instantiate(rule(...)[1]))]
            good = isinstance(out, list) and len(out) == 1 and isinstance(out[0], DualV)
            if good:
                d = out[0]
                def is_rule_out(x, i):
                    return isinstance(x, Opq) and x.parts[:1] == ("idx",) and x.parts[2] == i and isinstance(x.parts[1], Opq) and x.parts[1].parts[:2] == ("call", JVP)
                inst = isinstance(d.t, Opq) and d.t.parts[:1] == ("instantiated",) and is_rule_out(d.t.parts[1], 1)
                good = is_rule_out(d.p, 0) and inst
                if good:
                    callv = d.p.parts[1]
                    args_, kw_ = callv.parts[2], dict(callv.parts[3])
                    if not (len(args_) == 2 and _eq(list(args_[0]), ps_)):
                        bad(key, f"[{label}] the rule is called with primals {args_[0]!r}")
                    elif not _eq(list(args_[1]), canon):
                        bad("tangents canonicalised (float0 → symbolic Zero) pairwise with their primals", f"[{label}] the rule is called with tangents {args_[1]!r}; expected {canon!r}")
                    elif kw_ != params:
                        bad(key, f"[{label}] the rule is called with params {kw_!r}")
                elif is_rule_out(d.p, 0) and not inst:
                    bad("symbolic zeros instantiated on the way out", f"[{label}] tangent written back as {d.t!r}")
            if not good and not problems:
                bad("rule taken from JAX's primitive_jvps for this primitive", f"[{label}] written back {out!r}; expected Dual(rule(...)[0], instantiate(rule(...)[1])) with rule = primitive_jvps.get(eqn.primitive)")
    if problems:
        for k, v in problems.items():
            ctx.bad(rule, construct, k, v, I.loc)
    else:
        ctx.ok(rule, construct, "primitive_jvps dispatch with canonicalised tangents; all-zero shortcut; zeros instantiated")
    # --- multiple-result primitives: JAX's rules return (primals_out, tangents_out) as two sequences whose container types are
    #     unspecified (sort's rule returns a tuple and a list); JAX pairs them with zip.  The write-back must not depend on the containers.
    construct2 = "adev.ADEV.eval_jaxpr_adev[default, multiple results]"
    mbad = None
    for pc, tc in ((tuple, list), (list, tuple), (list, list), (tuple, tuple)):
        invals = [DualV(a[i], t[i]) for i in range(2)]
        canon = [Opq("canonical", a[i], t[i]) for i in range(2)]
        m = I.model(ADD, ADD, params, {}, invals, zeroset=[])
        m.bind(("attr", ("attr", I.EQN, "primitive"), "multiple_results"), True)
        m.funcs["jax.interpreters.ad.primitive_jvps.get"] = lambda p, *d: (lambda ps_, ts_, **kw: (pc([Atom("P", 0), Atom("P", 1)]), tc([Atom("T", 0), Atom("T", 1)])))
        try:
            ex = I.first_exit(m)
            out = m.ev(OUT) if ex is None else None
        except ModelError as e:
            mbad = (f"rule returning ({pc.__name__}, {tc.__name__})", f"the write-back fails: {e}")
            break
        except Unknown as e:
            raise AnalysisError(f"{construct2}: cannot evaluate: {e}")
        want = [DualV(Atom("P", i), Opq("instantiated", Atom("T", i))) for i in range(2)]
        if ex is not None or not (isinstance(out, (list, tuple)) and _eq(list(out), want)):
            mbad = (f"rule returning ({pc.__name__}, {tc.__name__})", f"written back {out!r} (exit {ex[:2] if ex else None}); expected {want!r}")
            break
    if mbad:
        ctx.bad(rule, construct2, "outputs of a multiple-result primitive paired positionally, whatever containers the JVP rule returns",
                f"for a multiple-result primitive whose JVP {mbad[0]}, {mbad[1]}: JAX pairs primals_out and tangents_out with zip (sort, sort_key_val, top_k return a tuple "
                "and a list), so jvp_estimate/grad_estimate raise where jax.jvp/jax.grad succeed; input: expectation(lambda x: lax.sort_key_val(keys, x * w)[1].sum()).grad_estimate(2.0)", I.loc)
    else:
        ctx.ok(rule, construct2, "outputs paired positionally for every container combination")


# ================================================================================================ cond (C15) and forward_mode
def cond_rule(ctx, rule="ROLE-adev-cond"):
    I = Interp(ctx)
    ev = I.ev
    construct = "adev.ADEV.eval_jaxpr_adev[cond_p]"
    a = [Atom("x", i) for i in range(3)]
    t = [Atom("dx", i) for i in range(3)]
    COND = PRIMV("jax.lax.cond_p")
    BF, BT = Opq("false-branch-jaxpr"), Opq("true-branch-jaxpr")
    invals = [DualV(Atom("pred"), Atom("dpred")), DualV(a[0], t[0]), DualV(a[1], t[1])]
    m = I.model(COND, COND, {"branches": (BF, BT)}, {}, invals)
    m.funcs[AD + "ADEV.forward_mode"] = lambda f, k=None: Opq("forward_mode", f, k)
    m.funcs["jax.extend.core.jaxpr_as_fun"] = lambda j: Opq("as_fun", j)
    m.funcs["jax.core.jaxpr_as_fun"] = lambda j: Opq("as_fun", j)
    m.funcs["jax.lax.cond"] = lambda *args, **kw: Opq("lax.cond", tuple(args), tuple(sorted(kw.items())))
    problems = {}
    try:
        ex = I.first_exit(m)
    except Unknown as e:
        raise AnalysisError(f"{construct}: cannot evaluate the arm: {e}")
    ok = ex is not None and ex[0] == "return" and isinstance(ex[1], Opq) and ex[1].parts[:1] == ("lax.cond",)
    if not ok:
        ctx.bad(rule, construct, "re-issued as one jax.lax.cond", f"found {ex[:2] if ex else None}", I.loc)
    else:
        args = list(ex[1].parts[1])
        if not (args and args[0] == Atom("pred")):
            problems["predicate = primal of the first operand"] = f"lax.cond is given predicate {args[0] if args else None!r}"
        fns = args[1:3]
        good = len(fns) == 2 and all(isinstance(f, Opq) and f.parts[:1] == ("forward_mode",) for f in fns)
        if good:
            order = [f.parts[1] for f in fns]
            if order != [Opq("as_fun", BT), Opq("as_fun", BF)]:
                problems["cond_p's (false, true) branch order reversed exactly once for lax.cond(pred, true_fn, false_fn, …)"] = \
                    f"with params['branches'] = (false, true), lax.cond receives (true_fn, false_fn) = {order!r}"
            ks = [f.parts[2] for f in fns]
            if not (ks[0] == ks[1] and isinstance(ks[0], Opq) and ks[0].parts[:1] == ("closure",)):
                problems["every branch transformed with the post-cond continuation"] = f"continuations {ks!r}"
            else:
                A = ("param", "ktree_")
                name, kargs, g = kont_target(ev, ks[0], (A,))
                key = "post-cond continuation = rest of the program bound to the cond's outvars"
                if name != "eval_jaxpr_iterate_dual" or kargs is None or len(kargs) != 4:
                    problems[key] = f"the continuation calls {name}"
                else:
                    mm = I.model(COND, COND, {}, {}, [])
                    tree = [DualV(a[2], t[2]), Atom("raw")]
                    mm.bind(A, tree)
                    try:
                        rest, envv, outv, vals = (mm.ev(x) for x in kargs)
                    except Unknown as e:
                        raise AnalysisError(f"{construct}: cannot evaluate the continuation's arguments: {e}")
                    if rest != ["e4", "e5"] or outv != Opq("outvars"):
                        problems[key] = f"the continuation runs {rest!r} bound to {outv!r}"
                    elif not _eq(vals, mm.ref["tree_pure"](tree)):
                        problems[key] = f"the continuation passes {vals!r}; expected the branch outputs lifted to Duals"
        else:
            problems["every branch transformed with the post-cond continuation"] = f"branches passed to lax.cond: {fns!r}"
        if not _eq(args[3:], invals[1:]):
            problems["cond_p's (false, true) branch order reversed exactly once for lax.cond(pred, true_fn, false_fn, …)"] = \
                problems.get("cond_p's (false, true) branch order reversed exactly once for lax.cond(pred, true_fn, false_fn, …)", f"operands passed on are {args[3:]!r}, not the cond's own operands")
        if problems:
            for k, v in problems.items():
                ctx.bad(rule, construct, k, v, I.loc)
        else:
            ctx.ok(rule, construct, "both branches transformed with the post-cond continuation; branch order reversed exactly once")
    forward_mode_rule(ctx, rule)


def forward_mode_rule(ctx, rule):
    """forward_mode(f, kont)(*duals): stage f on the primals, interpret the staged program on the dual leaves, hand the Dual tree of the
    outputs to the continuation."""
    ev = mk_ev(ctx)
    dotted = AD + "ADEV.forward_mode"
    s = summarize(ctx, ev, dotted)
    r = s.ret
    construct = "adev.ADEV.forward_mode"
    ctx.need(r[0] == "closure", f"{construct}: returned wrapper not found (anchor vanished)")
    a = [Atom("x", i) for i in range(3)]
    t = [Atom("dx", i) for i in range(3)]
    duals = (DualV(a[0], t[0]), (DualV(a[1], t[1]), Atom("raw")))
    m = make_model(ev)
    D = ("param", "duals_")
    m.bind(D, duals)
    F, K = ("param", "f"), ("param", "kont")
    m.bind(F, Opq("f"))
    m.bind(K, Opq("K"))
    m.funcs["jax.numpy.array"] = lambda v, **kw: v
    m.funcs["jax.numpy.asarray"] = lambda v, **kw: v
    JAXPR, CONSTS, OT = Opq("jaxpr"), Opq("consts"), TreeDef("out")

    class Closed:
        model_attrs = {"jaxpr": JAXPR, "literals": CONSTS, "consts": CONSTS}
    staged_on = []

    def stage(f):
        def run(*args, **kw):
            staged_on.append((f, args, kw))
            return (Closed(), (Opq("flat-args"), Opq("in-tree"), lambda: OT))
        return run
    m.funcs[PJ + "stage"] = stage
    interp_on = []

    def interp(j, c, leaves):
        interp_on.append((j, c, leaves))
        return DualV(Atom("out"), Atom("dout"))
    m.funcs[AD + "ADEV.eval_jaxpr_adev"] = interp
    try:
        body = ev.apply_closure(r, (("star", D),), ())
        got = m.ev(body)
    except Unknown as e:
        raise AnalysisError(f"{construct}: cannot evaluate: {e}")
    problems = []
    prim = m.ref["tree_primal"](duals)
    if not (len(staged_on) >= 1 and staged_on[0][0] == Opq("f") and _eq(tuple(staged_on[0][1]), prim) and not staged_on[0][2]):
        problems.append(f"f is staged on {staged_on[0][1:] if staged_on else None!r}, not on the primals of the duals")
    if not (len(interp_on) >= 1 and interp_on[0][0] == JAXPR and interp_on[0][1] == CONSTS and _eq(interp_on[0][2], m.ref["tree_leaves"](duals))):
        problems.append(f"the staged program is interpreted on {interp_on[0] if interp_on else None!r}, not on (jaxpr, literals, dual leaves)")
    want = Opq("call", Opq("K"), (DualV(Atom("out"), Atom("dout")),), ())
    if not problems and got != want:
        problems.append(f"returns {got!r}; expected kont(Dual tree of the outputs)")
    if problems:
        ctx.bad(rule, construct, "stage on primals, interpret on dual leaves, hand the Dual tree to the continuation", "; ".join(problems), func_loc(ctx, dotted))
    else:
        ctx.ok(rule, construct)


def cond_site_continuation(ctx, rule="DEP-cond-site-continuation"):
    """C11 "(including cond)": an ADEV site's estimator is applied to the site's continuation — *the rest of the expectation program*.  The
    cond arm transforms each branch with ADEV.forward_mode(branch, post-cond continuation).  If forward_mode merely applies that continuation
    to the *result* of interpreting the branch, a site inside the branch gets a continuation that ends at the branch output: its estimator
    (enumeration p·f(True)+(1−p)·f(False), REINFORCE f·∇log p, …) averages the branch output, and the non-linear rest of the program is applied
    to that average — g(E[y]) instead of E[g(y)].  Necessary condition: the continuation parameter flows *into* the interpretation of the
    transformed function (so that site continuations can extend to it).  Absence of that flow proves the defect (DEP+)."""
    ev = mk_ev(ctx)
    dotted = AD + "ADEV.forward_mode"
    s = summarize(ctx, ev, dotted)
    r = s.ret
    construct = "adev.ADEV.forward_mode (used for cond branches)"
    ctx.need(r[0] == "closure", f"{dotted}: returned wrapper not found (anchor vanished)")
    kind, node, mod, owner = ctx.p.get_function(dotted)
    pnames = [a.arg for a in node.args.args]
    ctx.need(len(pnames) >= 2, f"{dotted}: continuation parameter not found (anchor vanished)")
    K = ("param", pnames[1])
    m = make_model(ev)
    D = ("param", "duals_")
    duals = (DualV(Atom("x", 0), Atom("dx", 0)),)
    m.bind(D, duals)
    m.bind(("param", pnames[0]), Opq("f"))
    m.bind(K, Opq("K"))
    m.funcs["jax.numpy.array"] = lambda v, **kw: v
    m.funcs["jax.numpy.asarray"] = lambda v, **kw: v

    class Closed:
        model_attrs = {"jaxpr": Opq("jaxpr"), "literals": Opq("consts"), "consts": Opq("consts")}
    m.funcs[PJ + "stage"] = lambda f: (lambda *a, **k: (Closed(), (Opq("flat-args"), Opq("in-tree"), lambda: TreeDef("out"))))
    seen = []

    def interp(*args, **kw):
        seen.append((args, kw))
        return DualV(Atom("out"), Atom("dout"))
    m.funcs[AD + "ADEV.eval_jaxpr_adev"] = interp
    try:
        m.ev(ev.apply_closure(r, (("star", D),), ()))
    except Unknown as e:
        raise AnalysisError(f"{dotted}: cannot evaluate: {e}")
    ctx.need(bool(seen), f"{dotted}: the interpreter call was not reached (anchor vanished)")

    def mentions(v):
        if v == Opq("K"):
            return True
        if isinstance(v, Opq):
            return any(mentions(x) for x in v.parts)
        if isinstance(v, (list, tuple)):
            return any(mentions(x) for x in v)
        if isinstance(v, dict):
            return any(mentions(x) for x in v.values())
        return False
    if any(mentions(a) or mentions(k) for a, k in seen):
        ctx.ok(rule, construct, "the continuation is handed to the interpretation of the transformed function")
    else:
        ctx.bad(rule, construct, "the post-cond continuation reaches the sites inside a transformed branch",
                "forward_mode interprets the branch with ADEV.eval_jaxpr_adev(jaxpr, consts, dual leaves) and applies the continuation to the result only: an ADEV site inside a "
                "cond branch is estimated against a continuation that ends at the branch output, and the rest of the program is applied to the averaged value — input: "
                "expectation(lambda p, flag: (cond(flag > 0, lambda p: float32(flip_enum(p)), lambda p: p, p) + 1.) ** 2): estimate(0.3, 1.0) = 1.69 (exact 1.9), "
                "jvp tangent 2.6 (exact 3.0); the same site outside the cond gives 1.9 / 3.0", func_loc(ctx, dotted))


# ================================================================================================ zero tangent shapes (C15)
def zero_tangent_shapes(ctx, rule="SHAPE-zero-tangent"):
    """Every freshly manufactured zero tangent is derived from its primal."""
    ev = mk_ev(ctx)
    dotted = AD + "Expectation.estimate"
    s = summarize(ctx, ev, dotted)
    construct = "adev.Expectation.estimate"
    args = (Atom("a0"), (Atom("a1"), Atom("a2")))
    m = make_model(ev)
    m.bind(("param", "args"), args)
    seen = []

    class Out:
        model_attrs = {"primal": Atom("est-primal"), "tangent": Atom("est-tangent")}
    m.bind(("attr", ("param", "self"), "jvp_estimate"), lambda *d: (seen.append(d), Out())[1])
    try:
        got = m.ev(s.ret)
    except Unknown as e:
        raise AnalysisError(f"{construct}: cannot evaluate: {e}")
    want = m.ref["dual_tree"](args, m.tree_map(zero, [args]))
    if not seen:
        ctx.bad(rule, construct, "dual tree built over the arguments", f"jvp_estimate is not called (returns {got!r})", func_loc(ctx, dotted))
    elif not _eq(tuple(seen[0]), want):
        flat = m.tree_flatten(seen[0], is_dualv)
        scalar = [d for d in flat if is_dualv(d) and not (isinstance(d.t, Opq) and d.t.parts[:1] == ("zero_tangent_like",))]
        if scalar and all(not isinstance(d.t, Opq) for d in scalar):
            ctx.bad(rule, construct, f"zero tangents = tree_map(lambda _: {scalar[0].t!r}, args)",
                    "the zero tangent of every argument is the weak-typed Python scalar 0.0 whatever the argument's shape/dtype: shape-sensitive JVP rules "
                    "(transpose, dot_general, slicing) receive a scalar tangent for an array primal and integer arguments get a float tangent; "
                    "input: expectation(lambda x: jnp.sum(x.T @ x)).estimate(jnp.ones((2, 3)))", func_loc(ctx, dotted))
        else:
            ctx.bad(rule, construct, "dual tree built over the arguments", f"jvp_estimate receives {seen[0]!r}; expected {want!r}", func_loc(ctx, dotted))
    else:
        ctx.ok(rule, construct, "zero tangents derived from the primals")
    if got != Atom("est-primal"):
        ctx.bad(rule, construct, "returns the primal of jvp_estimate", f"found {got!r}", func_loc(ctx, dotted))
    # the interpreter's final output: a non-Dual result is lifted with a zero shaped like it
    I = Interp(ctx)
    rets = [e for e in I.s.events if e[1] == "return" and not I.in_loop(e[0])]
    bad = None
    for raw in (True, False):
        m = make_model(I.ev)
        val = Atom("result") if raw else DualV(Atom("result"), Atom("dresult"))
        reads = [e[2] for e in I.s.events if e[1] == "call" and e[2][1][0] == "name" and e[2][1][1].split(".")[-1] in ("safe_map", "map") and len(e[2][2]) == 2
                 and e[2][2][1][0] == "attr" and e[2][2][1][2] == "outvars" and not I.in_loop(e[0])]
        ctx.need(bool(reads), "ADEV.eval_jaxpr_adev: read of the program's outputs not found (anchor vanished)")
        m.bind(reads[-1], [val])
        try:
            out = None
            for g, k, pl, ln, q in rets:
                if m.live(g):
                    out = m.ev(pl)
                    break
        except Unknown as e:
            raise AnalysisError(f"adev.ADEV.eval_jaxpr_adev (output lift): cannot evaluate: {e}")
        want = DualV(val, zero(val)) if raw else val
        if not _eq(out, want):
            bad = f"a {'non-Dual' if raw else 'Dual'} program output {val!r} is returned as {out!r}; expected {want!r}"
    if bad:
        ctx.bad(rule, "adev.ADEV.eval_jaxpr_adev (output lift)", "non-Dual output lifted with a shaped zero", bad, I.loc)
    else:
        ctx.ok(rule, "adev.ADEV.eval_jaxpr_adev (output lift)")

"""C02 generate honours constraints and returns the importance weight (structural clauses, DESIGN §4-C02)."""
from . import gfi, pjaxr

EXPLANATION = ("ALG/ROLE rules over every generate path (Distribution, Generate handler, Fn, Vmap, Scan, Cond): constrained value "
               "stored unchanged, weight term equals the contract form on the None and constrained cases, weights selected by where.")


def combs(ctx):
    gfi.handler_rule(ctx, "Generate")
    gfi.fn_rule(ctx, "generate")
    gfi.vmap_rule(ctx, "generate")
    gfi.scan_rule(ctx, "generate")
    gfi.cond_rule(ctx, "generate")


RULES = [gfi.dist_generate, gfi.collision_helpers, gfi.address_glue, lambda ctx: gfi.density_reduction(ctx, ['Generate']), pjaxr.logdensity_batch_terms, combs, pjaxr.first_leaf_guard]
FLOOR = 7

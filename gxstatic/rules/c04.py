"""C04 regenerate resamples exactly the selection and returns the MH weight (DESIGN §4-C04)."""
from . import gfi, lints

EXPLANATION = ("ALG/ROLE/KIND/DEP rules over every regenerate path: selected leaf → fresh simulate with weight 0 and old value as "
               "discard; unselected → rescoring without any sampler call; handler forwards the remainder selection; definedness lints.")


def combs(ctx):
    gfi.handler_rule(ctx, "Regenerate")
    gfi.fn_rule(ctx, "regenerate")
    gfi.vmap_rule(ctx, "regenerate")
    gfi.scan_rule(ctx, "regenerate")
    gfi.cond_rule(ctx, "regenerate")
    gfi.scan_regenerate_defined(ctx)
    gfi.cond_discard_depends_on_old_check(ctx, "regenerate")


def selection_threading(ctx):
    from . import c16
    c16.selection_algebra(ctx)



def trc(ctx):
    lints.trc_lint(ctx, ["genjax.core.Distribution.regenerate", "genjax.core.Fn.regenerate", "genjax.core.Vmap.regenerate", "genjax.core.Scan.regenerate",
                         "genjax.core.Cond.regenerate", "genjax.core.Regenerate"])
    lints.kind_lint(ctx, ["genjax.core"])


RULES = [trc, gfi.dist_regenerate, gfi.address_glue, lambda ctx: gfi.density_reduction(ctx, ['Regenerate', 'regenerate']), combs, selection_threading]
FLOOR = 8

from . import gfi
EXPLANATION = "GFI-contract algebra for simulate/assess."
def handlers(ctx):
    for h in ("Simulate","Generate","Assess","Update","Regenerate"):
        gfi.handler_rule(ctx, h)
def fns(ctx):
    for m in ("simulate","generate","assess","update","regenerate"):
        gfi.fn_rule(ctx, m)
RULES = [gfi.dist_simulate, gfi.dist_assess, gfi.dist_generate, gfi.dist_update, gfi.dist_regenerate, gfi.collision_helpers, handlers, fns, gfi.handler_stack_ownership]
FLOOR = 5

"""C01 assess is the joint log density; simulate samples from it (structural clauses, DESIGN §4-C01)."""
from . import lints, gfi

EXPLANATION = ("ALG/ROLE/SIB/GUARD rules over the simulate and assess paths of the five GFI implementors, the Simulate/Assess "
               "handlers, CondTr accessors and merge polarity: every returned score/density/retval/argument term is compared, as a "
               "normalised symbolic term (linear forms with case splitting on where-conditions), with the GFI contract table.")


def handlers(ctx):
    for h in ("Simulate", "Assess"):
        gfi.handler_rule(ctx, h)


def fns(ctx):
    for m in ("simulate", "assess"):
        gfi.fn_rule(ctx, m)


def combs(ctx):
    for m in ("simulate", "assess"):
        gfi.vmap_rule(ctx, m)
        gfi.scan_rule(ctx, m)
        gfi.cond_rule(ctx, m)



def logdensity_batch(ctx):
    # Vmap.assess / Vmap.generate compute their per-lane densities through the log-density batch rule
    from . import pjaxr
    pjaxr.logdensity_batch_terms(ctx)


def trc(ctx):
    lints.trc_lint(ctx, ["genjax.core.Distribution", "genjax.core.Fn", "genjax.core.Vmap", "genjax.core.Scan", "genjax.core.Cond", "genjax.core.CondTr",
                         "genjax.core.Tr", "genjax.core.ScanTr", "genjax.core.Simulate", "genjax.core.Assess", "genjax.core.Generate", "genjax.core.Update", "genjax.core.Regenerate"])


RULES = [trc, gfi.dist_simulate, gfi.dist_assess, gfi.collision_helpers, handlers, fns, gfi.handler_stack_ownership, gfi.address_glue, lambda ctx: gfi.density_reduction(ctx, ['Assess']), logdensity_batch, combs,
         gfi.cond_trace_rules, gfi.trace_accessors, gfi.merge_polarity, gfi.vmap_kwargs_sig]
FLOOR = 20

from . import gfi
EXPLANATION = "GFI-contract algebra for simulate/assess."
RULES = [gfi.dist_simulate, gfi.dist_assess, gfi.dist_generate, gfi.dist_update, gfi.dist_regenerate]
FLOOR = 5

"""Rules over genjax.adev: shared by C11 (estimators) and C15 (deterministic code = forward-mode AD)."""
from __future__ import annotations

import ast

from ..model import AnalysisError
from ..symeval import ts, subterms, subst, is_const, C, NONE
from ..linform import fmt_lf
from .util import (CORE, N, call, mk_ev, mk_lin, summarize, spine_cases, all_cases, none_test, items, is_call, mentions, func_loc, short, apply_fn)
from .gfi import Checker, is_where
from .pjaxr import fnode, unp

AD = "genjax.adev."
DIST = "genjax.distributions."
SELF = ("param", "self")
DT = ("param", "dual_tree")
KONTS = ("param", "konts")
KP, KD = ("idx", KONTS, C(0)), ("idx", KONTS, C(1))
PRIM = call(N(AD + "Dual.tree_primal"), DT)
TAN = call(N(AD + "Dual.tree_tangent"), DT)


def unz(d):
    return call(N(AD + "Dual.tree_unzip"), d)


def pr(d):
    return ("idx", ("idx", unz(d), C(0)), C(0))


def tg(d):
    return ("idx", ("idx", unz(d), C(1)), C(0))


def dual(a, b):
    return call(N(AD + "Dual"), a, b)


def zero_like(v):
    return call(N(AD + "_zero_tangent_like"), v)


def adev_axioms(x):
    # _discrete_zero_tangent(v) is _zero_tangent_like(v)  (one-line forwarding helper, checked below)
    if is_call(x, name=AD + "_discrete_zero_tangent") and len(x[2]) == 1:
        return zero_like(x[2][0])
    if x[0] == "attr" and x[2] == "value" and x[1][0] == "attr" and x[1][1] == SELF and x[1][2] in ("differentiable_logpdf", "sample_function", "keyful_sample_function"):
        return ("attr", SELF, x[1][2] + "!")
    return None


def primitives(ctx):
    out = {n.name: (d, n, m) for d, n, m in ctx.p.subclasses_of("ADEVPrimitive") if d.startswith("genjax.adev.")}
    floor = {"REINFORCE", "FlipEnum", "FlipMVD", "FlipEnumParallel", "CategoricalEnumParallel", "NormalREPARAM", "MultivariateNormalDiagREPARAM",
             "UniformREPARAM", "MultivariateNormalREPARAM"}
    ctx.need(floor <= set(out), f"anchor vanished: ADEV primitives {sorted(floor - set(out))}")
    return out


def adev_ev(ctx):
    return mk_ev(ctx, self_inline={"sample"}, depth=3)


# ====================================================================== continuation protocol (SIB-C11-konts)
def kont_protocol(ctx, rule="SIB-continuations"):
    """kdual is applied to Dual-typed arguments and its result is consumed as a Dual; kpure to primal values."""
    prims = primitives(ctx)
    for name in sorted(prims):
        own = any(isinstance(f, ast.FunctionDef) and f.name == "prim_jvp_estimate" for f in prims[name][1].body)
        is_base = any(any((b.id if isinstance(b, ast.Name) else getattr(b, "attr", None)) == name for b in n.bases) for _, n, _ in prims.values())
        if not own and is_base:
            # an intermediate base class (shared sample/sample_with_key) that leaves the estimator to its subclasses
            continue
        ev = mk_ev(ctx)
        dotted = AD + name + ".prim_jvp_estimate"
        s = summarize(ctx, ev, dotted)
        construct = f"adev.{name}.prim_jvp_estimate"
        problems = []
        kd_names = {KD, ("param", "kdual")}

        def is_dual_term(a):
            return is_call(a, name=AD + "Dual") or is_call(a, name=AD + "Dual.tree_pure") or is_call(a, name=AD + "Dual.dual_tree")

        ncalls = 0
        for x in set(subterms(s.ret)):
            if is_call(x) and x[1] in kd_names and not any(isinstance(a, tuple) and a and a[0] == "lane" for a in x[2]):
                ncalls += 1
                if not x[2] or not all(is_dual_term(a) for a in x[2]):
                    problems.append(("kdual applied to non-Dual arguments", short(x, ev, 160)))
            if x[0] == "lanes":
                rec = ev.vmaps[x[1]]
                if rec["f"] in kd_names:
                    ncalls += 1
                    raw = rec["args"]
                    if not all(is_dual_term(a) for a in raw):
                        problems.append(("modular_vmap(kdual) applied to raw tuples instead of Dual values", short(("tuple", raw), ev, 200)))
                    # result consumed as a pair?
                    for y in set(subterms(s.ret)):
                        if y[0] == "idx" and y[1] == x and is_const(y[2]):
                            problems.append(("result of the dual continuation unpacked as a (primal, tangent) pair instead of a Dual", short(y, ev, 120)))
                            break
            if is_call(x) and x[1] in (KP, ("param", "kpure")):
                if any(is_dual_term(a) for a in x[2]):
                    problems.append(("kpure applied to Dual arguments", short(x, ev, 160)))
        # helper delegation counts as use
        deleg = [x for x in subterms(s.ret) if is_call(x, name=AD + "_flip_lane_rb_estimate")]
        if ncalls == 0 and not deleg:
            problems.append(("continuation never applied", "no kdual call"))
        if problems:
            seen = set()
            for k, d in problems:
                if k in seen:
                    continue
                seen.add(k)
                ctx.bad(rule, construct, k, f"{k}: {d} — the interpreter's dual continuation takes Dual arguments (one per site output) and returns one Dual", func_loc(ctx, dotted))
        else:
            ctx.ok(rule, construct, f"{ncalls} continuation applications")
    # the interpreter side: _sample_dual_kont(*duals: Dual) -> Dual ; _sample_pure_kont(*args) -> list
    node, mod = fnode(ctx, AD + "ADEV.eval_jaxpr_adev")
    fns = {f.name: f for f in ast.walk(node) if isinstance(f, ast.FunctionDef)}
    if "_sample_dual_kont" not in fns:
        # the equation loop (and with it the continuation closures) hoisted into a module-level function of genjax.adev
        fns = {f.name: f for top in mod.tree.body if isinstance(top, ast.FunctionDef) for f in ast.walk(top) if isinstance(f, ast.FunctionDef) and f is not top}
    ok = "_sample_dual_kont" in fns and "_sample_pure_kont" in fns and fns["_sample_dual_kont"].args.vararg is not None and fns["_sample_pure_kont"].args.vararg is not None
    if ok:
        ctx.ok(rule, "adev.ADEV.eval_jaxpr_adev (continuations)", "dual continuation takes *duals, pure continuation takes *args")
    else:
        ctx.bad(rule, "adev.ADEV.eval_jaxpr_adev (continuations)", "continuation signatures", "continuation closures not found", ctx.loc(mod, node))


# ====================================================================== ALG-C11
def reinforce_rule(ctx, rule="ALG-reinforce"):
    ev = adev_ev(ctx)
    dotted = AD + "REINFORCE.prim_jvp_estimate"
    s = summarize(ctx, ev, dotted)
    lin = mk_lin(ev, extra=[adev_axioms])
    ck = Checker(ctx, ev, lin, rule, "adev.REINFORCE.prim_jvp_estimate", func_loc(ctx, dotted))
    r = lin.norm(s.ret)
    if not (is_call(r, name=AD + "Dual") and len(r[2]) == 2):
        ck.fail("returns Dual(primal, tangent)", f"found {short(r, ev, 200)}")
        ck.done()
        return
    v = ("call", ("attr", SELF, "sample_function!"), (("star", PRIM),), ())
    out = ("call", KD, (call(N(AD + "Dual.tree_pure"), v),), ())
    P, T = pr(out), tg(out)
    ck.eq("primal = primal of the dual continuation at the sampled value", r[2][0], lin.norm(P))
    lpt = ("idx", call(N("jax.jvp"), ("attr", SELF, "differentiable_logpdf!"), ("tuple", (v, ("star", PRIM))), ("tuple", (zero_like(v), ("star", TAN)))), C(1))
    ck.lineq("tangent = df + f(X)·d log p(X; θ)  (score taken at (X, θ) along (0, θ̇))", r[2][1], ("binop", "+", T, ("binop", "*", P, lpt)))
    n_s = len({x for x in subterms(r) if is_call(x) and x[1] == ("attr", SELF, "sample_function!")})
    if n_s != 1:
        ck.fail("one draw per site", f"{n_s} distinct sample terms")
    # the score is that of the JOINT density of the site: when the site is batched the log-density tangent has one entry per lane and must be
    # reduced over ALL lanes, whatever the shape of the continuation's output (an output of the lanes' shape may depend on every lane).
    # Decided on finite situations: shape(score tangent) = (3,), shape(anything else) in {(), (3,)}; the conditionals of the returned tangent are
    # resolved in each situation and every occurrence of the score tangent must then sit directly under an unrestricted jnp.sum.
    from ..absint import Model, Unknown
    raw = s.ret
    jv = [x for x in subterms(raw) if x[0] == "idx" and is_call(x[1], name="jax.jvp") and is_const(x[2], 1)]
    if raw[0] == "call" and len(raw[2]) == 2 and jv:
        shapes = {x for x in subterms(raw) if is_call(x, name="jax.numpy.shape") and len(x[2]) == 1}
        for other in ((), (3,)):
            m = Model(evaluator=ev)
            for sh in shapes:
                m.bind(sh, (3,) if sh[2][0] in jv else other)

            def resolve(t):
                if not isinstance(t, tuple):
                    return t
                if t and t[0] == "ifexp":
                    try:
                        return resolve(t[2] if m.truth(t[1]) else t[3])
                    except Unknown as e:
                        raise AnalysisError(f"adev.REINFORCE.prim_jvp_estimate: unrecognised condition on the score tangent {short(t[1], ev)} ({e})")
                return tuple(resolve(x) for x in t)
            tan = resolve(raw[2][1])
            bare = 0

            def walk2(t):
                nonlocal bare
                if not isinstance(t, tuple):
                    return
                if t in jv:
                    bare += 1
                    return
                if is_call(t, name="jax.numpy.sum") and len(t[2]) == 1 and not t[3] and t[2][0] in jv:
                    return
                for x in t:
                    walk2(x)
            walk2(tan)
            if bare:
                ck.fail("score tangent of a batched site reduced over all lanes",
                        f"with a batched site (score tangent of shape (3,)) and a continuation output of shape {other!r} the tangent uses the per-lane score tangent "
                        "un-reduced: each output component is weighted by its own lane's score only, and the derivative of component i with respect to the other lanes' "
                        "parameters is dropped (biased jvp_estimate for a vector-valued program whose components couple lanes)")
                break
    ck.done()


def ndim_case(ctx, ev, ret, p, ndim, who):
    """The value of an estimator in the situation `the probability parameter has `ndim` dimensions` (scalar site / batched site): the
    spine conditionals are decided by evaluating their conditions in that situation, whatever comparison they are written with."""
    from ..absint import Model, Unknown
    m = Model(evaluator=ev)
    m.funcs["jax.numpy.ndim"] = lambda x: ndim
    m.bind(("attr", p, "ndim"), ndim)
    t = ret
    try:
        while t[0] == "ifexp":
            t = t[2] if m.truth(t[1]) else t[3]
    except Unknown as e:
        raise AnalysisError(f"{who}: unrecognised condition {short(t[1], ev)} ({e})")
    return t


def flip_enum_rule(ctx, rule="ALG-flip-enum"):
    ev = adev_ev(ctx)
    dotted = AD + "FlipEnum.prim_jvp_estimate"
    s = summarize(ctx, ev, dotted)
    lin = mk_lin(ev, extra=[adev_axioms])
    ck = Checker(ctx, ev, lin, rule, "adev.FlipEnum.prim_jvp_estimate", func_loc(ctx, dotted))
    p, pt = ("idx", PRIM, C(0)), ("idx", TAN, C(0))
    saw = set()
    for sc in (True, False):
        leaf = ndim_case(ctx, ev, s.ret, p, 0 if sc else 1, "adev.FlipEnum")
        saw.add(sc)
        leaf = lin.norm(leaf)
        if sc:
            def at(b):
                a = call(N("jax.numpy.array"), C(b))
                return ("call", KD, (dual(a, zero_like(a)),), ())
            tD, fD = lin.norm(at(True)), lin.norm(at(False))
            if not (is_call(leaf, name=AD + "Dual") and len(leaf[2]) == 2):
                ck.fail("scalar: returns Dual(jvp primal, jvp tangent)", f"found {short(leaf, ev, 200)}")
                continue
            j0, j1 = leaf[2]
            if not (j0[0] == "idx" and is_const(j0[2], 0) and j1[0] == "idx" and is_const(j1[2], 1) and j0[1] == j1[1] and is_call(j0[1], name="jax.jvp")):
                ck.fail("scalar: primal/tangent = jax.jvp(mix, …)", f"found {short(leaf, ev, 200)}")
                continue
            J = j0[1]
            f, prim, tan = J[2]
            ck.eq("jvp primals = (p, f(True), f(False)) from the dual continuation", prim, lin.norm(("tuple", (p, pr(tD), pr(fD)))))
            ck.eq("jvp tangents = (ṗ, ḟ(True), ḟ(False))", tan, lin.norm(("tuple", (pt, tg(tD), tg(fD)))))
            A, B, Cc = ("param", "p_"), ("param", "t_"), ("param", "f_")
            body = apply_fn(ev, f, (A, B, Cc))
            if body is None:
                ck.fail("mixing function is a function the analyser can apply (closure, partial, module-level function)", f"found {short(f, ev)}")
            else:
                ck.lineq("mix(p, t, f) = p·t + (1 − p)·f", body, ("binop", "+", ("binop", "*", A, B), ("binop", "*", ("binop", "-", C(1), A), Cc)))
        else:
            ck.eq("batched: lane-wise Rao-Blackwellised estimator", leaf, lin.norm(call(N(AD + "_flip_lane_rb_estimate"), KP, KD, p, pt)))
    if saw != {True, False}:
        ck.fail("scalar and batched cases", f"cases {saw}")
    ck.done()


def flip_mvd_rule(ctx, rule="ALG-flip-mvd"):
    ev = adev_ev(ctx)
    dotted = AD + "FlipMVD.prim_jvp_estimate"
    s = summarize(ctx, ev, dotted)
    lin = mk_lin(ev, extra=[adev_axioms])
    ck = Checker(ctx, ev, lin, rule, "adev.FlipMVD.prim_jvp_estimate", func_loc(ctx, dotted))
    p, pt = ("idx", PRIM, C(0)), ("idx", TAN, C(0))
    nd = call(N("jax.numpy.ndim"), p)
    saw = set()
    for batched in (False, True):
        leaf = ndim_case(ctx, ev, s.ret, p, 1 if batched else 0, "adev.FlipMVD")
        saw.add(batched)
        leaf = lin.norm(leaf)
        if batched:
            ck.eq("batched: lane-wise estimator", leaf, lin.norm(call(N(AD + "_flip_lane_rb_estimate"), KP, KD, p, pt)))
            continue
        b = call(N(DIST + "flip.sample"), p)
        bD = ("call", KD, (dual(b, zero_like(b)),), ())
        other = call(N(AD + "_first_leaf"), ("call", KP, (call(N("jax.numpy.logical_not"), b),), ()))
        if not (is_call(leaf, name=AD + "Dual") and len(leaf[2]) == 2):
            ck.fail("scalar: returns Dual", f"found {short(leaf, ev, 200)}")
            continue
        ck.eq("primal = continuation at the sampled outcome", leaf[2][0], lin.norm(pr(bD)))
        sign = call(N("jax.numpy.where"), b, C(-1.0), C(1.0))
        want = ("binop", "+", tg(bD), ("binop", "*", ("binop", "*", sign, ("binop", "-", other, pr(bD))), pt))
        ck.lineq("tangent = ḟ(b) + (−1 if b else +1)·(f(¬b) − f(b))·ṗ", leaf[2][1], want)
    if saw != {True, False}:
        ck.fail("scalar and batched cases", f"cases {saw}")
    ck.done()


def lane_rb_rule(ctx, rule="ALG-flip-lane-rb"):
    ev = mk_ev(ctx)
    dotted = AD + "_flip_lane_rb_estimate"
    s = summarize(ctx, ev, dotted)
    lin = mk_lin(ev, extra=[adev_axioms])
    ck = Checker(ctx, ev, lin, rule, "adev._flip_lane_rb_estimate", func_loc(ctx, dotted))
    KDp, P, PT = ("param", "kdual"), ("param", "p_primal"), ("param", "p_tangent")
    r = lin.norm(s.ret)
    b = call(N(DIST + "flip.sample"), P)
    bD = lin.norm(("call", KDp, (dual(b, zero_like(b)),), ()))
    if not (is_call(r, name=AD + "Dual") and len(r[2]) == 2):
        ck.fail("returns Dual", f"found {short(r, ev, 200)}")
        ck.done()
        return
    ck.eq("primal = continuation at the sampled lanes", r[2][0], lin.norm(pr(bD)))
    t = r[2][1]
    loops = [x for x in subterms(t) if x[0] == "loopres" and x[2] == "est"]
    if len(loops) != 1:
        ck.fail("tangent = ḟ(b) + Σ_lanes est_i", f"found {short(t, ev, 200)}")
        ck.done()
        return
    lp = loops[0]
    ck.lineq("tangent = ḟ(b) + accumulated lane estimates", t, ("binop", "+", lin.norm(tg(bD)), lp))
    lid, init, step = lp[1], lp[3], lp[4]
    if not (is_call(init, name="jax.numpy.zeros_like") or lin.lin(init) == {}):
        ck.fail("accumulator starts at zero", f"found {short(init, ev)}")
    cur = ("loopcur", lid, "est")
    incr = ("binop", "-", step, cur)
    # per-lane: sign_i·(f(b with lane i flipped) − f(b))·ṗ_i
    flat = call(N("jax.numpy.reshape"), b, ("tuple", (C(-1),)))
    its = [x for x in subterms(step) if x[0] == "iter" and x[1] == lid]
    if not its:
        ck.fail("per-lane loop", "loop index not found")
        ck.done()
        return
    i = its[0]
    bi = ("idx", flat, i)
    flipped = call(N("jax.numpy.reshape"), ("call", ("attr", ("idx", ("attr", flat, "at"), i), "set"), (call(N("jax.numpy.logical_not"), bi),), ()), ("attr", b, "shape"))
    oD = lin.norm(("call", KDp, (dual(flipped, zero_like(flipped)),), ()))
    sign = call(N("jax.numpy.where"), bi, C(-1.0), C(1.0))
    pti = ("idx", call(N("jax.numpy.reshape"), PT, ("tuple", (C(-1),))), i)
    ck.lineq("lane estimate = (−1 if b_i else +1)·(f(b with lane i flipped) − f(b))·ṗ_i", incr,
             ("binop", "*", ("binop", "*", sign, ("binop", "-", pr(oD), lin.norm(pr(bD)))), pti))
    rng = i[2]
    if not (is_call(rng, name="builtins.range") and any(y == ("attr", flat, "shape") or (y[0] == "idx" and y[1] == ("attr", flat, "shape")) for y in subterms(rng))):
        ck.fail("loop over every lane", f"found range {short(rng, ev)}")
    ck.done()


REPARAM = {
    "NormalREPARAM": ("normal", lambda a, b, e: ("binop", "+", a, ("binop", "*", b, e))),
    "MultivariateNormalDiagREPARAM": ("normal", lambda a, b, e: ("binop", "+", a, ("binop", "*", b, e))),
    "UniformREPARAM": ("uniform", lambda a, b, e: ("binop", "+", a, ("binop", "*", ("binop", "-", b, a), e))),
    "MultivariateNormalREPARAM": ("multivariate_normal", None),
}


def reparam_rule(ctx, rule="ALG-reparam"):
    for name, (noise, form) in REPARAM.items():
        ev = adev_ev(ctx)
        dotted = AD + name + ".prim_jvp_estimate"
        s = summarize(ctx, ev, dotted)
        lin = mk_lin(ev, extra=[adev_axioms])
        ck = Checker(ctx, ev, lin, rule, f"adev.{name}.prim_jvp_estimate", func_loc(ctx, dotted))
        r = s.ret
        ok = is_call(r) and r[1] == KD and len(r[2]) == 1 and is_call(r[2][0], name=AD + "Dual") and len(r[2][0][2]) == 2
        if not ok:
            ck.fail("returns kdual(Dual(*jvp(g, θ, θ̇)))", f"found {short(r, ev, 200)}")
            ck.done()
            continue
        j0, j1 = r[2][0][2]
        if not (j0[0] == "idx" and is_const(j0[2], 0) and j1[0] == "idx" and is_const(j1[2], 1) and j0[1] == j1[1] and is_call(j0[1], name="jax.jvp")):
            ck.fail("Dual(primal, tangent) of one jvp", f"found {short(r[2][0], ev, 200)}")
            ck.done()
            continue
        f, prim, tan = j0[1][2]
        p0, p1 = ("idx", PRIM, C(0)), ("idx", PRIM, C(1))
        # the site has exactly two parameters, so the whole primal/tangent tree and the pair of its two components are the same value
        if prim != PRIM:
            ck.eq("jvp primals = the site's parameters in order", prim, ("tuple", (p0, p1)))
        if tan != TAN:
            ck.eq("jvp tangents = the parameters' tangents in the same order", tan, ("tuple", (("idx", TAN, C(0)), ("idx", TAN, C(1)))))
        A, B = ("param", "a_"), ("param", "b_")
        body = apply_fn(ev, f, (A, B))
        if body is None:
            ck.fail("transform is a function the analyser can apply (closure, partial, module-level function)", f"found {short(f, ev)}")
            ck.done()
            continue
        eps = [x for x in set(subterms(body)) if is_call(x, name=DIST + noise + ".sample")]
        if len(eps) != 1:
            ck.fail(f"noise = one {noise}.sample draw closed over by the transform", f"{len(eps)} draws")
            ck.done()
            continue
        e = eps[0]
        if form is not None:
            ck.lineq("pathwise transform", body, form(A, B, e))
        else:
            L = call(N("jax.numpy.linalg.cholesky"), B)
            ck.eq("pathwise transform = loc + cholesky(cov) @ ε", body, ("binop", "+", A, ("binop", "@", L, e)))
        # DEP−: the noise has no value dependence on the differentiable parameters
        allowed = {"jax.numpy.zeros_like", "jax.numpy.ones_like", "jax.numpy.eye", "jax.numpy.shape", "jax.numpy.zeros", "jax.numpy.ones"}

        def leaks(t, shielded=False):
            if t in (p0, p1, PRIM, DT) or t == ("idx", TAN, C(0)) or t == ("idx", TAN, C(1)):
                return not shielded
            if not isinstance(t, tuple) or not t:
                return False
            h = t[0]
            if h == "call" and t[1][0] == "name" and t[1][1] in allowed:
                return any(leaks(a, True) for a in t[2])
            if h == "attr" and t[2] in ("shape", "dtype", "ndim"):
                return leaks(t[1], True)
            if h == "call" and t[1] == N("jax.numpy.broadcast_arrays"):
                return any(leaks(a, shielded) for a in t[2])
            return any(leaks(x, shielded) for x in t if isinstance(x, tuple))
        if leaks(e):
            ck.fail("noise independent of the parameter values (only shapes may be used)", f"found {short(e, ev, 200)}")
        # SHAPE: the noise must have the broadcast shape of ALL parameters it is combined with elementwise — otherwise a
        # batched parameter paired with a scalar one shares a single draw across its lanes
        if name != "MultivariateNormalREPARAM":
            missing = [i for i, p_ in enumerate((p0, p1)) if not any(x == p_ for x in subterms(e))]
            if missing:
                ck.fail("noise shaped by the broadcast of both parameters",
                        f"the noise draw {short(e, ev, 160)} does not depend on the shape of parameter {missing}: with that parameter batched and the other "
                        "scalar, every lane shares one draw (lanes perfectly correlated)")
        elif not any(x == p0 for x in subterms(e)):
            ck.fail("noise shaped by the location", f"found {short(e, ev, 160)}")
        # standard noise: location 0 / scale 1 (or [0, 1] for uniform; identity covariance)
        a0, a1 = (e[2] + (NONE, NONE))[:2]
        z = any(is_call(a0, name=n) for n in ("jax.numpy.zeros_like", "jax.numpy.zeros")) or lin.lin(a0) == {}
        o = any(is_call(a1, name=n) for n in ("jax.numpy.ones_like", "jax.numpy.ones", "jax.numpy.eye")) or lin.lin(("binop", "-", a1, C(1))) == {}
        if not (z and o):
            ck.fail("standard noise (zero location, unit scale)", f"found {short(e, ev, 160)}")
        ck.done()


# The CPS interpreter, default-JVP path, cond arm, forward_mode, custom-JVP bridge and Dual helpers are decided in adevi.py
# (finite-model evaluation); their former syntax-matching versions were removed after benign refactoring R8 showed them firing on
# behaviour-preserving rewrites.

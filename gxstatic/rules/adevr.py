"""Rules over genjax.adev: shared by C11 (estimators) and C15 (deterministic code = forward-mode AD)."""
from __future__ import annotations

import ast

from ..model import AnalysisError
from ..symeval import ts, subterms, subst, is_const, C, NONE
from ..linform import fmt_lf
from .util import (CORE, N, call, mk_ev, mk_lin, summarize, spine_cases, all_cases, none_test, items, is_call, mentions, func_loc, short)
from .gfi import Checker, is_where
from .pjaxr import fnode, unp

AD = "genjax.adev."
DIST = "genjax.distributions."
SELF = ("param", "self")
DT = ("param", "dual_tree")
KONTS = ("param", "konts")
KP, KD = ("idx", KONTS, C(0)), ("idx", KONTS, C(1))
PRIM = call(N(AD + "Dual.tree_primal"), DT)
TAN = call(N(AD + "Dual.tree_tangent"), DT)


def unz(d):
    return call(N(AD + "Dual.tree_unzip"), d)


def pr(d):
    return ("idx", ("idx", unz(d), C(0)), C(0))


def tg(d):
    return ("idx", ("idx", unz(d), C(1)), C(0))


def dual(a, b):
    return call(N(AD + "Dual"), a, b)


def zero_like(v):
    return call(N(AD + "_zero_tangent_like"), v)


def adev_axioms(x):
    # _discrete_zero_tangent(v) is _zero_tangent_like(v)  (one-line forwarding helper, checked below)
    if is_call(x, name=AD + "_discrete_zero_tangent") and len(x[2]) == 1:
        return zero_like(x[2][0])
    if x[0] == "attr" and x[2] == "value" and x[1][0] == "attr" and x[1][1] == SELF and x[1][2] in ("differentiable_logpdf", "sample_function", "keyful_sample_function"):
        return ("attr", SELF, x[1][2] + "!")
    return None


def primitives(ctx):
    out = {n.name: (d, n, m) for d, n, m in ctx.p.subclasses_of("ADEVPrimitive") if d.startswith("genjax.adev.")}
    floor = {"REINFORCE", "FlipEnum", "FlipMVD", "FlipEnumParallel", "CategoricalEnumParallel", "NormalREPARAM", "MultivariateNormalDiagREPARAM",
             "UniformREPARAM", "MultivariateNormalREPARAM"}
    ctx.need(floor <= set(out), f"anchor vanished: ADEV primitives {sorted(floor - set(out))}")
    return out


def adev_ev(ctx):
    return mk_ev(ctx, self_inline={"sample"}, depth=3)


# ====================================================================== continuation protocol (SIB-C11-konts)
def kont_protocol(ctx, rule="SIB-continuations"):
    """kdual is applied to Dual-typed arguments and its result is consumed as a Dual; kpure to primal values."""
    prims = primitives(ctx)
    for name in sorted(prims):
        ev = mk_ev(ctx)
        dotted = AD + name + ".prim_jvp_estimate"
        s = summarize(ctx, ev, dotted)
        construct = f"adev.{name}.prim_jvp_estimate"
        problems = []
        kd_names = {KD, ("param", "kdual")}

        def is_dual_term(a):
            return is_call(a, name=AD + "Dual") or is_call(a, name=AD + "Dual.tree_pure") or is_call(a, name=AD + "Dual.dual_tree")

        ncalls = 0
        for x in set(subterms(s.ret)):
            if is_call(x) and x[1] in kd_names and not any(isinstance(a, tuple) and a and a[0] == "lane" for a in x[2]):
                ncalls += 1
                if not x[2] or not all(is_dual_term(a) for a in x[2]):
                    problems.append(("kdual applied to non-Dual arguments", short(x, ev, 160)))
            if x[0] == "lanes":
                rec = ev.vmaps[x[1]]
                if rec["f"] in kd_names:
                    ncalls += 1
                    raw = rec["args"]
                    if not all(is_dual_term(a) for a in raw):
                        problems.append(("modular_vmap(kdual) applied to raw tuples instead of Dual values", short(("tuple", raw), ev, 200)))
                    # result consumed as a pair?
                    for y in set(subterms(s.ret)):
                        if y[0] == "idx" and y[1] == x and is_const(y[2]):
                            problems.append(("result of the dual continuation unpacked as a (primal, tangent) pair instead of a Dual", short(y, ev, 120)))
                            break
            if is_call(x) and x[1] in (KP, ("param", "kpure")):
                if any(is_dual_term(a) for a in x[2]):
                    problems.append(("kpure applied to Dual arguments", short(x, ev, 160)))
        # helper delegation counts as use
        deleg = [x for x in subterms(s.ret) if is_call(x, name=AD + "_flip_lane_rb_estimate")]
        if ncalls == 0 and not deleg:
            problems.append(("continuation never applied", "no kdual call"))
        if problems:
            seen = set()
            for k, d in problems:
                if k in seen:
                    continue
                seen.add(k)
                ctx.bad(rule, construct, k, f"{k}: {d} — the interpreter's dual continuation takes Dual arguments (one per site output) and returns one Dual", func_loc(ctx, dotted))
        else:
            ctx.ok(rule, construct, f"{ncalls} continuation applications")
    # the interpreter side: _sample_dual_kont(*duals: Dual) -> Dual ; _sample_pure_kont(*args) -> list
    node, mod = fnode(ctx, AD + "ADEV.eval_jaxpr_adev")
    fns = {f.name: f for f in ast.walk(node) if isinstance(f, ast.FunctionDef)}
    ok = "_sample_dual_kont" in fns and "_sample_pure_kont" in fns and fns["_sample_dual_kont"].args.vararg is not None and fns["_sample_pure_kont"].args.vararg is not None
    if ok:
        ctx.ok(rule, "adev.ADEV.eval_jaxpr_adev (continuations)", "dual continuation takes *duals, pure continuation takes *args")
    else:
        ctx.bad(rule, "adev.ADEV.eval_jaxpr_adev (continuations)", "continuation signatures", "continuation closures not found", ctx.loc(mod, node))


# ====================================================================== ALG-C11
def reinforce_rule(ctx, rule="ALG-reinforce"):
    ev = adev_ev(ctx)
    dotted = AD + "REINFORCE.prim_jvp_estimate"
    s = summarize(ctx, ev, dotted)
    lin = mk_lin(ev, extra=[adev_axioms])
    ck = Checker(ctx, ev, lin, rule, "adev.REINFORCE.prim_jvp_estimate", func_loc(ctx, dotted))
    r = lin.norm(s.ret)
    if not (is_call(r, name=AD + "Dual") and len(r[2]) == 2):
        ck.fail("returns Dual(primal, tangent)", f"found {short(r, ev, 200)}")
        ck.done()
        return
    v = ("call", ("attr", SELF, "sample_function!"), (("star", PRIM),), ())
    out = ("call", KD, (call(N(AD + "Dual.tree_pure"), v),), ())
    P, T = pr(out), tg(out)
    ck.eq("primal = primal of the dual continuation at the sampled value", r[2][0], lin.norm(P))
    lpt = ("idx", call(N("jax.jvp"), ("attr", SELF, "differentiable_logpdf!"), ("tuple", (v, ("star", PRIM))), ("tuple", (zero_like(v), ("star", TAN)))), C(1))
    ck.lineq("tangent = df + f(X)·d log p(X; θ)  (score taken at (X, θ) along (0, θ̇))", r[2][1], ("binop", "+", T, ("binop", "*", P, lpt)))
    n_s = len({x for x in subterms(r) if is_call(x) and x[1] == ("attr", SELF, "sample_function!")})
    if n_s != 1:
        ck.fail("one draw per site", f"{n_s} distinct sample terms")
    ck.done()


def flip_enum_rule(ctx, rule="ALG-flip-enum"):
    ev = adev_ev(ctx)
    dotted = AD + "FlipEnum.prim_jvp_estimate"
    s = summarize(ctx, ev, dotted)
    lin = mk_lin(ev, extra=[adev_axioms])
    ck = Checker(ctx, ev, lin, rule, "adev.FlipEnum.prim_jvp_estimate", func_loc(ctx, dotted))
    p, pt = ("idx", PRIM, C(0)), ("idx", TAN, C(0))
    scalar_c = ("cmp", "==", call(N("jax.numpy.ndim"), p), C(0))
    saw = set()
    for asg, leaf in spine_cases(s.ret):
        sc = None
        for c, v in asg.items():
            if c == scalar_c:
                sc = v
            elif c == ("cmp", ">", call(N("jax.numpy.ndim"), p), C(0)):
                sc = not v
            else:
                raise AnalysisError(f"adev.FlipEnum: unrecognised condition {short(c, ev)}")
        saw.add(sc)
        leaf = lin.norm(leaf)
        if sc:
            def at(b):
                a = call(N("jax.numpy.array"), C(b))
                return ("call", KD, (dual(a, zero_like(a)),), ())
            tD, fD = lin.norm(at(True)), lin.norm(at(False))
            if not (is_call(leaf, name=AD + "Dual") and len(leaf[2]) == 2):
                ck.fail("scalar: returns Dual(jvp primal, jvp tangent)", f"found {short(leaf, ev, 200)}")
                continue
            j0, j1 = leaf[2]
            if not (j0[0] == "idx" and is_const(j0[2], 0) and j1[0] == "idx" and is_const(j1[2], 1) and j0[1] == j1[1] and is_call(j0[1], name="jax.jvp")):
                ck.fail("scalar: primal/tangent = jax.jvp(mix, …)", f"found {short(leaf, ev, 200)}")
                continue
            J = j0[1]
            f, prim, tan = J[2]
            ck.eq("jvp primals = (p, f(True), f(False)) from the dual continuation", prim, lin.norm(("tuple", (p, pr(tD), pr(fD)))))
            ck.eq("jvp tangents = (ṗ, ḟ(True), ḟ(False))", tan, lin.norm(("tuple", (pt, tg(tD), tg(fD)))))
            if f[0] != "closure":
                ck.fail("mixing function is local", f"found {short(f, ev)}")
            else:
                A, B, Cc = ("param", "p_"), ("param", "t_"), ("param", "f_")
                body = ev.apply_closure(f, (A, B, Cc), ())
                ck.lineq("mix(p, t, f) = p·t + (1 − p)·f", body, ("binop", "+", ("binop", "*", A, B), ("binop", "*", ("binop", "-", C(1), A), Cc)))
        else:
            ck.eq("batched: lane-wise Rao-Blackwellised estimator", leaf, lin.norm(call(N(AD + "_flip_lane_rb_estimate"), KP, KD, p, pt)))
    if saw != {True, False}:
        ck.fail("scalar and batched cases", f"cases {saw}")
    ck.done()


def flip_mvd_rule(ctx, rule="ALG-flip-mvd"):
    ev = adev_ev(ctx)
    dotted = AD + "FlipMVD.prim_jvp_estimate"
    s = summarize(ctx, ev, dotted)
    lin = mk_lin(ev, extra=[adev_axioms])
    ck = Checker(ctx, ev, lin, rule, "adev.FlipMVD.prim_jvp_estimate", func_loc(ctx, dotted))
    p, pt = ("idx", PRIM, C(0)), ("idx", TAN, C(0))
    nd = call(N("jax.numpy.ndim"), p)
    saw = set()
    for asg, leaf in spine_cases(s.ret):
        batched = None
        for c, v in asg.items():
            if c == ("cmp", ">", nd, C(0)):
                batched = v
            elif c == ("cmp", "==", nd, C(0)):
                batched = not v
            else:
                raise AnalysisError(f"adev.FlipMVD: unrecognised condition {short(c, ev)}")
        saw.add(batched)
        leaf = lin.norm(leaf)
        if batched:
            ck.eq("batched: lane-wise estimator", leaf, lin.norm(call(N(AD + "_flip_lane_rb_estimate"), KP, KD, p, pt)))
            continue
        b = call(N(DIST + "flip.sample"), p)
        bD = ("call", KD, (dual(b, zero_like(b)),), ())
        other = call(N(AD + "_first_leaf"), ("call", KP, (call(N("jax.numpy.logical_not"), b),), ()))
        if not (is_call(leaf, name=AD + "Dual") and len(leaf[2]) == 2):
            ck.fail("scalar: returns Dual", f"found {short(leaf, ev, 200)}")
            continue
        ck.eq("primal = continuation at the sampled outcome", leaf[2][0], lin.norm(pr(bD)))
        sign = call(N("jax.numpy.where"), b, C(-1.0), C(1.0))
        want = ("binop", "+", tg(bD), ("binop", "*", ("binop", "*", sign, ("binop", "-", other, pr(bD))), pt))
        ck.lineq("tangent = ḟ(b) + (−1 if b else +1)·(f(¬b) − f(b))·ṗ", leaf[2][1], want)
    if saw != {True, False}:
        ck.fail("scalar and batched cases", f"cases {saw}")
    ck.done()


def lane_rb_rule(ctx, rule="ALG-flip-lane-rb"):
    ev = mk_ev(ctx)
    dotted = AD + "_flip_lane_rb_estimate"
    s = summarize(ctx, ev, dotted)
    lin = mk_lin(ev, extra=[adev_axioms])
    ck = Checker(ctx, ev, lin, rule, "adev._flip_lane_rb_estimate", func_loc(ctx, dotted))
    KDp, P, PT = ("param", "kdual"), ("param", "p_primal"), ("param", "p_tangent")
    r = lin.norm(s.ret)
    b = call(N(DIST + "flip.sample"), P)
    bD = lin.norm(("call", KDp, (dual(b, zero_like(b)),), ()))
    if not (is_call(r, name=AD + "Dual") and len(r[2]) == 2):
        ck.fail("returns Dual", f"found {short(r, ev, 200)}")
        ck.done()
        return
    ck.eq("primal = continuation at the sampled lanes", r[2][0], lin.norm(pr(bD)))
    t = r[2][1]
    loops = [x for x in subterms(t) if x[0] == "loopres" and x[2] == "est"]
    if len(loops) != 1:
        ck.fail("tangent = ḟ(b) + Σ_lanes est_i", f"found {short(t, ev, 200)}")
        ck.done()
        return
    lp = loops[0]
    ck.lineq("tangent = ḟ(b) + accumulated lane estimates", t, ("binop", "+", lin.norm(tg(bD)), lp))
    lid, init, step = lp[1], lp[3], lp[4]
    if not (is_call(init, name="jax.numpy.zeros_like") or lin.lin(init) == {}):
        ck.fail("accumulator starts at zero", f"found {short(init, ev)}")
    cur = ("loopcur", lid, "est")
    incr = ("binop", "-", step, cur)
    # per-lane: sign_i·(f(b with lane i flipped) − f(b))·ṗ_i
    flat = call(N("jax.numpy.reshape"), b, ("tuple", (C(-1),)))
    its = [x for x in subterms(step) if x[0] == "iter" and x[1] == lid]
    if not its:
        ck.fail("per-lane loop", "loop index not found")
        ck.done()
        return
    i = its[0]
    bi = ("idx", flat, i)
    flipped = call(N("jax.numpy.reshape"), ("call", ("attr", ("idx", ("attr", flat, "at"), i), "set"), (call(N("jax.numpy.logical_not"), bi),), ()), ("attr", b, "shape"))
    oD = lin.norm(("call", KDp, (dual(flipped, zero_like(flipped)),), ()))
    sign = call(N("jax.numpy.where"), bi, C(-1.0), C(1.0))
    pti = ("idx", call(N("jax.numpy.reshape"), PT, ("tuple", (C(-1),))), i)
    ck.lineq("lane estimate = (−1 if b_i else +1)·(f(b with lane i flipped) − f(b))·ṗ_i", incr,
             ("binop", "*", ("binop", "*", sign, ("binop", "-", pr(oD), lin.norm(pr(bD)))), pti))
    rng = i[2]
    if not (is_call(rng, name="builtins.range") and any(y == ("attr", flat, "shape") or (y[0] == "idx" and y[1] == ("attr", flat, "shape")) for y in subterms(rng))):
        ck.fail("loop over every lane", f"found range {short(rng, ev)}")
    ck.done()


REPARAM = {
    "NormalREPARAM": ("normal", lambda a, b, e: ("binop", "+", a, ("binop", "*", b, e))),
    "MultivariateNormalDiagREPARAM": ("normal", lambda a, b, e: ("binop", "+", a, ("binop", "*", b, e))),
    "UniformREPARAM": ("uniform", lambda a, b, e: ("binop", "+", a, ("binop", "*", ("binop", "-", b, a), e))),
    "MultivariateNormalREPARAM": ("multivariate_normal", None),
}


def reparam_rule(ctx, rule="ALG-reparam"):
    for name, (noise, form) in REPARAM.items():
        ev = adev_ev(ctx)
        dotted = AD + name + ".prim_jvp_estimate"
        s = summarize(ctx, ev, dotted)
        lin = mk_lin(ev, extra=[adev_axioms])
        ck = Checker(ctx, ev, lin, rule, f"adev.{name}.prim_jvp_estimate", func_loc(ctx, dotted))
        r = s.ret
        ok = is_call(r) and r[1] == KD and len(r[2]) == 1 and is_call(r[2][0], name=AD + "Dual") and len(r[2][0][2]) == 2
        if not ok:
            ck.fail("returns kdual(Dual(*jvp(g, θ, θ̇)))", f"found {short(r, ev, 200)}")
            ck.done()
            continue
        j0, j1 = r[2][0][2]
        if not (j0[0] == "idx" and is_const(j0[2], 0) and j1[0] == "idx" and is_const(j1[2], 1) and j0[1] == j1[1] and is_call(j0[1], name="jax.jvp")):
            ck.fail("Dual(primal, tangent) of one jvp", f"found {short(r[2][0], ev, 200)}")
            ck.done()
            continue
        f, prim, tan = j0[1][2]
        p0, p1 = ("idx", PRIM, C(0)), ("idx", PRIM, C(1))
        ck.eq("jvp primals = the site's parameters in order", prim, ("tuple", (p0, p1)))
        ck.eq("jvp tangents = the parameters' tangents in the same order", tan, ("tuple", (("idx", TAN, C(0)), ("idx", TAN, C(1)))))
        if f[0] != "closure":
            ck.fail("transform is local", f"found {short(f, ev)}")
            ck.done()
            continue
        A, B = ("param", "a_"), ("param", "b_")
        body = ev.apply_closure(f, (A, B), ())
        eps = [x for x in set(subterms(body)) if is_call(x, name=DIST + noise + ".sample")]
        if len(eps) != 1:
            ck.fail(f"noise = one {noise}.sample draw closed over by the transform", f"{len(eps)} draws")
            ck.done()
            continue
        e = eps[0]
        if form is not None:
            ck.lineq("pathwise transform", body, form(A, B, e))
        else:
            L = call(N("jax.numpy.linalg.cholesky"), B)
            ck.eq("pathwise transform = loc + cholesky(cov) @ ε", body, ("binop", "+", A, ("binop", "@", L, e)))
        # DEP−: the noise has no value dependence on the differentiable parameters
        allowed = {"jax.numpy.zeros_like", "jax.numpy.ones_like", "jax.numpy.eye", "jax.numpy.shape", "jax.numpy.zeros", "jax.numpy.ones"}

        def leaks(t, shielded=False):
            if t in (p0, p1, PRIM, DT) or t == ("idx", TAN, C(0)) or t == ("idx", TAN, C(1)):
                return not shielded
            if not isinstance(t, tuple) or not t:
                return False
            h = t[0]
            if h == "call" and t[1][0] == "name" and t[1][1] in allowed:
                return any(leaks(a, True) for a in t[2])
            if h == "attr" and t[2] in ("shape", "dtype", "ndim"):
                return leaks(t[1], True)
            if h == "call" and t[1] == N("jax.numpy.broadcast_arrays"):
                return any(leaks(a, shielded) for a in t[2])
            return any(leaks(x, shielded) for x in t if isinstance(x, tuple))
        if leaks(e):
            ck.fail("noise independent of the parameter values (only shapes may be used)", f"found {short(e, ev, 200)}")
        # SHAPE: the noise must have the broadcast shape of ALL parameters it is combined with elementwise — otherwise a
        # batched parameter paired with a scalar one shares a single draw across its lanes
        if name != "MultivariateNormalREPARAM":
            missing = [i for i, p_ in enumerate((p0, p1)) if not any(x == p_ for x in subterms(e))]
            if missing:
                ck.fail("noise shaped by the broadcast of both parameters",
                        f"the noise draw {short(e, ev, 160)} does not depend on the shape of parameter {missing}: with that parameter batched and the other "
                        "scalar, every lane shares one draw (lanes perfectly correlated)")
        elif not any(x == p0 for x in subterms(e)):
            ck.fail("noise shaped by the location", f"found {short(e, ev, 160)}")
        # standard noise: location 0 / scale 1 (or [0, 1] for uniform; identity covariance)
        a0, a1 = (e[2] + (NONE, NONE))[:2]
        z = any(is_call(a0, name=n) for n in ("jax.numpy.zeros_like", "jax.numpy.zeros")) or lin.lin(a0) == {}
        o = any(is_call(a1, name=n) for n in ("jax.numpy.ones_like", "jax.numpy.ones", "jax.numpy.eye")) or lin.lin(("binop", "-", a1, C(1))) == {}
        if not (z and o):
            ck.fail("standard noise (zero location, unit scale)", f"found {short(e, ev, 160)}")
        ck.done()


# ====================================================================== interpreter (EXH/ROLE-C11-interp)
def interpreter_rule(ctx, rule="ROLE-adev-interpreter"):
    node, mod = fnode(ctx, AD + "ADEV.eval_jaxpr_adev")
    construct = "adev.ADEV.eval_jaxpr_adev"
    fns = {f.name: f for f in ast.walk(node) if isinstance(f, ast.FunctionDef)}
    failed = False

    def bad(key, what, n=node):
        nonlocal failed
        failed = True
        ctx.bad(rule, construct, key, what, ctx.loc(mod, n))

    for k in ("_sample_pure_kont", "_sample_dual_kont", "_cond_dual_kont"):
        f = fns.get(k)
        if f is None:
            bad(f"{k} present", "continuation closure missing")
            continue
        calls = [c for c in ast.walk(f) if isinstance(c, ast.Call) and unp(c.func) in ("eval_jaxpr_iterate_pure", "eval_jaxpr_iterate_dual")]
        if len(calls) != 1:
            bad(f"{k}: one continuation evaluation", f"{len(calls)} found", f)
            continue
        a = [unp(x) for x in calls[0].args]
        want_env = "pure_env" if k == "_sample_pure_kont" else "dual_env"
        want_fn = "eval_jaxpr_iterate_pure" if k == "_sample_pure_kont" else "eval_jaxpr_iterate_dual"
        if unp(calls[0].func) != want_fn or a[:3] != ["eqns[eqn_idx + 1:]", want_env, "eqn.outvars"]:
            bad(f"{k}: evaluates the rest of the program (eqns[eqn_idx+1:]) bound to this site's outvars", f"found {unp(calls[0])}", f)
    src = unp(node)
    if "dual_env = dual_env.copy()" not in src or "pure_env = _primal_env(dual_env)" not in src:
        bad("continuations run over a copy of the environment", "environment copy missing")
    if "adev_prim.prim_jvp_estimate(tuple(dual_tree), (_sample_pure_kont, _sample_dual_kont))" not in src.replace("\n", " ").replace("  ", " "):
        calls = [c for c in ast.walk(node) if isinstance(c, ast.Call) and unp(c.func) == "adev_prim.prim_jvp_estimate"]
        if len(calls) != 1 or [unp(a) for a in calls[0].args] != ["tuple(dual_tree)", "(_sample_pure_kont, _sample_dual_kont)"]:
            bad("site estimator receives (dual args, (kpure, kdual))", f"found {[unp(c) for c in calls]}")
    # plain sample_p inside an expectation raises
    ifs = [i for i in ast.walk(node) if isinstance(i, ast.If) and unp(i.test) == "primitive is sample_p"]
    if not ifs or not any(isinstance(s_, ast.Raise) for s_ in ifs[0].body):
        bad("plain sample_p inside an expectation raises", "no raise for `primitive is sample_p`")
    if "primitive is adev_sample_p" not in src:
        bad("adev_sample_p sites are interpreted", "no branch for adev_sample_p")
    if "Dual.dual_tree(primals, tangents)" not in src or "tangent_tree = jtu.tree_unflatten(in_tree, flat_tangents)" not in src:
        bad("site arguments rebuilt as a Dual tree from the equation's operands", "argument reconstruction changed")
    if not failed:
        ctx.ok(rule, construct, "continuations = rest of the program over an environment copy, bound to the site's outvars; plain sample_p raises")
    # custom-JVP bridge
    ev = mk_ev(ctx)
    s = summarize(ctx, ev, AD + "invoke_closed_over_jvp")
    PR_, TG_ = ("param", "primals"), ("param", "tangents")
    inst = ("idx", PR_, C(0))
    d = ("call", ("attr", inst, "jvp_estimate"), (("star", call(N(AD + "Dual.dual_tree"), ("idx", PR_, C(1)), ("idx", TG_, C(1)))),), ())
    want = ("tuple", (pr(d), tg(d)))
    if s.ret == want:
        ctx.ok(rule, "adev.invoke_closed_over_jvp", "(primal, tangent) of instance.jvp_estimate(*Dual.dual_tree(primals, tangents))")
    else:
        ctx.bad(rule, "adev.invoke_closed_over_jvp", "bridge returns (primal, tangent) of jvp_estimate on the dual tree", f"found {short(s.ret, ev, 300)}", func_loc(ctx, AD + "invoke_closed_over_jvp"))
    m = ctx.p.modules["genjax.adev"]
    src = m.src
    if "invoke_closed_over.defjvp(invoke_closed_over_jvp" not in src or "@jax.custom_jvp\ndef invoke_closed_over" not in src:
        ctx.bad(rule, "adev.invoke_closed_over", "custom_jvp registered", "defjvp registration missing", "src/genjax/adev/__init__.py")
    else:
        ctx.ok(rule, "adev.invoke_closed_over", "custom_jvp with invoke_closed_over_jvp registered")
    s = summarize(ctx, ev, AD + "invoke_closed_over")
    if s.ret != ("call", ("attr", ("param", "instance"), "estimate"), (("star", ("param", "args")),), ()):
        ctx.bad(rule, "adev.invoke_closed_over", "primal = instance.estimate(*args)", f"found {short(s.ret, ev)}", func_loc(ctx, AD + "invoke_closed_over"))
    s = summarize(ctx, ev, AD + "Expectation.grad_estimate")
    ok = False
    for asg, leaf in spine_cases(s.ret):
        g = [x for x in subterms(leaf) if is_call(x) and is_call(x[1], name="jax.grad")]
        if g and g[0][2] == (("param", "primals"),) and g[0][1][2][0][0] == "closure":
            body = ev.apply_closure(g[0][1][2][0], (("param", "pp"),), ())
            ok = body == call(N(AD + "invoke_closed_over"), SELF, ("param", "pp"))
    if ok:
        ctx.ok(rule, "adev.Expectation.grad_estimate", "jax.grad of invoke_closed_over(self, primals)")
    else:
        ctx.bad(rule, "adev.Expectation.grad_estimate", "grad of the custom-JVP primal", f"found {short(s.ret, ev, 200)}", func_loc(ctx, AD + "Expectation.grad_estimate"))


# ====================================================================== C15
def default_jvp_path(ctx, rule="ROLE-default-jvp"):
    node, mod = fnode(ctx, AD + "ADEV.eval_jaxpr_adev")
    construct = "adev.ADEV.eval_jaxpr_adev[default]"
    src = unp(node)
    failed = False

    def bad(key, what):
        nonlocal failed
        failed = True
        ctx.bad(rule, construct, key, what, ctx.loc(mod, node))

    if "jvp = jax_autodiff.primitive_jvps.get(eqn.primitive)" not in src:
        bad("rule taken from JAX's primitive_jvps for this primitive", "lookup changed")
    if "canonical_tangents = [_canonicalize_tangent_for_primitive_jvp(p, t) for p, t in zip(flat_primals, flat_tangents)]" not in src:
        bad("tangents canonicalised (float0 → symbolic Zero) pairwise with their primals", "canonicalisation changed")
    if "if all((_is_ad_zero(t) for t in canonical_tangents)):" not in src:
        bad("primal-only shortcut only when ALL tangents are symbolic zeros", "shortcut condition changed")
    if "primal_outs, tangent_outs = jvp(flat_primals, canonical_tangents, **params)" not in src:
        bad("jvp(primals, canonical tangents, **params)", "jvp call changed")
    if "tangent_outs = _instantiate_zero_tangents(tangent_outs)" not in src:
        bad("symbolic zeros instantiated on the way out", "instantiate missing")
    if src.count("tangent_outs = jtu.tree_map(_zero_tangent_like, primal_outs)") < 2:
        bad("fresh zero tangents derived from the primal outputs", "zero tangents not derived from primal_outs")
    if "Dual.dual_tree(primal_outs, tangent_outs)" not in src:
        bad("outputs written back as Duals", "write-back changed")
    if "raise NotImplementedError(msg)" not in src:
        bad("missing rule raises", "no raise for a primitive without JVP rule")
    if not failed:
        ctx.ok(rule, construct, "primitive_jvps dispatch with canonicalised tangents; all-zero shortcut; zeros instantiated")
    # helper semantics
    ev = mk_ev(ctx)
    s = summarize(ctx, ev, AD + "_canonicalize_tangent_for_primitive_jvp")
    P_, T_ = ("param", "primal"), ("param", "tangent")
    good = any(x == call(N(AD + "_is_float0_tangent"), T_) for x in subterms(s.ret))
    for asg, leaf in all_cases(s.ret):
        isz = asg.get(call(N(AD + "_is_ad_zero"), T_))
        isf = asg.get(call(N(AD + "_is_float0_tangent"), T_))
        if isz:
            want = T_
        elif isf:
            want = ("call", N("jax.interpreters.ad.Zero.from_primal_value"), (P_,), ())
        else:
            want = T_
        if isz is None and isf is None:
            continue
        if leaf != want:
            good = False
    if good:
        ctx.ok(rule, "adev._canonicalize_tangent_for_primitive_jvp", "Zero stays, float0 → Zero.from_primal_value(primal), else unchanged")
    else:
        ctx.bad(rule, "adev._canonicalize_tangent_for_primitive_jvp", "canonicalisation table", f"found {short(s.ret, ev, 200)}", func_loc(ctx, AD + "_canonicalize_tangent_for_primitive_jvp"))
    s = summarize(ctx, ev, AD + "_zero_tangent_like")
    want = call(N("jax.interpreters.ad.instantiate_zeros"), call(N("jax.interpreters.ad.Zero.from_primal_value"), ("param", "v")))
    if s.ret == want:
        ctx.ok(rule, "adev._zero_tangent_like", "zero with the primal's shape and tangent dtype")
    else:
        ctx.bad(rule, "adev._zero_tangent_like", "instantiate_zeros(Zero.from_primal_value(v))", f"found {short(s.ret, ev)}", func_loc(ctx, AD + "_zero_tangent_like"))
    s = summarize(ctx, ev, AD + "_discrete_zero_tangent")
    if s.ret == zero_like(("param", "v")):
        ctx.ok(rule, "adev._discrete_zero_tangent")
    else:
        ctx.bad(rule, "adev._discrete_zero_tangent", "forwards to _zero_tangent_like", f"found {short(s.ret, ev)}", func_loc(ctx, AD + "_discrete_zero_tangent"))


def zero_tangent_shapes(ctx, rule="SHAPE-zero-tangent"):
    """Every freshly manufactured zero tangent is derived from its primal."""
    ev = mk_ev(ctx)
    dotted = AD + "Expectation.estimate"
    s = summarize(ctx, ev, dotted)
    ARGS = ("param", "args")
    r = s.ret
    construct = "adev.Expectation.estimate"
    tms = [x for x in subterms(r) if x[0] == "treemap"]
    dt = [x for x in subterms(r) if is_call(x, name=AD + "Dual.dual_tree")]
    if not dt or dt[0][2][0] != ARGS:
        ctx.bad(rule, construct, "dual tree built over the arguments", f"found {short(r, ev, 200)}", func_loc(ctx, dotted))
        return
    tan = dt[0][2][1]
    if tan[0] == "treemap":
        body = tan[2]
        dep = any(x[0] == "leaf" for x in subterms(body))
        if not dep:
            ctx.bad(rule, construct, f"zero tangents = tree_map(lambda _: {short(body, ev)}, args)",
                    "the zero tangent of every argument is the weak-typed Python scalar 0.0 whatever the argument's shape/dtype: shape-sensitive JVP rules "
                    "(transpose, dot_general, slicing) receive a scalar tangent for an array primal and integer arguments get a float tangent; "
                    "input: expectation(lambda x: jnp.sum(x.T @ x)).estimate(jnp.ones((2, 3)))", func_loc(ctx, dotted))
        else:
            ctx.ok(rule, construct, "zero tangents derived from the primals")
    else:
        ctx.ok(rule, construct, short(tan, ev, 100))
    if not (r[0] == "attr" and r[2] == "primal"):
        ctx.bad(rule, construct, "returns the primal of jvp_estimate", f"found {short(r, ev, 200)}", func_loc(ctx, dotted))
    # tree_pure and the final write-back
    node, mod = fnode(ctx, AD + "Dual.tree_pure")
    if "return Dual(v, _zero_tangent_like(v))" in unp(node):
        ctx.ok(rule, "adev.Dual.tree_pure", "lifts with a zero tangent shaped like the value")
    else:
        ctx.bad(rule, "adev.Dual.tree_pure", "Dual(v, _zero_tangent_like(v))", "lift changed", ctx.loc(mod, node))
    node, mod = fnode(ctx, AD + "ADEV.eval_jaxpr_adev")
    if "out_dual = Dual(out_dual, _zero_tangent_like(out_dual))" in unp(node):
        ctx.ok(rule, "adev.ADEV.eval_jaxpr_adev (output lift)")
    else:
        ctx.bad(rule, "adev.ADEV.eval_jaxpr_adev (output lift)", "non-Dual output lifted with a shaped zero", "lift changed", ctx.loc(mod, node))


def cond_rule(ctx, rule="ROLE-adev-cond"):
    node, mod = fnode(ctx, AD + "ADEV.eval_jaxpr_adev")
    construct = "adev.ADEV.eval_jaxpr_adev[cond_p]"
    ifs = [i for i in ast.walk(node) if isinstance(i, ast.If) and unp(i.test) in ("eqn.primitive is jax.lax.cond_p", "primitive is jax.lax.cond_p", "eqn.primitive == jax.lax.cond_p")]
    if len(ifs) != 1:
        ctx.bad(rule, construct, "cond_p branch present", f"{len(ifs)} found", ctx.loc(mod, node))
        return
    body = ifs[0].body
    src = "\n".join(unp(s) for s in body)
    n_rev = src.count("reversed(")
    conds = [c for s_ in body for c in ast.walk(s_) if isinstance(c, ast.Call) and unp(c.func) == "jax.lax.cond"]
    failed = False

    def bad(key, what):
        nonlocal failed
        failed = True
        ctx.bad(rule, construct, key, what, ctx.loc(mod, ifs[0]))

    if len(conds) != 1:
        bad("re-issued as one jax.lax.cond", f"{len(conds)} cond calls")
    else:
        a = [unp(x) for x in conds[0].args]
        if a[0] != "Dual.tree_primal(in_vals[0])":
            bad("predicate = primal of the first operand", f"found {a[0]}")
        if n_rev != 1 or "reversed(branch_adev_functions)" not in src or "in_vals[1:]" not in a[-1]:
            bad("cond_p's (false, true) branch order reversed exactly once for lax.cond(pred, true_fn, false_fn, …)", f"reversed() occurs {n_rev} times; args {a}")
    if "ADEV.forward_mode(jaxpr_as_fun(fn), _cond_dual_kont)" not in src or "params['branches']" not in src:
        bad("every branch transformed with the post-cond continuation", "branch transformation changed")
    if "eqns[eqn_idx + 1:]" not in src or "eqn.outvars" not in src:
        bad("post-cond continuation = rest of the program bound to the cond's outvars", "continuation changed")
    if not failed:
        ctx.ok(rule, construct, "both branches transformed with the post-cond continuation; branch order reversed exactly once")
    # forward_mode plumbing
    node, mod = fnode(ctx, AD + "ADEV.forward_mode")
    src = unp(node)
    need = ["primals = Dual.tree_primal(duals)", "stage(f)(*primals)", "dual_leaves = Dual.tree_leaves(Dual.tree_pure(duals))",
            "ADEV.eval_jaxpr_adev(jaxpr, consts, dual_leaves)", "tree_primals, tree_tangents = Dual.tree_unzip(out_duals)", "vs = kont(out_dual_tree)"]
    miss = [n for n in need if n not in src]
    if miss:
        ctx.bad(rule, "adev.ADEV.forward_mode", "stage on primals, interpret on dual leaves, hand the Dual tree to the continuation", f"missing {miss}", ctx.loc(mod, node))
    else:
        ctx.ok(rule, "adev.ADEV.forward_mode")
    ev = mk_ev(ctx)
    s = summarize(ctx, ev, AD + "Dual.dual_tree")
    ok = s.ret[0] == "treemap" and s.ret[2] == dual(("leaf", s.ret[1], ("param", "primals")), ("leaf", s.ret[1], ("param", "tangents")))
    if ok:
        ctx.ok(rule, "adev.Dual.dual_tree", "leafwise Dual(primal, tangent)")
    else:
        ctx.bad(rule, "adev.Dual.dual_tree", "leafwise Dual(primal, tangent)", f"found {short(s.ret, ev)}", func_loc(ctx, AD + "Dual.dual_tree"))
    for m, fld in (("tree_primal", "primal"), ("tree_tangent", "tangent")):
        node, mod = fnode(ctx, AD + "Dual." + m)
        if f"return v.{fld}" in unp(node):
            ctx.ok(rule, f"adev.Dual.{m}")
        else:
            ctx.bad(rule, f"adev.Dual.{m}", f"extracts .{fld}", "changed", ctx.loc(mod, node))
    node, mod = fnode(ctx, AD + "Dual.tree_unzip")
    src = unp(node)
    if "primals = jtu.tree_leaves(Dual.tree_primal(v))" in src and "tangents = jtu.tree_leaves(Dual.tree_tangent(v))" in src and "return (tuple(primals), tuple(tangents))" in src:
        ctx.ok(rule, "adev.Dual.tree_unzip")
    else:
        ctx.bad(rule, "adev.Dual.tree_unzip", "(primal leaves, tangent leaves)", "changed", ctx.loc(mod, node))

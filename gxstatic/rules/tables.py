"""Guarded-store tables: a loop body is summarised as {store into container c under guard g := value}; the guards are
evaluated under every truth assignment of their atomic conditions, giving a decision table that is compared with the
specification.  Insensitive to if/elif vs guard-clause+continue structure, temporaries and statement order."""
from __future__ import annotations

import itertools

from ..model import AnalysisError
from ..symeval import ts, subterms, is_const, C, NONE
from .util import mk_ev, summarize, func_loc, short, N, call, is_call, items, CORE
from .c16 import bool_eval, bool_atoms
from .gfi import is_where

SELF = ("param", "self")


def final_pair(node):
    """Roles of the two containers a function returns, read from its last `return (A', B')` (through one temporary): each element is
    `C`, `C or None`, `C if C else None` or `C if F else None`; -> [(container name, flag name or None), (…)] or None."""
    import ast

    def last_return(stmts):
        # the return reached when no early exit is taken: the last statement, looking through a trailing if/else chain's else-arm
        for st in reversed(stmts):
            if isinstance(st, ast.Return) and st.value is not None:
                return st
            if isinstance(st, ast.If) and st.orelse:
                r = last_return(st.orelse)
                if r is not None:
                    return r
            break
        return None
    last = last_return(node.body)
    if last is None:
        for st in node.body:
            if isinstance(st, ast.Return) and st.value is not None:
                last = st
    if last is None:
        return None
    v = last.value
    if isinstance(v, ast.Name):
        for st in node.body:
            if isinstance(st, ast.Assign) and len(st.targets) == 1 and isinstance(st.targets[0], ast.Name) and st.targets[0].id == v.id:
                v = st.value
    if not (isinstance(v, ast.Tuple) and len(v.elts) == 2):
        return None
    out = []
    for e in v.elts:
        if isinstance(e, ast.Name):
            out.append((e.id, None))
        elif isinstance(e, ast.BoolOp) and isinstance(e.op, ast.Or) and len(e.values) == 2 and isinstance(e.values[0], ast.Name) \
                and isinstance(e.values[1], ast.Constant) and e.values[1].value is None:
            out.append((e.values[0].id, e.values[0].id))
        elif isinstance(e, ast.IfExp) and isinstance(e.body, ast.Name) and isinstance(e.test, ast.Name) and isinstance(e.orelse, ast.Constant) and e.orelse.value is None:
            out.append((e.body.id, e.test.id))
        else:
            return None
    return out


def loop_rows(s, kinds=("store", "assign")):
    """[(kind, name, value, guards-without-loop-marker)] for events inside the (single) loop of the summary."""
    rows = []
    for g, k, pl, ln, q in s.events:
        if k not in kinds:
            continue
        if not any(isinstance(c, tuple) and c and c[0] == "loop" for c, _ in g):
            continue
        gg = [(c, v) for c, v in g if not (isinstance(c, tuple) and c and c[0] == "loop")]
        if k == "store":
            tgt, val, base = pl
            rows.append(("store", base, val, gg, tgt))
        else:
            rows.append(("assign", pl[0], pl[1], gg, None))
    return rows


from .util import resolve_deep


def atoms_of(rows):
    atoms = []
    for _, _, val, gg, _ in rows:
        for c, _ in gg:
            bool_atoms(c, atoms)
        # conditions of conditional expressions inside the stored value are part of the decision too
        if isinstance(val, tuple):
            for x in subterms(val):
                if x[0] == "ifexp":
                    bool_atoms(x[1], atoms)
    return atoms


def fires(gg, asg):
    for c, v in gg:
        r = bool_eval(c, asg)
        if r is None:
            return None
        if r != v:
            return False
    return True


def fn_merge_table(ctx, rule="TABLE-Fn.merge"):
    ev = mk_ev(ctx)
    dotted = CORE + "Fn.merge"
    s = summarize(ctx, ev, dotted)
    loc = func_loc(ctx, dotted)
    construct = "core.Fn.merge"
    X, X_, CK = ("param", "x"), ("param", "x_"), ("param", "check")
    rows = loop_rows(s, kinds=("store",))
    # the two containers by role (what the function returns), whatever they are called
    kind_, node_, mod_, owner_ = ctx.p.get_function(dotted)
    fp = final_pair(node_)
    if fp is not None and fp[0][0] != fp[1][0]:
        ren = {fp[0][0]: "result", fp[1][0]: "discarded"}
        rows = [(k, ren.get(b, b), v, gg, t) for k, b, v, gg, t in rows]
    keys = {r[4][2] for r in rows if r[4] is not None and r[4][0] == "idx"}
    if len(keys) != 1:
        raise AnalysisError(f"{construct}: stores are not keyed by one loop key ({len(keys)} keys)")
    key = next(iter(keys))
    it = [x for x in subterms(key) if x[0] == "iter"]
    def keyset(t):
        # set(d.keys()), set(d), d.keys(): the key set of the dictionary d
        if is_call(t, name="builtins.set") and len(t[2]) == 1:
            t = t[2][0]
        if is_call(t) and t[1][0] == "attr" and t[1][2] == "keys" and not t[2]:
            t = t[1][1]
        return t
    it_ok = False
    if it and it[0][2][0] == "binop" and it[0][2][1] == "|":
        it_ok = {keyset(it[0][2][2]), keyset(it[0][2][3])} == {X, X_}
    problems = []
    if not it_ok:
        problems.append(f"iterates the union of both key sets (found {short(it[0][2], ev, 120) if it else None})")
    xk, xk_ = ("idx", X, key), ("idx", X_, key)
    sub = ("call", ("attr", SELF, "merge"), (xk, xk_, CK), ())
    sub0, sub1 = ("idx", sub, C(0)), ("idx", sub, C(1))

    def classify(a):
        if a[0] == "cmp" and a[1] in ("in", "not in") and a[2] == key and a[3] in (X, X_):
            return ("A" if a[3] == X else "B", a[1] == "in")
        if is_call(a, name="builtins.isinstance") and a[2][1] == N("builtins.dict") and a[2][0] in (xk, xk_):
            return ("Dx" if a[2][0] == xk else "Dx_", True)
        if a[0] == "cmp" and a[1] in ("is", "is not") and is_const(a[3], None) and a[2] == CK:
            return ("K", a[1] == "is not")
        def rec_discard(t):
            # the discarded part of a recursive merge of this key's two values, whatever further arguments the call passes
            return t[0] == "idx" and is_const(t[2], 1) and t[1][0] == "call" and t[1][1] == ("attr", SELF, "merge") and t[1][2][:2] == (xk, xk_)
        if a[0] == "cmp" and a[1] in ("is", "is not") and is_const(a[3], None) and rec_discard(a[2]):
            return ("N", a[1] == "is not")
        if rec_discard(a):
            return ("N", True)
        return None

    atoms = atoms_of(rows)
    cls = {}
    nfree = 0
    for a in atoms:
        c = classify(a)
        if c is None:
            # a condition outside the contract's vocabulary: a free Boolean, both truth values are explored
            nfree += 1
            c = (f"U{nfree}:{short(a, ev, 50)}", True)
        cls[a] = c
    names = sorted({c[0] for c in cls.values()})
    ncase = 0
    for bits in itertools.product([True, False], repeat=len(names)):
        sem = dict(zip(names, bits))
        A, B = sem.get("A", True), sem.get("B", True)
        if not (A or B):
            continue  # the key comes from the union
        D = sem.get("Dx", False) and sem.get("Dx_", False)
        if not (A and B) and (sem.get("Dx") or sem.get("Dx_")) and False:
            continue
        K, Nn = sem.get("K", False), sem.get("N", False)
        asg = {a: (sem[c[0]] if c[1] else not sem[c[0]]) for a, c in cls.items()}
        got = {"result": [], "discarded": []}
        for kind, base, val, gg, tgt in rows:
            f = fires(gg, asg)
            if f is None:
                raise AnalysisError(f"{construct}: guard not decidable")
            if f and base is not None:
                got.setdefault(base, []).append(resolve_deep(val, asg) if isinstance(val, tuple) else val)
        # map actual container names to roles by the returned tuple
        ret = items(s.ret)
        ncase += 1
        if A and B and D:
            want_r, want_d = [sub0], ([sub1] if Nn else [])
            # the discard of whatever recursive call was made is compared below through its own value; a recursive call with
            # other arguments than (x[k], x_[k], check) shows up as a different merged value
        elif A and B and K:
            want_r, want_d = ["WHERE"], []
        elif A and B:
            want_r, want_d = [xk_], [xk]
        elif A:
            want_r, want_d = [xk], []
        else:
            want_r, want_d = [xk_], []
        # only look at semantically consistent combinations of the dict atoms
        if (A and B) is False and ("Dx" in sem or "Dx_" in sem) and (sem.get("Dx") or sem.get("Dx_")):
            continue
        when = ", ".join(f"{k}={v}" for k, v in sorted(sem.items()))
        rnames = [n for n in got if got[n]]
        r_vals = got.get("result", [])
        d_vals = got.get("discarded", [])
        def norm(v):
            if v[0] == "treemap" and is_where(v[2]) and v[2][2] == (CK, ("leaf", v[1], xk), ("leaf", v[1], xk_)):
                return "WHERE"
            return v
        r_vals = [norm(v) for v in r_vals]
        if r_vals != want_r:
            problems.append(f"[{when}] merged value should be {[short(v, ev, 60) if v != 'WHERE' else 'where(check, x-side, x_-side)' for v in want_r]}, found {[short(v, ev, 80) if v != 'WHERE' else v for v in r_vals]}")
        if d_vals != want_d:
            problems.append(f"[{when}] discarded value should be {[short(v, ev, 60) for v in want_d]}, found {[short(v, ev, 80) for v in d_vals]}")
    ret = items(s.ret)
    if ret is None or len(ret) != 2:
        problems.append(f"returns (merged, discarded-or-None) (found {short(s.ret, ev, 120)})")
    bases = {r[1] for r in rows if r[0] == "store"}
    if not {"result", "discarded"} <= bases:
        # names changed: fall back to positional identification is not attempted
        raise AnalysisError(f"{construct}: result/discarded containers not recognised ({sorted(b for b in bases if b)})")
    if problems:
        for p in dict.fromkeys(problems):
            ctx.bad(rule, construct, p[:200], p, loc)
    else:
        ctx.ok(rule, construct, f"{ncase} key-membership/dict/check cases: x_ wins conflicts and x is discarded, where(check, x, x_) with a check, one-sided keys copied, nested dicts merged recursively")
    # return: discarded or None
    if not (fp is not None and fp[0][1] is None and fp[1][1] == fp[1][0]):
        import ast
        rets = [ast.unparse(r.value) for r in ast.walk(node_) if isinstance(r, ast.Return) and r.value is not None]
        ctx.bad(rule, construct, "returns (result, discarded or None)", f"found {rets}", loc)


def fn_filter_table(ctx, rule="TABLE-Fn.filter"):
    ev = mk_ev(ctx)
    dotted = CORE + "Fn.filter"
    s = summarize(ctx, ev, dotted)
    loc = func_loc(ctx, dotted)
    construct = "core.Fn.filter"
    X, SELN = ("param", "x"), ("param", "selection")
    rows = loop_rows(s)
    # containers and presence flags by role (read from what the function returns), whatever they are called
    kind_, node_, mod_, owner_ = ctx.p.get_function(dotted)
    fp = None
    for sub_ in [node_] + [n_ for n_ in node_.body if hasattr(n_, "body")]:
        pass
    import ast as _ast
    # the final return may sit after an early `if not x: return …` guard: take the function's last top-level return
    fp = final_pair(node_)
    ret_ok = fp is not None and fp[0][0] != fp[1][0] and all(t is not None for _, t in fp)
    if ret_ok:
        ren = {fp[0][0]: "selected", fp[1][0]: "unselected"}
        if fp[0][1] != fp[0][0]:
            ren[fp[0][1]] = "found_selected"
        if fp[1][1] != fp[1][0]:
            ren[fp[1][1]] = "found_unselected"
        rows = [(k, ren.get(b, b), v, gg, t) for k, b, v, gg, t in rows]
    stores = [r for r in rows if r[0] == "store"]
    keys = {r[4][2] for r in stores if r[4][0] == "idx"}
    if len(keys) != 1:
        raise AnalysisError(f"{construct}: stores are not keyed by one loop address")
    addr = next(iter(keys))
    its = [x for x in subterms(addr) if x[0] == "iter"]
    problems = []
    if not its or its[0][2] != ("call", ("attr", X, "items"), (), ()):
        problems.append(f"iterates x.items() (found {short(its[0][2], ev, 80) if its else None})")
    base_it = its[0] if its else None
    value = ("idx", base_it, C(1)) if base_it else None
    if addr != ("idx", base_it, C(0)):
        problems.append("stores are keyed by the item's own address")
    m = ("call", ("attr", SELN, "match"), (addr,), ())
    flag, subsel = ("idx", m, C(0)), ("idx", m, C(1))
    rec = ("call", ("attr", SELF, "filter"), (value, subsel), ())
    rec0, rec1 = ("idx", rec, C(0)), ("idx", rec, C(1))

    def classify(a):
        if a == X:
            return ("NE", True)  # the empty map returned early: the loop runs under a non-empty x
        if a == flag:
            return ("S", True)
        if a[0] == "idx" and is_const(a[2], 0) and is_call(a[1]) and a[1][2] == (("tuple", ()),) and a[1][1] in (("attr", subsel, "match"), subsel):
            return ("LS", True)
        if a[0] == "cmp" and a[1] in ("in", "not in") and a[2] == ("tuple", ()) and a[3] == subsel:
            return ("LS", a[1] == "in")
        if is_call(a, name="builtins.isinstance") and a[2] == (value, N("builtins.dict")):
            return ("D", True)
        if a == value:
            return ("NEV", True)   # truthiness of the item's value: for a sub-map, "has entries"
        if is_call(a, name="builtins.len") and a[2] == (value,):
            return ("NEV", True)
        if a[0] == "cmp" and a[1] in ("is", "is not") and is_const(a[3], None):
            nm = {subsel: "SubNN", rec0: "SelNN", rec1: "UnsNN"}.get(a[2])
            if nm:
                return (nm, a[1] == "is not")
        return None

    atoms = atoms_of(rows)
    cls = {}
    nfree = 0
    for a in atoms:
        c = classify(a)
        if c is None:
            # a condition outside the contract's vocabulary: a free Boolean, both truth values are explored
            nfree += 1
            c = (f"U{nfree}:{short(a, ev, 50)}", True)
        cls[a] = c
    names = sorted({c[0] for c in cls.values()})
    flags_present = any(r[0] == "assign" and r[1] in ("found_selected", "found_unselected") for r in rows)
    ncase = 0
    pruned = []
    for bits in itertools.product([True, False], repeat=len(names)):
        sem = dict(zip(names, bits))
        sem.setdefault("SubNN", True)
        if not sem["SubNN"] or not sem.get("NE", True):
            continue  # match() always returns a Selection remainder; the loop only runs for a non-empty x
        asg = {a: (sem[c[0]] if c[1] else not sem[c[0]]) for a, c in cls.items()}
        got = {"selected": [], "unselected": []}
        flg = {"found_selected": False, "found_unselected": False}
        for kind, nm, val, gg, tgt in rows:
            f = fires(gg, asg)
            if f is None:
                raise AnalysisError(f"{construct}: guard not decidable")
            if not f:
                continue
            if kind == "store" and nm in got:
                got[nm].append(val)
            elif kind == "assign" and nm in flg and is_const(val, True):
                flg[nm] = True
        S, D = sem.get("S", False), sem.get("D", False)
        has_ls = "LS" in sem
        if D and not sem.get("NEV", True):
            # an empty sub-map holds no leaf: it may stay whole in `unselected`, be dropped, or go through the (vacuous) recursive split
            if got["selected"] in ([], [rec0]) and got["unselected"] in ([], [value], [rec1]):
                ncase += 1
                continue
        if not D and "NEV" in sem and not sem["NEV"] and False:
            continue
        if D:
            # a sub-map is always split recursively with the remainder selection (the parent-level flag says nothing
            # about what the remainder still selects below)
            want_s = [rec0] if sem.get("SelNN", True) else []
            want_u = [rec1] if sem.get("UnsNN", True) else []
        else:
            chosen = sem["LS"] if has_ls else S
            want_s, want_u = ([value], []) if chosen else ([], [value])
        if not D and ("SelNN" in sem or "UnsNN" in sem) and not (sem.get("SelNN", True) and sem.get("UnsNN", True)):
            continue
        ncase += 1
        when = ", ".join(f"{k}={v}" for k, v in sorted(sem.items()))
        if D and not S and got["selected"] == [] and got["unselected"] == [value]:
            pruned.append(when)
            want_s, want_u = [], [value]   # reported once below as the descent finding
        if got["selected"] != want_s:
            problems.append(f"[{when}] selected part should receive {[short(v, ev, 60) for v in want_s]}, found {[short(v, ev, 60) for v in got['selected']]}")
        if got["unselected"] != want_u:
            problems.append(f"[{when}] unselected part should receive {[short(v, ev, 60) for v in want_u]}, found {[short(v, ev, 60) for v in got['unselected']]}")
        if flags_present:
            if flg["found_selected"] != bool(got["selected"]):
                problems.append(f"[{when}] found_selected={flg['found_selected']} but {len(got['selected'])} store(s) into the selected part: a written part is reported as absent (or an empty one as present)")
            if flg["found_unselected"] != bool(got["unselected"]):
                problems.append(f"[{when}] found_unselected={flg['found_unselected']} but {len(got['unselected'])} store(s) into the unselected part: a written part is reported as absent (or an empty one as present)")
    if pruned:
        ctx.bad("SIB-leaf-decision", construct, "prunes on the parent-level flag",
                "when match(addr)[0] is False the whole sub-map goes to `unselected` without descending, although the remainder "
                "(e.g. of ~sel(('a','b')) at 'a') still selects leaves that regenerate resamples", loc)
    else:
        ctx.ok("SIB-leaf-decision", construct + " (descent)")
    if "LS" not in names and "S" in names:
        ctx.bad("SIB-leaf-decision", construct, "leaf decided by the parent-level flag",
                "a non-dict value is put in `selected` because match(addr)[0] is True, not because the remainder selects the leaf "
                "(sel(('x','y')) with leaf 'x': filter selects it, regenerate does not resample it)", loc)
    else:
        ctx.ok("SIB-leaf-decision", construct + " (leaf)")
    if not ret_ok:
        import ast
        rets = [ast.unparse(r.value).replace(" ", "") for r in ast.walk(node_) if isinstance(r, ast.Return) and r.value is not None and isinstance(r.value, ast.Tuple)]
        problems.append(f"final return pairs each part with its own emptiness test (found {rets})")
    if not {"selected", "unselected"} <= {r[1] for r in stores}:
        raise AnalysisError(f"{construct}: selected/unselected containers not recognised")
    if problems:
        for p in dict.fromkeys(problems):
            ctx.bad(rule, construct, p[:200], p, loc)
    else:
        ctx.ok(rule, construct, f"{ncase} cases: every item reaches exactly one part (or its recursive split reaches both), parts reported present iff written")

"""C19 state/save is transparent and collects exactly what was saved (structural clauses, DESIGN §4-C19)."""
from __future__ import annotations

import ast

from ..model import AnalysisError
from .util import mk_ev, mk_lin, summarize, func_loc, short, N, C, NONE, is_call, items
from .pjaxr import branches_of, classify_branch, fnode, unp
from ..symeval import subterms

EXPLANATION = ("Who-writes-where rule over every store into the collected-state dictionary (relative to the namespace stack), pairing rule for "
               "namespace push/pop (finally), transparency of the interpreter (tagged values pass through, other primitives re-bound unchanged, scan re-issued "
               "with the same length/reverse and stacked body state), writer/reader agreement on the leaf-mode sentinel, batch-rule out-dims.")

ST = "genjax.state."


def store_sites(ctx, rule="OWN-namespace-relative-store"):
    node, mod, loop, chain, orelse = branches_of(ctx, ST + "State.eval_jaxpr_state")
    kinds = {}
    for t, b, n in chain:
        for k in classify_branch(t):
            kinds[k] = (b, n)
    need = {"state", "push", "pop", "scan"}
    if set(kinds) & need != need:
        ctx.bad("EXH-state-dispatch", "state.State.eval_jaxpr_state", f"handles {sorted(kinds)}", f"interpreter must special-case {sorted(need)}; found {sorted(kinds)}", ctx.loc(mod, loop))
        return
    ctx.ok("EXH-state-dispatch", "state.State.eval_jaxpr_state", f"handles {sorted(set(kinds) & need)}")
    # --- tagged values: named and leaf stores are relative to the namespace stack
    body, n = kinds["state"]
    src = "\n".join(unp(s) for s in body)
    construct = "state.State.eval_jaxpr_state[state_p]"
    prov = {}
    for st in ast.walk(ast.Module(body=body, type_ignores=[])):
        if isinstance(st, ast.Assign) and len(st.targets) == 1:
            prov.setdefault(unp(st.targets[0]), []).append(unp(st.value))
    failed = False

    def bad(key, what, nn=n):
        nonlocal failed
        failed = True
        ctx.bad(rule, construct, key, what, ctx.loc(mod, nn))

    if "tuple(self.namespace_stack)" not in prov.get("namespace_path", [""])[0]:
        bad("namespace path = the interpreter's current stack", f"namespace_path = {prov.get('namespace_path')}")
    # named mode
    named = [c for st in body for c in ast.walk(st) if isinstance(c, ast.Call) and unp(c.func) == "_nested_dict_set"]
    if len(named) != 1 or [unp(a) for a in named[0].args] != ["self.collected_state", "namespace_path", "name", "value"]:
        bad("named store under the namespace path", f"found {[unp(c) for c in named]}")
    root = [st for s_ in body for st in ast.walk(s_) if isinstance(st, ast.Assign) and unp(st.targets[0]) == "self.collected_state[name]"]
    for st in root:
        # must sit in the else-branch of `if namespace_path`
        ok = any(isinstance(i, ast.If) and unp(i.test) == "namespace_path" and any(x is st for y in i.orelse for x in ast.walk(y)) for s_ in body for i in ast.walk(s_))
        if not ok or unp(st.value) != "value":
            bad("root-level store only when the namespace stack is empty", f"found `{unp(st)}` outside `if namespace_path: … else:`", st)
    # value: single value or tuple of several
    if prov.get("value", [""])[0].replace(" ", "").replace("(", "").replace(")", "") != "tuplevaluesiflenvalues>1elsevalues[0]ifvalueselseNone":
        bad("collected value = the tagged value(s)", f"value = {prov.get('value')}")
    if prov.get("values", [""])[0] not in ("list(invals) if invals else []", "list(invals)"):
        bad("collected values = the equation's inputs", f"values = {prov.get('values')}")
    if "outvals = values" not in src:
        bad("tagged values pass through unchanged", "outvals != values")
    # leaf mode: sentinel agreement and store at path[-1] under path[:-1]
    sn, smod = fnode(ctx, ST + "save")
    sent_w = [unp(k.value) for c in ast.walk(sn) if isinstance(c, ast.Call) and unp(c.func) == "tag_state" for k in c.keywords if k.arg == "name" and isinstance(k.value, ast.Constant)]
    sent_r = [unp(i.test.comparators[0]) for s_ in body for i in ast.walk(s_) if isinstance(i, ast.If) and isinstance(i.test, ast.Compare) and unp(i.test.left) == "name"
              and isinstance(i.test.comparators[0], ast.Constant) and isinstance(i.test.ops[0], ast.Eq) and isinstance(i.test.comparators[0].value, str)]
    if len(sent_w) != 1 or sent_w != sent_r:
        bad("leaf-mode sentinel agrees between save() and the interpreter", f"writer {sent_w} vs reader {sent_r}")
    if "current[namespace_path[-1]] = value" not in src or "for namespace in namespace_path[:-1]" not in src:
        bad("leaf store at the innermost namespace under its parents", "leaf-mode store shape changed")
    if not failed:
        ctx.ok(rule, construct, "named, root and leaf stores are all relative to the namespace stack")
    # --- scan: merge of the stacked body state
    body, n = kinds["scan"]
    construct = "state.State.eval_jaxpr_state[scan_p]"
    # decided on the evaluator's guarded store events: where do the scan's collected values go?
    ev = mk_ev(ctx)
    summ = summarize(ctx, ev, ST + "State.eval_jaxpr_state")
    SELF_ = ("param", "self")
    cs, ns = ("attr", SELF_, "collected_state"), ("attr", SELF_, "namespace_stack")
    merges = []
    for g, k, pl, ln, q in summ.events:
        scanned = any(isinstance(c, tuple) and any(x == ("name", "jax.lax.scan_p") for x in subterms(c)) and v for c, v in g)
        if not scanned:
            continue
        if k == "store" and any(x == cs for x in subterms(pl[0])):
            merges.append((pl[0], any(x == ns for x in subterms(pl[0])), ln))
        if k == "call" and is_call(pl, name=ST + "_nested_dict_set") and pl[2] and pl[2][0] == cs:
            merges.append((pl, any(x == ns for x in subterms(pl)), ln))
    if merges and not all(rel for _, rel, _ in merges):
        ctx.bad(rule, construct, "scan merge stores at the root",
                "values saved inside a scan body are merged with `self.collected_state[name] = …` at the root, ignoring the enclosing namespace stack "
                "(and the nested state(body_fun) starts from an empty stack); input: state(namespace(lambda: scan(body_with_save, …), 'ns'))", f"{mod.path}:{merges[0][2]}")
    elif merges:
        ctx.ok(rule, construct, "scan merge is relative to the enclosing namespace stack")
    else:
        ctx.bad(rule, construct, "scan state merged", "values saved inside scan bodies are never merged into the collected state", ctx.loc(mod, n))
    # scan re-issued faithfully, body state stacked as part of ys
    src = "\n".join(unp(s) for s in body)
    okscan = ("length=length" in src and "reverse=reverse" in src and "return (out_carry, (out_scan, body_state))" in src
              and "state(body_fun)(*all_values)" in src and "split_list(jtu.tree_leaves(body_result), [num_carry])" in src
              and "outvals = jtu.tree_leaves((flat_carry_out, scanned_out))" in src and "scan(new_body, carry_vals, xs_vals" in src.replace("\n", " "))
    if okscan:
        ctx.ok("ROLE-state-scan", construct, "same length/reverse; ys = (original ys, collected state) so saved values are stacked along the iteration axis")
    else:
        ctx.bad("ROLE-state-scan", construct, "scan re-issued with same length/reverse and (ys, body_state) outputs", "shape changed", ctx.loc(mod, n))
    # --- push / pop mutate only the stack
    for k, meth in (("push", "append"), ("pop", "pop")):
        body, n = kinds[k]
        src = " ".join(unp(s) for s in body)
        ok = f"self.namespace_stack.{meth}(" in src and "outvals = []" in src and "collected_state" not in src
        if ok:
            ctx.ok("ROLE-namespace-stack", f"state.State.eval_jaxpr_state[{k}]")
        else:
            ctx.bad("ROLE-namespace-stack", f"state.State.eval_jaxpr_state[{k}]", f"only namespace_stack.{meth}", f"found {src[:200]}", ctx.loc(mod, n))
    # --- everything else is re-bound unchanged
    src = " ".join(unp(s) for s in orelse)
    if "outvals = eqn.primitive.bind(*args, **params)" in src:
        ctx.ok("ROLE-state-transparent", "state.State.eval_jaxpr_state[else]", "other primitives re-bound with their own inputs and params")
    else:
        ctx.bad("ROLE-state-transparent", "state.State.eval_jaxpr_state[else]", "re-bind unchanged", f"found {src[:200]}", ctx.loc(mod, loop))


def nested_set(ctx, rule="ALG-nested-dict-set"):
    node, mod = fnode(ctx, ST + "_nested_dict_set")
    src = unp(node)
    a = [x.arg for x in node.args.args]
    ok = a == ["d", "path", "key", "value"] and "for namespace in path" in src and "current[namespace] = {}" in src and "current = current[namespace]" in src \
        and src.rstrip().endswith("current[key] = value") and "if namespace not in current" in src
    if ok:
        ctx.ok(rule, "state._nested_dict_set", "walks the path creating sub-dicts, then assigns (a later write replaces an earlier one)")
    else:
        ctx.bad(rule, "state._nested_dict_set", "walk path, create missing dicts, assign key", "shape changed", ctx.loc(mod, node))


def namespace_pairing(ctx, rule="PAIR-namespace"):
    node, mod = fnode(ctx, ST + "namespace")
    inner = [f for f in ast.walk(node) if isinstance(f, ast.FunctionDef) and f.name != "namespace"]
    ctx.need(len(inner) == 1, "state.namespace: wrapper not found")
    w = inner[0]
    construct = "state.namespace.namespaced_fn"
    body = w.body
    calls = [(i, st) for i, st in enumerate(body) if isinstance(st, ast.Expr) and isinstance(st.value, ast.Call) and unp(st.value.func) == "_namespace_push"]
    tries = [(i, st) for i, st in enumerate(body) if isinstance(st, ast.Try)]
    ok = len(calls) == 1 and len(tries) == 1 and calls[0][0] < tries[0][0] and [unp(a) for a in calls[0][1].value.args] == [node.args.args[1].arg]
    if ok:
        t = tries[0][1]
        fin = [unp(s) for s in t.finalbody]
        ok = fin == ["_namespace_pop()"] and not t.handlers and any(isinstance(s, ast.Return) for s in ast.walk(ast.Module(body=t.body, type_ignores=[])))
        inner_call = [c for s in t.body for c in ast.walk(s) if isinstance(c, ast.Call) and unp(c.func) == node.args.args[0].arg]
        ok = ok and len(inner_call) == 1 and [unp(a) for a in inner_call[0].args] == ["*args"] and [unp(k.value) for k in inner_call[0].keywords] == ["kwargs"]
        # no second push inside the try
        ok = ok and "_namespace_push" not in " ".join(unp(s) for s in t.body)
    if ok:
        ctx.ok(rule, construct, "push, then try: result = f(*args, **kwargs) finally: pop (exceptional exits included)")
    else:
        ctx.bad(rule, construct, "push … try/finally pop", f"found {unp(w)[:300]}", ctx.loc(mod, w))
    # the push primitive carries the namespace it was given; batch rules re-insert with the same parameter
    pn, pmod = fnode(ctx, ST + "_namespace_push")
    src = unp(pn)
    binds = [c for c in ast.walk(pn) if isinstance(c, ast.Call) and isinstance(c.func, ast.Call) and unp(c.func.func) == "initial_style_bind"]
    kws = [{k.arg: unp(k.value) for k in c.keywords} for c in binds]
    good = len(binds) == 2 and {"namespace": "namespace"} in kws and {"namespace": "params.get('namespace')"} in kws \
        and all(unp(c.func.args[0]) == "namespace_push_p" for c in binds)
    if good:
        ctx.ok("SIB-state-batch", "state._namespace_push", "outer bind and batch rule re-insert namespace_push_p with the same namespace")
    else:
        ctx.bad("SIB-state-batch", "state._namespace_push", "same primitive and namespace under vmap", f"found {kws}", ctx.loc(pmod, pn))
    pn, pmod = fnode(ctx, ST + "_namespace_pop")
    binds = [c for c in ast.walk(pn) if isinstance(c, ast.Call) and isinstance(c.func, ast.Call) and unp(c.func.func) == "initial_style_bind"]
    if len(binds) == 2 and all(unp(c.func.args[0]) == "namespace_pop_p" for c in binds):
        ctx.ok("SIB-state-batch", "state._namespace_pop")
    else:
        ctx.bad("SIB-state-batch", "state._namespace_pop", "same primitive under vmap", f"{len(binds)} binds", ctx.loc(pmod, pn))


def tag_state_rules(ctx, rule="ROLE-tag_state"):
    node, mod = fnode(ctx, ST + "tag_state")
    construct = "state.tag_state"
    fns = {f.name: f for f in ast.walk(node) if isinstance(f, ast.FunctionDef)}
    ident = fns.get("identity_fn")
    ok = ident is not None and unp(ident.body[-1]) == "return tuple(args) if len(args) > 1 else args[0]"
    binds = [c for c in ast.walk(node) if isinstance(c, ast.Call) and isinstance(c.func, ast.Call) and isinstance(c.func.func, ast.Call) and unp(c.func.func.func) == "initial_style_bind"]
    outer = [c for c in binds if [unp(a) for a in c.args] == ["*values"]]
    ok = ok and len(outer) == 1 and unp(outer[0].func.func.args[0]) == "state_p" and {k.arg: unp(k.value) for k in outer[0].func.keywords} == {"name": "name"} \
        and unp(outer[0].func.args[0]) == "identity_fn"
    if ok:
        ctx.ok(rule, construct, "binds state_p over the identity with the given name; values pass through")
    else:
        ctx.bad(rule, construct, "state_p bound over the identity with name=name", "shape changed", ctx.loc(mod, node))
    # batch rule: re-insert with same name; out dims elementwise equal to in dims
    br = fns.get("batch_rule")
    ctx.need(br is not None, "tag_state.batch_rule not found")
    inner = [c for c in binds if [unp(a) for a in c.args] == ["*vector_args"]]
    good = len(inner) == 1 and unp(inner[0].func.func.args[0]) == "state_p" and {k.arg: unp(k.value) for k in inner[0].func.keywords} == {"name": "params.get('name')"}
    if good:
        ctx.ok("SIB-state-batch", "state.tag_state.batch_rule (re-bind)", "same primitive and name on the vectorised operands")
    else:
        ctx.bad("SIB-state-batch", "state.tag_state.batch_rule (re-bind)", "same primitive and name", "shape changed", ctx.loc(mod, br))
    rets = [r for r in ast.walk(br) if isinstance(r, ast.Return) and isinstance(r.value, ast.Tuple) and len(r.value.elts) == 2]
    bad = None
    for r in rets:
        dims = unp(r.value.elts[1])
        multi = "for _ in result" in dims or "for" in dims
        if multi and "dims[0]" in dims and "zip" not in dims and "enumerate" not in dims:
            bad = r
    if bad is not None:
        ctx.bad("SIB-state-batch", "state.tag_state.batch_rule (out dims)", "all outputs declared with dims[0]",
                "a multi-value tag passes several operands through but declares every output batched like the first one: with differently batched values "
                "(save(x, 1.0) in leaf mode under vmap) the unbatched value is mis-declared; input: vmap(namespace(lambda x: save(x, 1.0), 'n'))(xs)", ctx.loc(mod, bad))
    else:
        ctx.ok("SIB-state-batch", "state.tag_state.batch_rule (out dims)")


def save_and_state(ctx, rule="ROLE-save"):
    node, mod = fnode(ctx, ST + "save")
    src = unp(node)
    ok = "for name, value in tagged_values.items()" in src and "result[name] = tag_state(value, name=name)" in src \
        and "leaf_value = values if len(values) > 1 else values[0]" in src and "raise ValueError" in src
    if ok:
        ctx.ok(rule, "state.save", "named mode tags each value under its own name; leaf mode tags the positional value(s)")
    else:
        ctx.bad(rule, "state.save", "each value tagged under its own name", "shape changed", ctx.loc(mod, node))
    node, mod = fnode(ctx, ST + "state")
    inner = [f for f in ast.walk(node) if isinstance(f, ast.FunctionDef) and f.name != "state"]
    ctx.need(len(inner) == 1, "state.state: wrapper not found")
    src = unp(inner[0])
    if "State(collected_state={}, namespace_stack=[])" in src and "return interpreter.eval(f, *args)" in src:
        ctx.ok(rule, "state.state.wrapped", "fresh interpreter (empty dict, empty stack) per call")
    else:
        ctx.bad(rule, "state.state.wrapped", "fresh State per call", f"found {src[:200]}", ctx.loc(mod, inner[0]))
    node, mod = fnode(ctx, ST + "State.eval")
    src = unp(node)
    if "result = jtu.tree_unflatten(out_tree(), flat_out)" in src and "return (result, self.collected_state)" in src:
        ctx.ok(rule, "state.State.eval", "returns (unchanged result, collected state)")
    else:
        ctx.bad(rule, "state.State.eval", "returns (result, collected_state)", "shape changed", ctx.loc(mod, node))


RULES = [store_sites, nested_set, namespace_pairing, tag_state_rules, save_and_state]
FLOOR = 12

"""C19 state/save is transparent and collects exactly what was saved (structural clauses, DESIGN §4-C19).

Every rule here is decided on the symbolic evaluator's output (terms and guarded event log), evaluated over small finite
models (absint): an empty / one-deep / two-deep namespace stack, one / two / three tagged values, the name carried by the
outer or by the wrapped primitive.  For each model the *effects* of the interpreter arm are computed (which slot of the
collected-state dictionary is written with which value, what happens to the namespace stack, what the equation's outputs
are) and compared with the contract.  Renaming, extracting helpers, early returns, collapsing `if path: nested(path) else:
root` into `nested(path)` and similar rewrites leave the effects - and therefore the verdict - unchanged."""
from __future__ import annotations

from ..absint import Model, Opq, Atom as AtomV, Raised, Unknown, freeze, truth, TreeDef
from ..model import AnalysisError
from ..symeval import subterms, is_const, C, NONE
import ast

from .util import mk_ev, summarize, func_loc, short, is_call, items, N

EXPLANATION = ("Finite-model effect analysis of the State interpreter's arms (which dictionary slot is written with which value relative to the "
               "namespace stack; pass-through of tagged values; stack discipline; other primitives re-bound unchanged; scan re-issued with the same "
               "length/reverse, its stacked body state merged under the enclosing namespaces), of _nested_dict_set/_get, of the namespace wrapper's "
               "push/try/finally-pop pairing, of tag_state/save (writer/reader agreement on the leaf sentinel, batch rules).")

ST = "genjax.state."
PJ = "genjax.pjax."
SELF = ("param", "self")
CS = ("attr", SELF, "collected_state")
NS = ("attr", SELF, "namespace_stack")
CSV = Opq("collected_state")


# ---------------------------------------------------------------------------------------------------------------- helpers
def flat(x):
    if isinstance(x, (list, tuple)):
        out = []
        for y in x:
            out.extend(flat(y))
        return out
    if isinstance(x, dict):
        out = []
        for k in sorted(x, key=repr):
            out.extend(flat(x[k]))
        return out
    if x is None:
        return []
    return [x]


def split_list(lst, ns):
    if isinstance(lst, Opq) or any(not isinstance(n, int) for n in ns):
        return Opq("split_list", freeze(lst) if not isinstance(lst, Opq) else lst, tuple(ns))
    lst = list(lst)
    out = []
    for n in ns:
        out.append(lst[:n])
        lst = lst[n:]
    out.append(lst)
    return out


def _unflatten(td, leaves):
    if not isinstance(td, TreeDef):
        raise Unknown(f"tree_unflatten with a tree definition the model does not know: {td!r}")
    return td.unflatten(leaves)


FUNCS = {"jax.tree_util.tree_unflatten": _unflatten, "jax.tree.unflatten": _unflatten,
         "jax.tree_util.tree_leaves": lambda x, **kw: flat(x), "jax._src.util.split_list": split_list, "jax.util.split_list": split_list,
         "jax.tree.leaves": lambda x, **kw: flat(x),
         # sub-jaxprs held by an equation's params: the finite models' equations (other than the scan arm's, which never reaches the
         # fall-through) carry none
         "genjax.pjax._sub_jaxprs": lambda params, **kw: [v for v in (params.values() if isinstance(params, dict) else ()) if getattr(v, "model_class", None) in ("Jaxpr", "ClosedJaxpr")],
         "jax._src.core.jaxprs_in_params": lambda params, **kw: [], "jax.core.jaxprs_in_params": lambda params, **kw: []}


def seq_eq(a, b):
    """Equality of model values where a list and a tuple with equal items are interchangeable."""
    if isinstance(a, (list, tuple)) and isinstance(b, (list, tuple)):
        return len(a) == len(b) and all(seq_eq(x, y) for x, y in zip(a, b))
    if isinstance(a, (list, tuple)) or isinstance(b, (list, tuple)):
        return False
    try:
        return bool(a == b)
    except Unknown:
        return False


def split_guards(guards, outer_loops=1):
    """(guards outside any inner loop, guards inside the innermost loops, number of loop markers)."""
    outer, inner, loops = [], [], 0
    for c, v in guards:
        if isinstance(c, tuple) and c and c[0] == "loop":
            loops += 1
            continue
        (outer if loops <= outer_loops else inner).append((c, v))
    return outer, inner, loops


def merge_helper_kind(node):
    """'deepmerge' for a two-parameter helper that walks `update.items()` and, where the new value and the existing entry are both
    dictionaries, calls itself on (existing entry, new value) and otherwise assigns target[key] = value; 'merge' for the flat
    key-wise assignment; None if neither shape is recognised."""
    a = node.args
    if len(a.args) != 2 or a.vararg or a.kwarg:
        return None
    T, U = a.args[0].arg, a.args[1].arg
    loops = [n for n in ast.walk(node) if isinstance(n, ast.For) and isinstance(n.iter, ast.Call) and isinstance(n.iter.func, ast.Attribute)
             and n.iter.func.attr == "items" and isinstance(n.iter.func.value, ast.Name) and n.iter.func.value.id == U
             and isinstance(n.target, ast.Tuple) and len(n.target.elts) == 2 and all(isinstance(e, ast.Name) for e in n.target.elts)]
    if len(loops) != 1:
        return None
    lp = loops[0]
    K, V = lp.target.elts[0].id, lp.target.elts[1].id

    def is_entry(e):   # target[k] / target.get(k) / target.setdefault(k, {})
        if isinstance(e, ast.Subscript) and isinstance(e.value, ast.Name) and e.value.id == T and isinstance(e.slice, ast.Name) and e.slice.id == K:
            return True
        return isinstance(e, ast.Call) and isinstance(e.func, ast.Attribute) and e.func.attr in ("get", "setdefault") and isinstance(e.func.value, ast.Name) \
            and e.func.value.id == T and e.args and isinstance(e.args[0], ast.Name) and e.args[0].id == K
    assigns = [n for n in ast.walk(lp) if isinstance(n, ast.Assign) and len(n.targets) == 1 and is_entry(n.targets[0]) and isinstance(n.targets[0], ast.Subscript)
               and isinstance(n.value, ast.Name) and n.value.id == V]
    if not assigns:
        return None
    def call_args(n):
        # (target argument, update argument) of a self-call, positional or by keyword
        a_ = list(n.args) + [None, None]
        kw_ = {k.arg: k.value for k in n.keywords}
        return (a_[0] if a_[0] is not None else kw_.get(T)), (a_[1] if len(n.args) >= 2 else kw_.get(U))
    rec = [n for n in ast.walk(lp) if isinstance(n, ast.Call) and isinstance(n.func, ast.Name) and n.func.id == node.name
           and call_args(n)[0] is not None and is_entry(call_args(n)[0]) and isinstance(call_args(n)[1], ast.Name) and call_args(n)[1].id == V]
    if not rec:
        return "merge"

    def dict_tests(test):
        subj = []
        for n in ast.walk(test):
            if isinstance(n, ast.Call) and isinstance(n.func, ast.Name) and n.func.id == "isinstance" and len(n.args) == 2 and ast.unparse(n.args[1]) in ("dict", "Mapping", "(dict,)"):
                subj.append(n.args[0])
        return subj
    for iff in [n for n in ast.walk(lp) if isinstance(n, ast.If)]:
        in_body = any(r in [x for st in iff.body for x in ast.walk(st)] for r in rec)
        in_else = any(r in [x for st in iff.orelse for x in ast.walk(st)] for r in rec)
        if in_body == in_else:
            continue
        subj = dict_tests(iff.test)
        both = any(isinstance(x, ast.Name) and x.id == V for x in subj) and any(is_entry(x) for x in subj)
        # polarity of the dict tests on the path of the recursive call: `if A and B: recurse` or `if not (A and B): assign else: recurse`
        # (also the De Morgan spelling `if not A or not B`)
        negated = isinstance(iff.test, ast.UnaryOp) and isinstance(iff.test.op, ast.Not)
        demorgan = isinstance(iff.test, ast.BoolOp) and isinstance(iff.test.op, ast.Or) and all(isinstance(v_, ast.UnaryOp) and isinstance(v_.op, ast.Not) for v_ in iff.test.values)
        conj = isinstance(iff.test, ast.BoolOp) and isinstance(iff.test.op, ast.And) and not any(isinstance(v_, ast.UnaryOp) for v_ in iff.test.values)
        inner_conj = negated and isinstance(iff.test.operand, ast.BoolOp) and isinstance(iff.test.operand.op, ast.And)
        if both and ((in_body and conj) or (in_else and (inner_conj or demorgan))):
            return "deepmerge"
    return None


class Effects:
    """Effects of a guarded event log in one model."""

    def __init__(self, m: Model, ev, roots, outer_loops=1):
        self.m, self.ev, self.roots, self.outer_loops = m, ev, roots, outer_loops
        self.out = []
        self.raised = False

    def loc(self, t):
        """(root value, path tuple) of the dictionary node a term denotes."""
        m = self.m
        if t in m.env:
            return m.env[t], ()
        if is_call(t, name=ST + "_nested_dict_get") and len(t[2]) >= 2:
            root, pre = self.loc(t[2][0])
            p = m.ev(t[2][1])
            if not isinstance(p, (list, tuple)):
                raise Unknown(f"path {p!r}")
            return root, pre + tuple(p)
        if t[0] == "loopres":
            lid, var, init, step = t[1], t[2], t[3], t[4]
            srcs = [x[2][2] for x in subterms(step) if x[0] == "idx" and x[1] == ("loopcur", lid, var) and x[2][0] == "iter" and x[2][1] == lid]
            if not srcs:
                raise Unknown("loop-carried dictionary cursor that does not descend by the iterated key")
            root, pre = self.loc(init)
            p = m.ev(srcs[0])
            if not isinstance(p, (list, tuple)):
                raise Unknown(f"path {p!r}")
            return root, pre + tuple(p)
        if t[0] == "idx" and t[2][0] != "slice":
            root, pre = self.loc(t[1])
            return root, pre + (m.ev(t[2]),)
        if is_call(t) and t[1][0] == "attr" and t[1][2] == "setdefault" and len(t[2]) == 2 and t[2][1] in (("dict", ()), ("call", ("name", "builtins.dict"), (), ())):
            root, pre = self.loc(t[1][1])
            return root, pre + (m.ev(t[2][0]),)
        return m.ev(t), ()

    def tracked(self, root):
        return any(isinstance(root, Opq) and root == r for r in self.roots)

    def run(self, events):
        m = self.m
        # loop-carried cursors: (loop id, variable) -> term the cursor starts from
        self.cursor_init = {}
        for e in events:
            pls = e[2] if isinstance(e[2], tuple) else ()
            for x in subterms(pls):
                if x[0] == "loopres":
                    self.cursor_init[(x[1], x[2])] = x[3]
        for g, k, pl, ln, q in events:
            if self.raised:
                break
            outer, inner, loops = split_guards(g, self.outer_loops)
            if loops < self.outer_loops:
                continue   # prologue/epilogue outside the equation loop
            if not m.live(outer):
                continue
            in_loop = loops > self.outer_loops
            if k == "raise":
                if in_loop or inner:
                    raise Unknown("raise inside an inner loop")
                self.out.append(("raise",))
                self.raised = True
            elif k == "store":
                self.store(pl, inner, in_loop, ln)
            elif k == "call":
                self.call(pl, inner, in_loop, ln)
        return self.out

    def store(self, pl, inner, in_loop, ln):
        m = self.m
        tgt, val = pl[0], pl[1]
        if tgt == NS:
            self.out.append(("setstack", m.ev(val)))
            return
        if tgt == CS:
            self.out.append(("setcs", short(val, self.ev, 80)))
            return
        if tgt[0] != "idx":
            return
        base, key = tgt[1], tgt[2]
        if not in_loop:
            root, pre = self.loc(base)
            if self.tracked(root):
                self.out.append(("write", pre + (m.ev(key),), m.ev(val), ln))
            return
        # ---- inside an inner loop: two recognised idioms
        lids = [x[1] for x in subterms(key) if x[0] == "iter"]
        if val in (("dict", ()),) and key[0] == "iter":
            # creating a missing intermediate node while walking a path: must be guarded by `key not in node`
            guarded = any((c[0] == "cmp" and c[1] == "not in" and v and c[2] == key) or (c[0] == "cmp" and c[1] == "in" and not v and c[2] == key) for c, v in inner)
            root = self.loc_root_only(base)
            if self.tracked(root) and not guarded:
                self.out.append(("clobber", short(tgt, self.ev, 80), ln))
            return
        if key[0] == "idx" and key[1][0] == "iter" and is_const(key[2], 0) and val == ("idx", key[1], C(1)):
            src = key[1][2]
            if is_call(src) and src[1][0] == "attr" and src[1][2] == "items":
                root, pre = self.loc(base)
                if self.tracked(root):
                    self.out.append(("merge", pre, m.ev(src[1][1]), src[1][1], ln))
                return
        root = self.loc_root_only(base)
        if self.tracked(root):
            raise Unknown(f"store into the collected state inside a loop: {short(tgt, self.ev, 100)}")

    def loc_root_only(self, base):
        t = base
        while True:
            if t in self.m.env:
                return self.m.env[t]
            if t[0] == "loopres":
                t = t[3]
            elif t[0] == "loopcur":
                t = getattr(self, "cursor_init", {}).get((t[1], t[2]))
                if t is None:
                    return None
            elif t[0] == "idx":
                t = t[1]
            elif is_call(t, name=ST + "_nested_dict_get") and t[2]:
                t = t[2][0]
            else:
                try:
                    return self.m.ev(t)
                except Unknown:
                    return None

    def call(self, t, inner, in_loop, ln):
        m = self.m
        fn = t[1]
        if is_call(t, name=ST + "_nested_dict_set") and len(t[2]) == 4:
            if in_loop:
                raise Unknown("_nested_dict_set inside an inner loop")
            root, pre = self.loc(t[2][0])
            p = m.ev(t[2][1])
            if not isinstance(p, (list, tuple)):
                raise Unknown(f"path {p!r}")
            if self.tracked(root):
                self.out.append(("write", pre + tuple(p) + (m.ev(t[2][2]),), m.ev(t[2][3]), ln))
            return
        if is_call(t, name=ST + "_nested_dict_get") and len(t[2]) >= 2:
            # the lookup creates the missing nodes along the path
            root, pre = self.loc(t[2][0])
            p = m.ev(t[2][1])
            if self.tracked(root) and isinstance(p, (list, tuple)) and len(p):
                self.out.append(("touch", pre + tuple(p), None, ln))
            return
        if fn[0] == "name" and fn[1].startswith(ST) and len(t[2]) == 2 and not t[3]:
            look = self.ev.p.lookup(fn[1])
            if look is not None and look[0] == "func":
                root = self.loc_root_only(t[2][0])
                if self.tracked(root):
                    kind = merge_helper_kind(look[1])
                    if kind is None:
                        raise Unknown(f"{fn[1]}(target, state): helper not recognised as a dictionary merge")
                    if in_loop:
                        raise Unknown("dictionary merge helper inside an inner loop")
                    root, pre = self.loc(t[2][0])
                    self.out.append((kind, pre, m.ev(t[2][1]), t[2][1], ln))
                    return
        if fn[0] != "attr":
            return
        base, meth = fn[1], fn[2]
        if base == NS and meth in ("append", "pop", "clear", "extend", "insert", "remove"):
            if in_loop:
                raise Unknown("namespace stack mutated inside an inner loop")
            self.out.append((meth,) + tuple(m.ev(a) for a in t[2]))
            return
        if meth in ("update", "setdefault", "pop", "clear", "popitem"):
            root = self.loc_root_only(base)
            if not self.tracked(root):
                return
            if meth == "setdefault" and len(t[2]) == 2 and t[2][1] == ("dict", ()):
                return   # creating a missing node
            if meth == "update" and len(t[2]) == 1 and not in_loop:
                root, pre = self.loc(base)
                self.out.append(("merge", pre, m.ev(t[2][0]), t[2][0], ln))
                return
            self.out.append(("weak", meth, short(t, self.ev, 100), ln))


# ---------------------------------------------------------------------------------------------------------------- interpreter
class Interp:
    """Anchors of State.eval_jaxpr_state found by role: the equation's inputs, its bind parameters, the unwrapped primitive, the
    value written back for the equation's outputs."""

    def __init__(self, ctx):
        self.ctx = ctx
        self.ev = ev = mk_ev(ctx)
        self.dotted = ST + "State.eval_jaxpr_state"
        self.s = s = summarize(ctx, ev, self.dotted)
        self.loc = func_loc(ctx, self.dotted)
        calls = [e[2] for e in s.events if e[1] == "call"]
        inv = [t for t in calls if t[1][0] == "name" and t[1][1].split(".")[-1] in ("safe_map", "map") and len(t[2]) == 2 and t[2][1][0] == "attr" and t[2][1][2] == "invars"]
        ctx.need(bool(inv), "State.eval_jaxpr_state: read of the equation's inputs not found (anchor vanished)")
        self.INVALS = inv[0]
        self.EQN = inv[0][2][1][1]
        gbp = [t for t in calls if t[1][0] == "attr" and t[1][2] == "get_bind_params"]
        self.GBP = gbp[0] if gbp else None
        unw = [t for t in calls if is_call(t, name=PJ + "PPPrimitive.unwrap")]
        self.UNW = unw[0] if unw else None
        ctx.need(self.UNW is not None or self.GBP is not None, "State.eval_jaxpr_state: neither get_bind_params nor PPPrimitive.unwrap found (anchor vanished)")
        wr = [t for t in calls if t[1][0] == "name" and t[1][1].split(".")[-1] in ("safe_map", "map") and len(t[2]) == 3 and t[2][1] == ("attr", self.EQN, "outvars")]
        ctx.need(len(wr) >= 1, "State.eval_jaxpr_state: write-back of the equation's outputs not found (anchor vanished)")
        self.OUT = wr[-1][2][2]

    def model(self, prim, params, inner, invals=None, stack=None, extra=None):
        m = Model(funcs=FUNCS)
        primv = Opq("name", prim) if isinstance(prim, str) else prim
        if self.UNW is not None:
            m.bind(self.UNW, (primv, inner))
        m.bind(("attr", self.EQN, "primitive"), primv if self.UNW is None else Opq("wrapped-primitive"))
        if self.GBP is not None:
            m.bind(self.GBP, (["sf0"], params))
        m.bind(("attr", self.EQN, "params"), params)
        if invals is not None:
            m.bind(self.INVALS, invals)
        if stack is not None:
            m.bind(NS, stack)
        m.bind(CS, CSV)
        m.bind(("attr", self.EQN, "outvars"), ["o0"])
        for k, v in (extra or {}).items():
            m.bind(k, v)
        return m

    def effects(self, m):
        return Effects(m, self.ev, [CSV]).run(self.s.events)


def writer_sentinel(ctx):
    """The name save() tags leaf-mode values with (evaluated, not matched)."""
    ev = mk_ev(ctx)
    s = summarize(ctx, ev, ST + "save")
    m = Model(funcs=FUNCS)
    m.bind(("param", "values"), (Opq("v", 0),))
    m.bind(("param", "tagged_values"), {})
    names = []
    for g, k, pl, ln, q in s.events:
        if k == "call" and is_call(pl, name=ST + "tag_state") and not any(isinstance(c, tuple) and c and c[0] == "loop" for c, _ in g):
            try:
                if m.live(g):
                    nm = ev.kwget(pl[3], "name")
                    names.append(m.ev(nm) if nm is not None else None)
            except Unknown:
                pass
    return names, s, ev


def fmt(effs):
    out = []
    for e in effs:
        if e[0] == "write":
            out.append(f"write[{'/'.join(map(str, e[1]))}]={e[2]!r}")
        elif e[0] in ("merge", "deepmerge"):
            out.append(f"{e[0]}[{'/'.join(map(str, e[1]))}]<-{e[2]!r}")
        elif e[0] == "touch":
            out.append(f"create-nodes[{'/'.join(map(str, e[1]))}]")
        else:
            out.append(" ".join(str(x) for x in e[:3]))
    return "; ".join(out) or "nothing"


def interpreter_rules(ctx, rule="OWN-namespace-relative-store"):
    I = Interp(ctx)
    ev = I.ev
    names, _, _ = writer_sentinel(ctx)
    ctx.need(len(names) == 1 and isinstance(names[0], str), f"state.save: leaf-mode tag not found (anchor vanished): {names}")
    SENT = names[0]
    # --- which primitives are special-cased (by the guards on the event log)
    from .pjaxr import events_by_kind
    kinds = set()
    for k in events_by_kind(I.s):
        kinds |= (k - {"else", "common"})
    need = {"state", "push", "pop", "scan"}
    if kinds & need != need:
        ctx.bad("EXH-state-dispatch", "state.State.eval_jaxpr_state", f"handles {sorted(kinds)}", f"interpreter must special-case {sorted(need)}; found {sorted(kinds)}", I.loc)
        return
    ctx.ok("EXH-state-dispatch", "state.State.eval_jaxpr_state", f"handles {sorted(kinds & need)}")
    # --- the four arms are selected by the primitive alone: an arm that is additionally conditional on the equation's contents sends the
    #     equations failing that condition to the generic re-bind, where tagged values inside them are never seen
    from .pjaxr import PRIMS
    from .c16 import bool_atoms
    impure = {}
    for g, k, pl, ln, q in I.s.events:
        for c, v in g:
            if not isinstance(c, tuple) or not c or c[0] == "loop":
                continue
            ks = {PRIMS[x[1]] for x in subterms(c) if x[0] == "name" and x[1] in PRIMS}
            if not ks & need:
                continue
            atoms = []
            bool_atoms(c, atoms)
            primterms = {("attr", I.EQN, "primitive")} | ({("idx", I.UNW, C(0))} if I.UNW is not None else set())

            def pure(a):
                isname = lambda t: (t[0] == "name" and t[1].split(".")[-1].endswith("_p")) or (t[0] in ("tuple", "list", "set") and all(isname(y) for y in t[1]))
                if a[0] == "cmp" and a[1] in ("==", "is", "in", "!=", "is not", "not in"):
                    return (a[2] in primterms and isname(a[3])) or (a[3] in primterms and isname(a[2]))
                if is_call(a, name=PJ + "PPPrimitive.check") and len(a[2]) == 2:
                    return a[2][0] in primterms and isname(a[2][1])
                return False
            pk = {PRIMS[x[1]] for a in atoms if pure(a) for x in subterms(a) if x[0] == "name" and x[1] in PRIMS} & need
            for a in atoms:
                if not pure(a) and pk:
                    impure.setdefault(tuple(sorted(pk)), (a, ln))
    if impure:
        for ks, (a, ln) in sorted(impure.items()):
            ctx.bad("EXH-state-dispatch", f"state.State.eval_jaxpr_state[{'+'.join(ks)}]", "arm selected by the primitive alone",
                    f"the {'/'.join(ks)} arm is additionally conditional on {short(a, ev, 120)}: equations of that primitive failing the test are re-bound as they are, "
                    "so values saved inside them (e.g. in a nested scan body) are silently dropped", f"{I.s.module.path}:{ln}")
        return

    # --- state_p: named / leaf stores relative to the namespace stack; values pass through
    construct = "state.State.eval_jaxpr_state[state_p]"
    fails, through, structure, models = {}, {}, {}, 0
    for wrapped in (False, True):
        for depth in (0, 1, 2):
            for n in (1, 2, 3):
                for mode in ("named", "leaf"):
                    nm = "x" if mode == "named" else SENT
                    vals = [Opq("v", i) for i in range(n)]
                    stack = ["a", "b"][:depth]
                    for shape in ("leaves", "dict", "list1"):
                        # the operands are the FLAT leaves of the tagged values; the primitive carries the values' tree structure (in_tree):
                        # 'dict' tags {"a": v0, "b": v1} first, 'list1' tags the one-element list [v0] first, the other values are leaves
                        vals = [Opq("v", i) for i in range(n + (shape == "dict"))]
                        if shape == "leaves":
                            tmpl = tuple(range(n))
                        elif shape == "dict":
                            tmpl = ({"a": 0, "b": 1},) + tuple(range(2, n + 1))
                        else:
                            tmpl = ([0],) + tuple(range(1, n))
                        meta = {"name": nm, "in_tree": TreeDef("tmpl", tmpl), "num_consts": 0, "yes_kwargs": False}
                        params, inner = ({}, meta) if wrapped else (meta, {})
                        m = I.model(ST + "state_p", params, inner, invals=list(vals), stack=list(stack))
                        models += 1
                        try:
                            effs = I.effects(m)
                            tagged = TreeDef("tmpl", tmpl).unflatten(vals)
                            value = tagged[0] if n == 1 else tuple(tagged)
                            if mode == "named":
                                want = [("write", tuple(stack) + ("x",), value)]
                            elif depth == 0:
                                want = [("raise",)]
                            else:
                                want = [("write", tuple(stack), value)]
                            got = [(e[0],) + tuple(e[1:3]) if e[0] == "write" else e[:1] + tuple(e[1:]) for e in effs]
                            ok = len(got) == len(want) and all(a[0] == b[0] and (a[0] != "write" or (tuple(a[1]) == tuple(b[1]) and seq_eq(a[2], b[2]))) for a, b in zip(got, want))
                            if not ok and shape != "leaves" and want != [("raise",)]:
                                structure.setdefault(shape, f"{mode} save of {n} value(s), the first one {'a dictionary {a: v0, b: v1}' if shape == 'dict' else 'the one-element list [v0]'}: "
                                                     f"expected write[{'/'.join(want[0][1])}]={want[0][2]!r}, found {fmt(effs)} — the equation's operands are the values' flat leaves; "
                                                     "the collected value must be rebuilt with the primitive's in_tree")
                            elif not ok:
                                wanttxt = "raise (leaf save outside any namespace)" if want == [("raise",)] else f"write[{'/'.join(want[0][1])}]={want[0][2]!r}"
                                fails.setdefault((mode, "root" if depth == 0 else "nested"), f"{mode} save of {n} value(s) under namespaces {stack}: expected {wanttxt}, found {fmt(effs)}")
                            if want != [("raise",)] and ok:
                                out = m.ev(I.OUT)
                                if not seq_eq(out, vals):
                                    through.setdefault("out", f"{mode} save of {n} value(s): the equation's outputs are {out!r}, not the tagged values {vals!r}")
                        except Unknown as e:
                            raise AnalysisError(f"{construct}: cannot evaluate the arm in model ({mode}, depth {depth}, {n} values): {e}")
    if fails:
        for (mode, where), msg in sorted(fails.items()):
            key = {("named", "nested"): "named store under the namespace path", ("named", "root"): "root-level store only when the namespace stack is empty",
                   ("leaf", "nested"): "leaf store at the innermost namespace under its parents", ("leaf", "root"): "leaf save at the root is refused"}[(mode, where)]
            ctx.bad(rule, construct, key, msg, I.loc)
    else:
        ctx.ok(rule, construct, f"named, root and leaf stores are relative to the namespace stack in all {models} models (sentinel {SENT!r} shared with save())")
    if structure and not fails:
        for shape, msg in sorted(structure.items()):
            ctx.bad("ROLE-state-collect-structure", construct, f"collected value keeps its pytree structure ({shape})", msg, I.loc)
    elif not fails:
        ctx.ok("ROLE-state-collect-structure", construct, "a tagged dictionary / list is collected as the dictionary / list (rebuilt from the flat operands with in_tree), not as the tuple of its leaves")
    if through:
        ctx.bad(rule, construct, "tagged values pass through unchanged", through["out"], I.loc)
    elif not fails:
        ctx.ok("ROLE-state-transparent", construct, "tagged values are the equation's outputs")

    # --- push / pop mutate only the stack
    for depth in (0, 1, 2):
        for wrapped in (False, True):
            params, inner = ({}, {"namespace": "q"}) if wrapped else ({"namespace": "q"}, {})
            stack = ["a", "b"][:depth]
            try:
                m = I.model(ST + "namespace_push_p", params, inner, invals=[], stack=list(stack))
                effs = I.effects(m)
                good = [e[:2] for e in effs] == [("append", "q")] and seq_eq(m.ev(I.OUT), [])
                if not good and ("push", depth) not in fails:
                    fails[("push", depth)] = 1
                    ctx.bad("ROLE-namespace-stack", "state.State.eval_jaxpr_state[push]", "only namespace_stack.append", f"with stack {stack}: found {fmt(effs)}; outputs {m.ev(I.OUT)!r}", I.loc)
            except Unknown as e:
                raise AnalysisError(f"state.State.eval_jaxpr_state[push]: cannot evaluate the arm: {e}")
        try:
            m = I.model(ST + "namespace_pop_p", {}, {}, invals=[], stack=list(stack))
            effs = I.effects(m)
            good = ([e[:1] for e in effs] == [("raise",)]) if depth == 0 else ([tuple(e) for e in effs] == [("pop",)] and seq_eq(m.ev(I.OUT), []))
            if not good:
                fails[("pop", depth)] = 1
                ctx.bad("ROLE-namespace-stack", "state.State.eval_jaxpr_state[pop]", "only namespace_stack.pop", f"with stack {stack}: found {fmt(effs)}", I.loc)
        except Unknown as e:
            raise AnalysisError(f"state.State.eval_jaxpr_state[pop]: cannot evaluate the arm: {e}")
    if not any(k[0] == "push" for k in fails):
        ctx.ok("ROLE-namespace-stack", "state.State.eval_jaxpr_state[push]")
    if not any(k[0] == "pop" for k in fails):
        ctx.ok("ROLE-namespace-stack", "state.State.eval_jaxpr_state[pop]")

    # --- everything else is re-bound unchanged
    construct = "state.State.eval_jaxpr_state[else]"
    binds = [e[2] for e in I.s.events if e[1] == "call" and e[2][1] == ("attr", ("attr", I.EQN, "primitive"), "bind")]
    ctx.need(bool(binds), f"{construct}: eqn.primitive.bind not found (anchor vanished)")
    bad = None
    for res in ((Opq("r", 0), Opq("r", 1)), [Opq("r", 0)], AtomV("r")):
        params = {"p": 1}
        vals = [Opq("v", 0), Opq("v", 1)]
        m = I.model("jax.lax.add_p", params, {}, invals=list(vals), stack=["a"])
        try:
            live = []
            for e in I.s.events:
                if e[1] == "call" and e[2] in binds:
                    outer, inner, loops = split_guards(e[0])
                    if loops == 1 and m.live(outer):
                        live.append(e[2])
            if len(set(live)) != 1:
                bad = f"{len(set(live))} binds executed for an ordinary primitive"
                break
            args, kwargs = m.args_of(live[0])
            if not (seq_eq(args, ["sf0"] + vals) and kwargs == params):
                bad = f"ordinary primitive re-bound with {args!r}, {kwargs!r} instead of its own sub-functions, inputs and parameters"
                break
            m.bind(live[0], res)
            effs = I.effects(m)
            if effs:
                bad = f"ordinary primitive has side effects on the interpreter: {fmt(effs)}"
                break
            out = m.ev(I.OUT)
            want = list(res) if isinstance(res, (list, tuple)) else [res]
            if not seq_eq(out, want):
                bad = f"bind result {res!r} written back as {out!r}"
                break
        except Unknown as e:
            raise AnalysisError(f"{construct}: cannot evaluate the arm: {e}")
    if bad:
        ctx.bad("ROLE-state-transparent", construct, "re-bind unchanged", bad, I.loc)
    else:
        ctx.ok("ROLE-state-transparent", construct, "other primitives re-bound with their own inputs and params; results written back as they are")

    scan_rules(ctx, I, rule)


def state_fallthrough(ctx, rule="EXH-state-fallthrough"):
    """The arm of State.eval_jaxpr_state for primitives it does not interpret re-binds the equation.  A primitive that carries a
    sub-jaxpr (a jitted callee, cond, while_loop, checkpoint, custom_jvp ...) evaluates the tags inside it as identities, so everything
    saved there is silently missing from the returned dictionary ("contains exactly the values passed to save").  Obligations on the
    guarded event log (helpers inlined, generator helpers kept as opaque terms):
      O1 the plain re-bind is reached only under the *negation* of a test that looks for the state primitives among the equations of
         the interpreted equation's own sub-jaxprs (params of the interpreted equation -> jaxprs -> their eqns);
      O2 that search tests state_p (a value tagged inside must not be missed) and descends into nested sub-jaxprs (the helper is on a
         call-graph cycle, or a library traversal is used);
      O3 on the positive side every event is a raise or an interpretation by this interpreter (self.eval_jaxpr_state / state(...)) of
         a jaxpr taken from the equation's params - never the plain bind."""
    from .pjaxr import events_by_kind, fnode
    ev = mk_ev(ctx)
    dotted = ST + "State.eval_jaxpr_state"
    s = summarize(ctx, ev, dotted)
    loc = func_loc(ctx, dotted)
    construct = "state.State.eval_jaxpr_state[else]"
    by = events_by_kind(s)
    els = by.get(frozenset({"else"}), [])
    binds = [e for e in els if e[1] == "call" and e[2][1][0] == "attr" and e[2][1][2] == "bind" and e[2][1][1][0] == "attr" and e[2][1][1][2] == "primitive"]
    ctx.need(bool(binds), "State fall-through bind not found (anchor vanished)")
    STATE_P = N(ST + "state_p")

    def is_search(c):
        """a test about equations of a jaxpr reached from the interpreted equation's params, mentioning state_p"""
        if not isinstance(c, tuple):
            return False
        subs = list(subterms(c))
        if STATE_P not in subs:
            return False
        for x in subs:
            # subject equation: a loop variable over <something>.eqns where <something> is not the interpreter's own jaxpr parameter
            if x[0] == "attr" and x[2] == "primitive" and x[1][0] == "iter":
                itb = x[1][2]
                if itb[0] == "attr" and itb[2] == "eqns" and itb[1][0] != "param":
                    # ... and that something derives from the interpreted equation's params
                    if any(y[0] == "attr" and y[2] == "params" and y[1][0] == "iter" and y[1][2] == ("attr", ("param", "jaxpr"), "eqns") for y in subterms(itb[1])):
                        return True
        return False
    def implied(c, v):
        """literals implied by the guard literal (c is v): ¬x flips, a true conjunction makes every conjunct true, a false disjunction makes
        every disjunct false; a false conjunction / true disjunction implies nothing about its parts."""
        if isinstance(c, tuple) and c and c[0] == "unop" and c[1] == "not":
            yield from implied(c[2], not v)
        elif isinstance(c, tuple) and c and c[0] == "boolop" and ((c[1] == "and" and v) or (c[1] == "or" and not v)):
            for y in c[2]:
                yield from implied(y, v)
        elif isinstance(c, tuple) and c and c[0] == "boolop":
            return
        else:
            yield c, v

    def lits(e):
        return [(a, p) for c, v in e[0] if isinstance(c, tuple) and isinstance(v, bool) for a, p in implied(c, v)]
    unguarded = [e for e in binds if not any(p is False and is_search(a) for a, p in lits(e))]
    if unguarded:
        ctx.bad(rule, construct, "unguarded eqn.primitive.bind(*args, **params)",
                "primitives carrying a sub-jaxpr (jit-wrapped callee, cond, while_loop, checkpoint, custom_jvp/vjp) are re-bound as they are: state_p inside them evaluates as the "
                "identity and everything saved there is silently missing from the collected dictionary; input: state(lambda x: jax.jit(lambda y: save(a=y * 2)['a'])(x))(2.0) "
                "returns (4.0, {})", loc)
        return
    # O2: the searching helper(s): module-level functions named in the search condition or reachable from the interpreter
    conds = [a for e in binds for a, p in lits(e) if p is False and is_search(a)]
    names = {x[1][1] for c in conds for x in subterms(c) if is_call(x) and x[1][0] == "name"}
    library = any(n.endswith("jaxprs_in_params") for n in names) and any(n.endswith("subjaxprs") for n in names)
    anode, amod = fnode(ctx, dotted)
    mod_funcs = {st.name: st for st in amod.tree.body if isinstance(st, ast.FunctionDef)}
    edges = {f: {n.func.id for n in ast.walk(node) if isinstance(n, ast.Call) and isinstance(n.func, ast.Name) and n.func.id in mod_funcs} for f, node in mod_funcs.items()}

    def reach(src):
        seen, todo = set(), list(edges.get(src, ()))
        while todo:
            g = todo.pop()
            if g not in seen:
                seen.add(g)
                todo.extend(edges.get(g, ()))
        return seen
    called = {n.id for n in ast.walk(anode) if isinstance(n, ast.Name) and n.id in mod_funcs}
    helpers = set(called)
    for f in called:
        helpers |= reach(f)
    # module-level constants holding the state primitive (e.g. a tuple of the three primitives) count as a mention of it
    const_names = {t.id for st in amod.tree.body if isinstance(st, (ast.Assign, ast.AnnAssign)) and getattr(st, "value", None) is not None
                   and any(isinstance(n, ast.Name) and n.id == "state_p" for n in ast.walk(st.value))
                   for t in (st.targets if isinstance(st, ast.Assign) else [st.target]) if isinstance(t, ast.Name)}

    def mentions_state(f):
        return any(isinstance(n, ast.Name) and (n.id == "state_p" or n.id in const_names) for n in ast.walk(mod_funcs[f]))
    # a helper on a call-graph cycle (direct or mutual recursion) such that the cycle reaches a function testing for the state primitive
    recursive = library or any(f in reach(f) and any(mentions_state(g) for g in reach(f) | {f}) for f in helpers)
    if not recursive:
        ctx.bad(rule, construct, "the tag search descends into nested sub-jaxprs",
                "only the equations of the immediate sub-jaxpr are inspected: a value saved one level deeper (a jitted helper inside a cond branch) is still dropped silently", loc)
        return
    # O3: the positive side
    pos = [e for e in els if any(p is True and is_search(a) for a, p in lits(e))]
    handled = [e for e in pos if e[1] == "raise" or (e[1] == "call" and ((e[2][1][0] == "attr" and e[2][1][2] == "eval_jaxpr_state") or is_call(e[2][1], name=ST + "state")))]
    if not handled:
        ctx.bad(rule, construct, "a tagged sub-jaxpr is interpreted by this interpreter or rejected", "the search result is computed but neither raises nor interprets the sub-jaxpr", loc)
        return
    ctx.ok(rule, construct, "before the re-bind, state primitives found (recursively) in the equation's sub-jaxprs are interpreted by this interpreter or rejected with an error")


def scan_rules(ctx, I, rule):
    ev = I.ev
    construct = "state.State.eval_jaxpr_state[scan_p]"
    scans = [(sid, rec) for sid, rec in ev.scans.items()]
    ctx.need(len(scans) >= 1, f"{construct}: re-issued scan not found (anchor vanished)")
    sid, rec = scans[-1]
    J, LEN, REV = Opq("J"), Opq("LEN"), Opq("REV")
    params = {"jaxpr": J, "length": LEN, "reverse": REV, "num_consts": 1, "num_carry": 1, "linear": Opq("lin"), "unroll": Opq("unroll"), "_split_transpose": Opq("st")}
    invals = [Opq("c", 0), Opq("k", 0), Opq("x", 0)]
    body = rec.get("body") or NONE
    statecalls = list(dict.fromkeys(x for x in subterms(body) if is_call(x) and is_call(x[1], name=ST + "state")))
    problems = []
    merged_ok = None
    shallow_at = None
    for depth in (0, 1, 2):
        stack = ["a", "b"][:depth]
        m = I.model("jax.lax.scan_p", params, {}, invals=list(invals), stack=list(stack))
        carry, x = ev.carry_of(sid, rec["init"]), ev.elem_of(sid, rec["xs"])
        try:
            # the re-issued scan: same length / reverse, carry and xs are the equation's
            kw = {k: m.ev(v) for k, v in rec["kwargs"] if k is not None}
            if not (kw.get("length") == LEN):
                problems.append("the re-issued scan does not use the equation's length")
            if not (kw.get("reverse") == REV):
                problems.append("the re-issued scan does not forward the equation's reverse flag (a reverse scan is collected - and run - forwards)")
            if not seq_eq(m.ev(rec["init"]), [invals[1]]) or not seq_eq(m.ev(rec["xs"]), [invals[2]]):
                problems.append(f"scan carry/xs are {m.ev(rec['init'])!r} / {m.ev(rec['xs'])!r}, not the equation's carry and scanned inputs")
            # the body: state(body_fun)(*consts, *carry, *x) -> (carry_out, (ys, body_state))
            if len(statecalls) != 1:
                problems.append(f"the scan body runs the original body through state(...) {len(statecalls)} times (expected once)")
                break
            sc = statecalls[0]
            m.bind(("scan_carry", sid, None), [Opq("kk")])
            if isinstance(carry, tuple) and carry[0] in ("tuple", "list"):
                for i, c_ in enumerate(carry[1]):
                    m.bind(c_, [Opq("kk", i)])
            m.bind(x, [Opq("xx")])
            fnargs = m.seq(sc[1][2])
            if not (len(fnargs) == 1 and isinstance(fnargs[0], Opq) and fnargs[0].parts[:1] == ("call",) and fnargs[0].parts[2] == (J,)):
                problems.append("state(...) in the scan body is not applied to jaxpr_as_fun(params['jaxpr'])")
            args, kwargs = m.args_of(sc)
            kk = flat(m.ev(carry))
            if not seq_eq(args, [invals[0]] + kk + [Opq("xx")]):
                problems.append(f"the transformed body is called with {args!r}, not (consts, carry, scanned input)")
            # the state collected by one iteration of the body: a (possibly nested) dictionary
            BS = {"n": Opq("BODYSTATE")}
            m.bind(("idx", sc, C(0)), [Opq("r", 0), Opq("r", 1)])
            m.bind(("idx", sc, C(1)), BS)
            ret = m.ev(body)
            good = isinstance(ret, (tuple, list)) and len(ret) == 2 and seq_eq(flat(ret[0]), [Opq("r", 0)]) and isinstance(ret[1], (tuple, list)) and len(ret[1]) == 2 \
                and seq_eq(flat(ret[1][0]), [Opq("r", 1)]) and ret[1][1] == BS
            if not good:
                problems.append(f"the scan body returns {ret!r}; expected (carry_out, (ys, state collected by the body)) so that saved values are stacked along the iteration axis")
            # effects: the stacked body state merged under the enclosing namespaces; outputs = (final carry, stacked ys)
            m.bind(("scan_final", sid), [Opq("F")])
            effs = I.effects(m)
            mg = [e for e in effs if e[0] in ("merge", "deepmerge")]
            others = [e for e in effs if e[0] not in ("merge", "deepmerge", "touch")]
            shallow_at = shallow_at or next((e[4] for e in mg if e[0] == "merge"), None)
            if others:
                problems.append(f"unexpected effects in the scan arm: {fmt(others)}")
            if not mg:
                merged_ok = (False, "scan state merged", "values saved inside scan bodies are never merged into the collected state", None)
            else:
                srcs_ok = all(e[2] == {"n": Opq("stacked", Opq("BODYSTATE"))} for e in mg)
                if not srcs_ok:
                    problems.append(f"the merged state is {mg[0][2]!r}, not the stacked state collected by the scan body")
                rel = all(tuple(e[1]) == tuple(stack) for e in mg)
                if not rel and (merged_ok is None or merged_ok[0]):
                    merged_ok = (False, "scan merge stores at the root",
                                 "values saved inside a scan body are merged with `self.collected_state[name] = …` at the root, ignoring the enclosing namespace stack "
                                 f"(with stack {stack} the merge goes to /{'/'.join(map(str, mg[0][1]))}); input: state(namespace(lambda: scan(body_with_save, …), 'ns'))", mg[0][4])
                elif merged_ok is None:
                    merged_ok = (True,)
            out = m.ev(I.OUT)
            if not seq_eq(flat(out), [Opq("F"), Opq("stacked", Opq("r", 1))]):
                problems.append(f"the scan equation's outputs are {out!r}, not (final carry, stacked ys)")
        except Unknown as e:
            raise AnalysisError(f"{construct}: cannot evaluate the arm (stack depth {depth}): {e}")
    if merged_ok is not None and not merged_ok[0]:
        ctx.bad(rule, construct, merged_ok[1], merged_ok[2], f"{I.s.module.path}:{merged_ok[3]}" if merged_ok[3] else I.loc)
    elif merged_ok is not None:
        ctx.ok(rule, construct, "scan merge is relative to the enclosing namespace stack")
    # --- the stacked body state is a nested dictionary (namespaces used inside the body) merged into a nested dictionary: a key-wise
    #     assignment at the top level replaces a sub-dictionary that already holds values saved before the scan
    if merged_ok is not None and merged_ok[0]:
        c2 = "state.State.eval_jaxpr_state[scan_p] (merge depth)"
        if shallow_at is not None:
            ctx.bad("ALG-scan-merge", c2, "stacked body state merged recursively into the collected state",
                    "the stacked body state is written key by key at the top level (`target[name] = value` / dict.update): a namespace saved by the scan body replaces the whole "
                    "sub-dictionary of the same name, dropping values saved under it before the scan; input: namespace(lambda: save(x=1.), 'a')() followed by a scan whose body "
                    "does namespace(lambda: save(y=x), 'a')() collects {'a': {'y': ...}} without a.x", f"{I.s.module.path}:{shallow_at}")
        else:
            ctx.ok("ALG-scan-merge", c2, "merge descends where both sides hold a dictionary")
        # --- a scan body that saves nothing leaves no trace in the collected state (no empty namespace entries)
        c3 = "state.State.eval_jaxpr_state[scan_p] (tag-free body)"
        try:
            m = I.model("jax.lax.scan_p", params, {}, invals=list(invals), stack=["a"])
            m.bind(("scan_carry", sid, None), [Opq("kk")])
            if isinstance(carry, tuple) and carry[0] in ("tuple", "list"):
                for i, c_ in enumerate(carry[1]):
                    m.bind(c_, [Opq("kk", i)])
            m.bind(x, [Opq("xx")])
            sc = statecalls[0]
            m.bind(("idx", sc, C(0)), [Opq("r", 0), Opq("r", 1)])
            m.bind(("idx", sc, C(1)), {})
            m.bind(("scan_final", sid), [Opq("F")])
            effs = I.effects(m)
        except Unknown as e:
            raise AnalysisError(f"{c3}: cannot evaluate the arm: {e}")
        left = [e for e in effs if e[0] in ("touch", "write", "clobber") or (e[0] in ("merge", "deepmerge") and len(e[1]) and False)]
        if left:
            ctx.bad("ALG-scan-merge", c3, "a scan body that saves nothing leaves the collected state untouched",
                    f"with an empty body state the arm still performs {fmt(left)}: the enclosing namespaces are created as empty dictionaries "
                    "(state(namespace(lambda: scan(tag_free_body, ...), 'a'))) returns {'a': {}})", f"{I.s.module.path}:{left[0][3]}" if left[0][3] else I.loc)
        else:
            ctx.ok("ALG-scan-merge", c3, "no node is created for an empty body state")
    problems = list(dict.fromkeys(problems))
    if problems:
        ctx.bad("ROLE-state-scan", construct, "scan re-issued with same length/reverse and (ys, body_state) outputs", "; ".join(problems), I.loc)
    else:
        ctx.ok("ROLE-state-scan", construct, "same length/reverse; ys = (original ys, collected state) so saved values are stacked along the iteration axis")


# ---------------------------------------------------------------------------------------------------------------- nested dict helpers
def nested_set(ctx, rule="ALG-nested-dict-set"):
    for fname, kind in (("_nested_dict_set", "set"), ("_nested_dict_get", "get")):
        ev = mk_ev(ctx)
        dotted = ST + fname
        s = summarize(ctx, ev, dotted)
        D = Opq("d")
        bad = None
        for depth in (0, 1, 2):
            m = Model(funcs=FUNCS)
            path = ("a", "b")[:depth]
            m.bind(("param", "d"), D)
            m.bind(("param", "path"), path)
            m.bind(("param", "key"), "k")
            m.bind(("param", "value"), Opq("val"))
            try:
                E = Effects(m, ev, [D], outer_loops=0)
                try:
                    effs = E.run(s.events)
                except Unknown:
                    if not any(e[0] == "clobber" for e in E.out):
                        raise
                    effs = E.out
                # creating the missing nodes along the path (through the lookup helper) is what both helpers are for
                effs = [e for e in effs if e[0] != "touch"]
                clob = [e for e in effs if e[0] == "clobber"]
                if clob:
                    bad = f"an existing intermediate dictionary is overwritten while walking the path ({clob[0][1]}): earlier saves under the same namespace are lost"
                    break
                if kind == "set":
                    w = [e for e in effs if e[0] != "clobber"]
                    if not (len(w) == 1 and w[0][0] == "write" and tuple(w[0][1]) == path + ("k",) and w[0][2] == Opq("val")):
                        bad = f"with path {path}: expected d[{']['.join(path + ('k',))}] = value (a later write replaces an earlier one), found {fmt(w)}"
                        break
                else:
                    root, pre = E.loc(s.ret)
                    if not (root == D and tuple(pre) == path) or [e for e in effs if e[0] != "clobber"]:
                        bad = f"with path {path}: returns node /{'/'.join(map(str, pre))} of {root!r}; effects {fmt(effs)}"
                        break
            except Unknown as e:
                raise AnalysisError(f"state.{fname}: cannot evaluate: {e}")
        if bad:
            ctx.bad(rule, f"state.{fname}", "walk path, create missing dicts, assign key" if kind == "set" else "walk path, create missing dicts, return node", bad, func_loc(ctx, dotted))
        else:
            ctx.ok(rule, f"state.{fname}", "walks the path creating only missing sub-dicts" + (", then assigns" if kind == "set" else ", returns the node"))


# ---------------------------------------------------------------------------------------------------------------- namespace wrapper
def closure_result(ev, t):
    """The closure a decorator-style return denotes: <fn>, wraps(f)(<fn>), or jit-like wrappers around it."""
    while is_call(t) and len(t[2]) == 1 and t[2][0][0] in ("closure", "call"):
        t = t[2][0]
    return t if t[0] == "closure" else None


def bind_sites(ev, events, prim):
    """[(params kwargs dict term-wise, operand args)] of initial_style_bind(prim, …)(fn, **params)(*operands) calls in an event list."""
    out = []
    for g, k, pl, ln, q in events:
        if k != "call":
            continue
        t = pl
        if is_call(t) and is_call(t[1]) and is_call(t[1][1], name=PJ + "initial_style_bind"):
            isb = t[1][1]
            p = isb[2][0] if isb[2] else None
            out.append((p, t[1], t, g, ln))
    return out


def namespace_pairing(ctx, rule="PAIR-namespace"):
    ev = mk_ev(ctx)
    dotted = ST + "namespace"
    s = summarize(ctx, ev, dotted)
    construct = "state.namespace.namespaced_fn"
    cl = closure_result(ev, s.ret)
    ctx.need(cl is not None, "state.namespace: wrapper closure not found (anchor vanished)")
    ARGS, KW = ("param", "args"), ("param", "kwargs")
    ev.apply_closure(cl, (("star", ARGS),), ((None, KW),))
    evs = ev.last_closure_summary.events
    seq = []
    F, NSP = ("param", "f"), ("param", "ns")
    for g, k, pl, ln, q in evs:
        fin = any(isinstance(c, tuple) and c and c[0] == "finally" for c, _ in g)
        exc = any(isinstance(c, tuple) and c and c[0] == "except" for c, _ in g)
        if k == "call" and is_call(pl, name=ST + "_namespace_push"):
            seq.append(("push", pl[2], fin, exc))
        elif k == "call" and is_call(pl, name=ST + "_namespace_pop"):
            seq.append(("pop", pl[2], fin, exc))
        elif k == "call" and pl[1] == F:
            seq.append(("f", (pl[2], pl[3]), fin, exc))
        elif k == "try":
            seq.append(("try", None, fin, exc))
        elif k == "finally":
            seq.append(("finally", None, fin, exc))
    shape = [x[0] for x in seq]
    ok = shape == ["push", "try", "f", "finally", "pop"]
    why = f"found order {shape}"
    if ok:
        push, _, f, _, pop = seq
        if push[1] != (NSP,):
            ok, why = False, f"pushes {short(push[1][0], ev, 60) if push[1] else 'nothing'} instead of the namespace given"
        elif not pop[2]:
            ok, why = False, "the pop is not in a finally block: an exception inside f leaves the namespace on the stack"
        elif f[1] != ((("star", ARGS),), ((None, KW),)):
            ok, why = False, "f is not called with the wrapper's own arguments"
    if ok:
        r = ev.last_closure_summary.ret
        fcall = ("call", F, (("star", ARGS),), ((None, KW),))
        if not any(x == fcall for x in subterms(r)):
            ok, why = False, f"the wrapper returns {short(r, ev, 80)}, not f's result"
    if ok:
        ctx.ok(rule, construct, "push, then try: result = f(*args, **kwargs) finally: pop (exceptional exits included)")
    else:
        ctx.bad(rule, construct, "push … try/finally pop", why, func_loc(ctx, dotted))
    # --- the push/pop primitives: outer bind and batch rule re-insert the same primitive with the same parameter
    for fname, prim, par in (("_namespace_push", "namespace_push_p", "namespace"), ("_namespace_pop", "namespace_pop_p", None)):
        ev = mk_ev(ctx)
        dotted = ST + fname
        s = summarize(ctx, ev, dotted)
        sites = bind_sites(ev, s.events, prim)
        construct = f"state.{fname}"
        outer = [x for x in sites if x[0] == ("name", ST + prim)]
        ok = len(outer) == 1
        why = f"{len(outer)} binds of {prim}"
        batch = None
        if ok:
            p, inner, full, g, ln = outer[0]
            isb = inner[1]
            batch = ev.kwget(isb[3], "batch")
            if par is not None and ev.kwget(inner[3], par) != ("param", par):
                ok, why = False, f"the primitive is bound with {par}={short(ev.kwget(inner[3], par) or NONE, ev, 60)}, not the namespace given"
            elif batch is None:
                ok, why = False, "no batch rule: the push/pop is lost (or fails) under vmap"
        if ok:
            # the batch rule re-inserts the primitive (directly or by calling this function again) with params[par]
            from .util import apply_fn_summary
            P = ("param", "params")
            m = Model(funcs=FUNCS, evaluator=ev)
            m.bind(P, {"namespace": "q"})
            applied = apply_fn_summary(ev, batch, (("param", "vector_args"), ("param", "dims")), ((None, P),))
            if applied is None:
                ctx.bad("SIB-state-batch", construct, "same primitive under vmap", "no batch rule the analyser can apply: the push/pop is lost (or fails) under vmap", func_loc(ctx, dotted))
                continue
            bev = applied[1]
            again = [e[2] for e in bev if e[1] == "call" and is_call(e[2], name=dotted)]
            rebinds = [x for x in bind_sites(ev, bev, prim) if x[0] == ("name", ST + prim)]
            try:
                if again:
                    vals = [m.ev(a) for a in again[0][2]]
                    good = (vals == ["q"]) if par else (vals == [])
                elif rebinds:
                    v = ev.kwget(rebinds[0][1][3], par) if par else None
                    good = (v is not None and m.ev(v) == "q") if par else True
                else:
                    good = False
            except Unknown:
                good = False
            if not good:
                ok, why = False, "the batch rule does not re-insert the same primitive with the same namespace: under vmap the namespace is lost or changed"
        if ok:
            ctx.ok("SIB-state-batch", construct, f"outer bind and batch rule re-insert {prim}" + (" with the same namespace" if par else ""))
        else:
            ctx.bad("SIB-state-batch", construct, "same primitive and namespace under vmap" if par else "same primitive under vmap", why, func_loc(ctx, dotted))


# ---------------------------------------------------------------------------------------------------------------- tag_state / save / state
def identity_ok(ev, cl):
    """closure returns its single argument, or the tuple of its arguments when there are several."""
    A = ("param", "args")
    if cl[0] == "closure":
        r = ev.apply_closure(cl, (("star", A),), ())
    elif cl[0] == "name" and cl[1].startswith("genjax."):
        # a module-level function: evaluated from its own definition, applied to (*args)
        try:
            look = ev.p.lookup(cl[1])
            if look is None or look[0] != "func":
                return False
            r = ev.eval_funcnode(look[1], look[2], cl[1], args=(("star", A),), kwargs=()).ret
        except Exception:
            return False
    else:
        return False
    if r is None:
        return False
    for n in (1, 2, 3):
        m = Model(funcs=FUNCS)
        vals = tuple(Opq("v", i) for i in range(n))
        m.bind(A, vals)
        try:
            out = m.ev(r)
        except Unknown:
            return False
        if not (out == vals[0] if n == 1 else seq_eq(out, vals)):
            return False
    return True


def tag_state_rules(ctx, rule="ROLE-tag_state"):
    ev = mk_ev(ctx)
    dotted = ST + "tag_state"
    s = summarize(ctx, ev, dotted)
    construct = "state.tag_state"
    sites = [x for x in bind_sites(ev, s.events, "state_p") if x[0] == ("name", ST + "state_p")]
    ok = len(sites) == 1
    why = f"{len(sites)} binds of state_p"
    batch = None
    if ok:
        p, inner, full, g, ln = sites[0]
        fn = inner[2][0] if inner[2] else None
        batch = ev.kwget(inner[1][3], "batch")
        if ev.kwget(inner[3], "name") != ("param", "name"):
            ok, why = False, "state_p is not bound with the name given"
        elif full[2] != (("star", ("param", "values")),):
            ok, why = False, "state_p is not applied to the values given"
        elif fn is None or fn[0] not in ("closure", "name") or not identity_ok(ev, fn):
            ok, why = False, "the function bound under state_p is not the identity on the tagged values"
        elif not any(x == full for x in subterms(s.ret)):
            ok, why = False, "tag_state does not return the primitive's result"
    if ok:
        ctx.ok(rule, construct, "binds state_p over the identity with the given name; values pass through")
    else:
        ctx.bad(rule, construct, "state_p bound over the identity with name=name", why, func_loc(ctx, dotted))
        return
    from .util import apply_fn_summary
    P, VA, DIMS = ("param", "params"), ("param", "vector_args"), ("param", "dims")
    applied = apply_fn_summary(ev, batch, (VA, DIMS), ((None, P),)) if batch is not None else None
    ctx.need(applied is not None, "tag_state: batch rule not found (anchor vanished)")
    r, bevents = applied
    rebinds = [x for x in bind_sites(ev, bevents, "state_p") if x[0] == ("name", ST + "state_p")]
    good = len(rebinds) == 1
    if good:
        p, inner, full, g, ln = rebinds[0]
        m = Model(funcs=FUNCS)
        m.bind(P, {"name": "nm"})
        nm = ev.kwget(inner[3], "name")
        fn = inner[2][0] if inner[2] else None
        try:
            good = nm is not None and m.ev(nm) == "nm" and not full[3] and fn is not None and fn[0] in ("closure", "name") and identity_ok(ev, fn)
        except Unknown:
            good = False
        # the operands of the re-inserted tag are the vectorised VALUES: the rule receives their flat leaves (vector_args) and the values'
        # tree structure (params["in_tree"]); evaluated in finite models — flat leaves only, a dictionary first, a one-element list first
        lost = None
        for tmpl in ((0,), (0, 1), (0, 1, 2), ({"a": 0, "b": 1}, 2), ([0],)) if good else ():
            nleaves = len(flat(TreeDef("tmpl", tmpl).unflatten(list(range(8)))))
            va = tuple(Opq("va", i) for i in range(nleaves))
            mm = Model(funcs=FUNCS)
            mm.bind(P, {"name": "nm", "in_tree": TreeDef("tmpl", tmpl), "num_consts": 0, "yes_kwargs": False})
            mm.bind(VA, va)
            mm.bind(DIMS, tuple(AtomV("d", i) for i in range(nleaves)))
            try:
                ops, kw = mm.args_of(full)
            except Unknown as e:
                raise AnalysisError(f"state.tag_state.batch_rule: cannot evaluate the operands of the re-inserted tag: {e}")
            want = TreeDef("tmpl", tmpl).unflatten(va)
            if kw or not seq_eq(flat(list(ops)), list(va)):
                good = False
                break
            if freeze(tuple(ops)) != freeze(tuple(want)) and lost is None:
                lost = f"values {want!r} are re-tagged as {tuple(ops)!r}"
        if good and lost:
            ctx.bad("ROLE-state-collect-structure", "state.tag_state.batch_rule (re-bind)", "re-inserted tag keeps the values' pytree structure",
                    f"under vmap the tag is re-inserted on the flat leaves: {lost}, so a dictionary / list saved under vmap is collected as the tuple of its leaves; "
                    "rebuild the values with params['in_tree'] before re-binding", func_loc(ctx, dotted))
        # the re-inserted tag must itself be batchable by the same rule: a second batching level (vmap of vmap, vmap of modular_vmap, a scan
        # body under two vmaps) otherwise falls back to initial_style_bind's default batcher, which batches the identity and does NOT re-bind
        # state_p — the tag disappears from the Jaxpr and the value is never collected
        rb = ev.kwget(inner[1][3], "batch")
        if good and (rb is None or rb != batch):
            ctx.bad("SIB-state-batch", "state.tag_state.batch_rule (nested)", "the re-inserted tag carries the same batch rule",
                    "under vmap the tag is re-inserted " + ("without a batch rule" if rb is None else f"with a different batch rule ({short(rb, ev, 60)})")
                    + ": a second batching level uses the default batcher, which does not re-bind state_p, so values saved under two stacked vmaps "
                    "(state(vmap(vmap(f))), a scan body under two vmaps) are silently not collected", func_loc(ctx, dotted))
            return
    if good:
        ctx.ok("SIB-state-batch", "state.tag_state.batch_rule (re-bind)", "same primitive and name on the vectorised operands")
    else:
        ctx.bad("SIB-state-batch", "state.tag_state.batch_rule (re-bind)", "same primitive and name", "under vmap the tag is re-inserted with a different primitive, name, function or operands", func_loc(ctx, dotted))
        return
    # out dims: output i is batched like operand i
    full = rebinds[0][2]
    wrong = None
    for n in (1, 2, 3):
        m = Model(funcs=FUNCS)
        dims = tuple(AtomV("d", i) for i in range(n))
        m.bind(DIMS, dims)
        m.bind(VA, tuple(Opq("va", i) for i in range(n)))
        m.bind(P, {"name": "nm", "in_tree": TreeDef("tmpl", tuple(range(n))), "num_consts": 0, "yes_kwargs": False})
        res = AtomV("res") if n == 1 else tuple(Opq("res", i) for i in range(n))
        m.bind(full, res)
        try:
            out = m.ev(r)
        except Unknown as e:
            raise AnalysisError(f"state.tag_state.batch_rule: cannot evaluate the returned (outputs, out_dims) for {n} operands: {e}")
        if not (isinstance(out, (tuple, list)) and len(out) == 2):
            wrong = (n, f"returns {out!r}")
            break
        outs, od = out
        if not (seq_eq(flat(outs), flat(res)) and isinstance(od, (tuple, list)) and seq_eq(list(od), list(dims))):
            wrong = (n, f"with operand dims {dims!r} the rule declares out dims {od!r}")
            break
    if wrong is None:
        ctx.ok("SIB-state-batch", "state.tag_state.batch_rule (out dims)")
    else:
        ctx.bad("SIB-state-batch", "state.tag_state.batch_rule (out dims)", "all outputs declared with dims[0]",
                "a multi-value tag passes several operands through but declares every output batched like the first one: with differently batched values "
                f"(save(x, 1.0) in leaf mode under vmap) the unbatched value is mis-declared ({wrong[1]}); input: vmap(namespace(lambda x: save(x, 1.0), 'n'))(xs)", func_loc(ctx, dotted))


def save_and_state(ctx, rule="ROLE-save"):
    names, s, ev = writer_sentinel(ctx)
    dotted = ST + "save"
    # leaf mode: one tag carrying the value (n = 1) or the tuple of values (n > 1), returned unchanged
    bad = None
    for n in (1, 2, 3):
        m = Model(funcs=FUNCS)
        vals = tuple(Opq("v", i) for i in range(n))
        m.bind(("param", "values"), vals)
        m.bind(("param", "tagged_values"), {})
        try:
            tags = [pl for g, k, pl, ln, q in s.events if k == "call" and is_call(pl, name=ST + "tag_state") and not any(isinstance(c, tuple) and c and c[0] == "loop" for c, _ in g) and m.live(g)]
            if len(tags) != 1:
                bad = f"leaf save of {n} value(s) issues {len(tags)} tags"
                break
            args, kwargs = m.args_of(tags[0])
            want = vals[0] if n == 1 else vals
            if not (len(args) == 1 and (args[0] == want if n == 1 else seq_eq(args[0], want)) and set(kwargs) == {"name"}):
                bad = f"leaf save of {n} value(s) tags {args!r}"
                break
        except Unknown as e:
            raise AnalysisError(f"state.save: cannot evaluate leaf mode: {e}")
    # named mode: every (name, value) pair tagged under its own name
    named = []
    for x in subterms(("tuple", tuple(e[2] for e in s.events if e[1] in ("call", "return", "store") and isinstance(e[2], tuple)) + (s.ret,))):
        if is_call(x, name=ST + "tag_state"):
            nm = ev.kwget(x[3], "name")
            if nm is not None and nm[0] == "idx" and nm[1][0] == "iter" and is_const(nm[2], 0):
                named.append((x, nm))
    named = list(dict.fromkeys(named))
    if not bad:
        if not named:
            bad = "named save does not tag each value under its own name"
        for x, nm in named:
            it = nm[1]
            src = it[2]
            if not (x[2] == (("idx", it, C(1)),) and is_call(src) and src[1] == ("attr", ("param", "tagged_values"), "items")):
                bad = f"named save tags {short(x, ev, 100)}: name and value do not come from the same keyword pair"
    if bad:
        ctx.bad(rule, "state.save", "each value tagged under its own name", bad, func_loc(ctx, dotted))
    else:
        ctx.ok(rule, "state.save", "named mode tags each value under its own name; leaf mode tags the positional value(s)")
    # --- state(f): a fresh interpreter (empty dict, empty stack) per call, evaluating f on the call's arguments
    ev = mk_ev(ctx)
    ev.inline_methods_on_ctor = False
    dotted = ST + "state"
    s = summarize(ctx, ev, dotted)
    cl = closure_result(ev, s.ret)
    ctx.need(cl is not None, "state.state: wrapper closure not found (anchor vanished)")
    ARGS = ("param", "args")
    r = ev.apply_closure(cl, (("star", ARGS),), ())
    ctors = list(dict.fromkeys(x for x in subterms(r) if is_call(x, name=ST + "State")))
    good = len(ctors) == 1
    why = f"{len(ctors)} State(...) constructions"
    if good:
        c = ctors[0]
        cs = ev.ctor_field(c, "collected_state")
        nsf = ev.ctor_field(c, "namespace_stack")
        want = ("call", ("attr", c, "eval"), (("param", "f"), ("star", ARGS)), ())
        if cs != ("dict", ()):
            good, why = False, f"the interpreter's collected_state is {short(cs or NONE, ev, 60)}, not a fresh empty dict: state leaks between calls"
        elif nsf is not None and nsf not in (("list", ()),) and not is_const(nsf, None):
            good, why = False, f"the interpreter's namespace_stack starts as {short(nsf, ev, 60)}"
        elif r != want:
            good, why = False, f"the wrapper returns {short(r, ev, 100)}, not State(...).eval(f, *args)"
    if good:
        ctx.ok(rule, "state.state.wrapped", "fresh interpreter (empty dict, empty stack) per call")
    else:
        ctx.bad(rule, "state.state.wrapped", "fresh State per call", why, func_loc(ctx, dotted))
    # --- State.eval returns (unchanged result, collected state)
    ev = mk_ev(ctx)
    dotted = ST + "State.eval"
    s = summarize(ctx, ev, dotted)
    r = s.ret
    it = items(r)
    good = it is not None and len(it) == 2 and it[1] in (CS, ("call", ("name", "builtins.dict"), (CS,), ()), ("call", ("attr", CS, "copy"), (), ()))
    if good:
        res = it[0]
        staged = ("call", ("call", ("name", PJ + "stage"), (("param", "fn"),), ()), (("star", ("param", "args")),), ())
        inner = [x for x in subterms(res) if is_call(x) and x[1] == ("attr", SELF, "eval_jaxpr_state")]
        good = is_call(res, name="jax.tree_util.tree_unflatten") and len(inner) == 1 and res[2][1] == inner[0] and any(x == staged for x in subterms(res[2][0])) \
            and len(inner[0][2]) == 3 and all(any(x == staged for x in subterms(a)) for a in inner[0][2])
    if good:
        ctx.ok(rule, "state.State.eval", "returns (unchanged result, collected state)")
    else:
        ctx.bad(rule, "state.State.eval", "returns (result, collected_state)", f"found {short(r, ev, 200)}", func_loc(ctx, dotted))


RULES = [interpreter_rules, state_fallthrough, nested_set, namespace_pairing, tag_state_rules, save_and_state]
FLOOR = 12

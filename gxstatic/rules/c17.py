"""C17 ELBO and VI (structural clauses, DESIGN §4-C17)."""
from . import infer, adevr
from . import tables

EXPLANATION = ("The elbo closure's symbolic value is compared (as a polynomial over resolved calls) with log p(merge(constraint, q choices)) + q score; "
               "the optimisation scan's carry/emit terms with params + lr·grad_estimate(params); families' covariance constructions; merge precedence; "
               "the reparameterised / score-function estimators the built-in families are made of (shared with C11).")
# the built-in variational families draw through multivariate_normal_reparam / multivariate_normal_reinforce: "with both reparameterised and
# score-function families" makes those two estimators' forms part of this property
RULES = [infer.elbo_rule, infer.optimize_rule, infer.families_rule, infer.elbo_vi_rule, tables.fn_merge_table, adevr.reparam_rule, adevr.reinforce_rule]
FLOOR = 5

"""C17 ELBO and VI (structural clauses, DESIGN §4-C17)."""
from . import infer
from . import tables

EXPLANATION = ("The elbo closure's symbolic value is compared (as a polynomial over resolved calls) with log p(merge(constraint, q choices)) + q score; "
               "the optimisation scan's carry/emit terms with params + lr·grad_estimate(params); families' covariance constructions; merge precedence.")
RULES = [infer.elbo_rule, infer.optimize_rule, infer.families_rule, infer.elbo_vi_rule, tables.fn_merge_table]
FLOOR = 5

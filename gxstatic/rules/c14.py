"""C14 unseeded sampling can never be compiled into a fixed-randomness program (structural clauses, DESIGN §4-C14)."""
from . import pjaxr

EXPLANATION = ("Who-may-bind rule for sample_p/adev_sample_p, must-carry rule for the lowering exception, guard shape of the lowering rule and of the "
               "sample batch rule, single-writer rule for the two global flags, and exhaustiveness of Seed's fall-through.")
RULES = [pjaxr.lowering_guard_terms, pjaxr.sample_bind_terms, pjaxr.sample_transform_rules, pjaxr.vmap_context_guard_terms, pjaxr.seed_fallthrough_events, pjaxr.nested_jaxpr_seeded_events,
         pjaxr.dummy_protocol_events, pjaxr.dispatch_sets_events]
FLOOR = 10

"""C11 ADEV value and gradient estimators are unbiased (structural clauses, DESIGN §4-C11)."""
from . import adevr, adevi, c13

EXPLANATION = ("Continuation-protocol agreement over all 9 prim_jvp_estimate implementations, polynomial comparison of the REINFORCE / enumeration / "
               "measure-valued tangent forms, reparameterisation transforms with parameter-independent noise, CPS interpreter roles, custom-JVP bridge.")
RULES = [adevr.kont_protocol, adevr.reinforce_rule, adevr.flip_enum_rule, adevr.flip_mvd_rule, adevr.lane_rb_rule, adevr.reparam_rule, adevi.interpreter_rule, adevi.cond_site_continuation, adevi.dual_helpers_rule, c13.adev_param_agreement]
FLOOR = 18

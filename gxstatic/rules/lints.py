"""E7 lints specific to this code base: tracer-safety (TRC) and pytree-kind (KIND)."""
from __future__ import annotations

import ast

from ..model import AnalysisError

STATIC_CALLS = {"isinstance", "len", "hasattr", "callable", "all", "any", "bool", "issubclass", "getattr", "type", "int", "tuple", "set", "sorted", "str"}
STATIC_ATTRS = {"value", "shape", "ndim", "dtype", "size", "name", "__name__"}
STATIC_FUNCS = {"jnp.shape", "jnp.ndim", "jax.numpy.shape", "jax.numpy.ndim", "jnp.size", "_is_ad_zero", "_is_float0_tangent", "PPPrimitive.check",
                "Dual.static_check_is_dual", "Dual.static_check_dual_tree", "inspect.getfile"}
ARRAY_FUNCS = ("jnp.", "jax.numpy.", "jax.lax.", "jax.scipy.", "jax.nn.", "jrand.", "jax.random.")


def is_static_test(t, static_names):
    """True if the boolean test is decidable at trace time under this code base's conventions."""
    if isinstance(t, ast.Constant):
        return True
    if isinstance(t, ast.BoolOp):
        return all(is_static_test(v, static_names) for v in t.values)
    if isinstance(t, ast.UnaryOp) and isinstance(t.op, ast.Not):
        return is_static_test(t.operand, static_names)
    if isinstance(t, ast.Compare):
        ops = t.ops
        if all(isinstance(o, (ast.Is, ast.IsNot)) for o in ops):
            return True
        if all(isinstance(o, (ast.In, ast.NotIn)) for o in ops):
            return True  # membership in dict / set / tuple of primitives / selection (static containers in this code base)
        sides = [t.left] + list(t.comparators)
        return all(is_static_value(s, static_names) for s in sides)
    if isinstance(t, ast.Call):
        f = ast.unparse(t.func)
        if f in STATIC_CALLS or f in STATIC_FUNCS or f.split(".")[-1] in ("startswith", "endswith", "get", "items", "keys", "match", "check", "static_check_dual_tree"):
            return True
        return False
    return is_static_value(t, static_names)


def is_static_value(v, static_names):
    if isinstance(v, ast.Constant):
        return True
    if isinstance(v, ast.Name):
        return v.id in static_names
    if isinstance(v, ast.Attribute):
        if v.attr in STATIC_ATTRS:
            return True
        return is_static_value(v.value, static_names) and False
    if isinstance(v, ast.Subscript):
        return is_static_value(v.value, static_names)
    if isinstance(v, ast.Call):
        f = ast.unparse(v.func)
        if f in STATIC_CALLS or f in STATIC_FUNCS:
            return True
        return False
    if isinstance(v, (ast.Tuple, ast.List)):
        return all(is_static_value(e, static_names) for e in v.elts)
    if isinstance(v, ast.BinOp):
        return is_static_value(v.left, static_names) and is_static_value(v.right, static_names)
    if isinstance(v, ast.UnaryOp):
        return is_static_value(v.operand, static_names)
    return False


def traced_names(fn):
    """Names assigned from array-producing calls (jnp.*, jax.*, .get_score(), …) inside the function: definitely traced."""
    out = set()
    for st in ast.walk(fn):
        if isinstance(st, ast.Assign) and isinstance(st.value, ast.Call):
            f = ast.unparse(st.value.func)
            if f.startswith(ARRAY_FUNCS) and f not in STATIC_FUNCS or f.endswith((".get_score", ".logpdf", ".sample", ".assess", ".get_retval")):
                for t in st.targets:
                    for n in ast.walk(t):
                        if isinstance(n, ast.Name):
                            out.add(n.id)
    return out


def trc_lint(ctx, scopes, rule="TRC-python-branch-on-traced"):
    """In the listed functions/classes no Python `if`/`while`/conditional expression/`bool()` is driven by a value that is
    definitely a traced array (assigned from a jnp./jax. array call or a score/density/sample) — such code fails under jit/vmap/scan."""
    n_tests = 0
    for dotted in scopes:
        r = ctx.p.lookup(dotted)
        if r is None:
            raise AnalysisError(f"anchor vanished: {dotted}")
        kind, node, mod, owner = r
        fns = [node] if isinstance(node, ast.FunctionDef) else [f for f in ast.walk(node) if isinstance(f, ast.FunctionDef)]
        for fn in fns:
            ctx.fn(dotted + ("." + fn.name if fn is not node else ""))
            tr = traced_names(fn)
            for st in ast.walk(fn):
                tests = []
                if isinstance(st, (ast.If, ast.While, ast.IfExp)):
                    tests.append(st.test)
                if isinstance(st, ast.Assert):
                    continue
                for t in tests:
                    n_tests += 1
                    names = {x.id for x in ast.walk(t) if isinstance(x, ast.Name)}
                    hits = sorted(names & tr)
                    # a traced name only counts when used as a value, not through a static accessor
                    real = []
                    for h in hits:
                        for x in ast.walk(t):
                            if isinstance(x, ast.Name) and x.id == h:
                                par = [p for p in ast.walk(t) if any(c is x for c in ast.iter_child_nodes(p))]
                                p0 = par[0] if par else None
                                static_use = (isinstance(p0, ast.Attribute) and p0.attr in STATIC_ATTRS) or \
                                    (isinstance(p0, ast.Call) and ast.unparse(p0.func) in (STATIC_CALLS | STATIC_FUNCS)) or \
                                    (isinstance(p0, ast.Compare) and all(isinstance(o, (ast.Is, ast.IsNot)) for o in p0.ops))
                                if not static_use:
                                    real.append(h)
                    direct = [c for c in ast.walk(t) if isinstance(c, ast.Call) and ast.unparse(c.func).startswith(("jnp.any", "jnp.all", "jnp.isnan", "jnp.isfinite", "jnp.allclose", "jnp.array_equal"))]
                    if real or direct:
                        ctx.bad(rule, f"{dotted.replace('genjax.', '')}.{fn.name}", f"branch on {ast.unparse(t)[:80]}",
                                f"Python control flow on a traced value `{ast.unparse(t)[:100]}` (from {sorted(set(real)) or [ast.unparse(d.func) for d in direct]}): fails under jit/vmap/scan", ctx.loc(mod, st))
    if not any(r["rule"] == rule and r["status"] == "violation" for r in ctx.records):
        ctx.ok(rule, ", ".join(s.replace("genjax.", "") for s in scopes)[:120], f"{n_tests} branch tests, none driven by a definitely-traced value")


def kind_lint(ctx, modules, rule="KIND-pytree-reduce"):
    """jnp.any/all/sum/where/mean applied directly to a jtu.tree_map result (a pytree, possibly a dict or None)."""
    n = 0
    for mn in modules:
        m = ctx.p.modules.get(mn)
        if m is None:
            raise AnalysisError(f"anchor vanished: module {mn}")
        for c in ast.walk(m.tree):
            if isinstance(c, ast.Call) and ast.unparse(c.func) in ("jnp.any", "jnp.all", "jnp.sum", "jnp.mean", "jnp.max", "jnp.min") and c.args:
                a = c.args[0]
                n += 1
                if isinstance(a, ast.Call) and ast.unparse(a.func) in ("jtu.tree_map", "jax.tree_util.tree_map", "jax.tree.map"):
                    ctx.bad(rule, mn.replace("genjax.", ""), f"{ast.unparse(c.func)}(tree_map(...))",
                            f"array reduction {ast.unparse(c.func)} applied to a pytree at {m.path}:{c.lineno} (raises for dict/None trees)", ctx.loc(m, c))
    if not any(r["rule"] == rule and r["status"] == "violation" for r in ctx.records):
        ctx.ok(rule, ", ".join(x.replace("genjax.", "") for x in modules), f"{n} array reductions, none over a tree_map result")

"""C10 SMC particles are properly weighted (structural clauses, DESIGN §4-C10)."""
from . import lints, infer

EXPLANATION = ("Per-particle closures of init/change/extend/rejuvenate are summarised symbolically (under modular_vmap) and their log-weight "
               "polynomials compared with the proper-weighting forms; collection accessors and the rejuvenation_smc pipeline roles are checked.")

def trc(ctx):
    lints.trc_lint(ctx, ["genjax.inference.smc.init", "genjax.inference.smc.change", "genjax.inference.smc.extend", "genjax.inference.smc.rejuvenate",
                         "genjax.inference.smc.resample", "genjax.inference.smc.rejuvenation_smc", "genjax.inference.smc.ParticleCollection"])


RULES = [trc, infer.particle_collection_helper, infer.smc_init_rule, infer.smc_change_rule, infer.smc_extend_rule, infer.smc_rejuvenate_rule,
         infer.smc_accessors_rule, infer.smc_resample_rule, infer.rejuvenation_smc_rule]
FLOOR = 8

"""C10 SMC particles are properly weighted (structural clauses, DESIGN §4-C10)."""
from . import lints, infer

EXPLANATION = ("Per-particle closures of init/extend/rejuvenate are summarised symbolically (under modular_vmap) and their log-weight "
               "polynomials compared with the proper-weighting forms; collection accessors and the rejuvenation_smc pipeline roles are checked.")

def trc(ctx):
    lints.trc_lint(ctx, ["genjax.inference.smc.init", "genjax.inference.smc.change", "genjax.inference.smc.extend", "genjax.inference.smc.rejuvenate",
                         "genjax.inference.smc.resample", "genjax.inference.smc.rejuvenation_smc", "genjax.inference.smc.ParticleCollection"])


def change_observation(ctx):
    """`change` is not part of C10's statement (init, extend, rejuvenate; resample is C12) and, as written, is not a properly weighted move when the two targets
    differ (it adds the new model's full generate weight without subtracting the old model's density; wave-4 reproducer: log marginal −3.25 vs exact −1.35).  Its
    form is therefore reported as an observation, never as a violation: a rule armed on it would encode the code, not the property."""
    class _Probe:
        def __init__(self, ctx):
            self.ctx, self.msgs = ctx, []
        def __getattr__(self, n):
            return getattr(self.ctx, n)
        def bad(self, rule, construct, key, detail, loc=None):
            self.msgs.append(key)
        def ok(self, *a, **k):
            pass
    pr = _Probe(ctx)
    try:
        infer.smc_change_rule(pr)
        ctx.observe("ALG-smc", "smc.change", "new weight = old weight + generate weight of the new target (as documented; not armed)" if not pr.msgs
                    else f"form differs from the documented one: {pr.msgs[:2]} (not armed)")
    except Exception as e:   # noqa: BLE001 — an observation must never decide the check
        ctx.observe("ALG-smc", "smc.change", f"not summarised ({type(e).__name__}); not armed")


RULES = [trc, infer.particle_collection_helper, infer.smc_init_rule, change_observation, infer.smc_extend_rule, infer.smc_rejuvenate_rule,
         infer.smc_accessors_rule, infer.smc_estimate_rule, infer.smc_resample_rule, infer.rejuvenation_smc_rule]
FLOOR = 8

"""C09 mh, mala, hmc are reversible (structural clauses, DESIGN §4-C09)."""
from . import lints, gfi, infer

EXPLANATION = ("The symbolic return term of each kernel is decomposed into proposal, accept test and select; proposal means, "
               "scales, evaluation points and the log-ratio's signed constituents are compared as polynomials with the MH rule for that proposal.")


def cond_part(ctx):
    gfi.cond_rule(ctx, "regenerate")
    gfi.cond_regenerate_rebased(ctx)



def trc(ctx):
    lints.trc_lint(ctx, ["genjax.inference.mcmc.mh", "genjax.inference.mcmc.mala", "genjax.inference.mcmc.hmc", "genjax.inference.mcmc._create_log_density_wrt_selected"])


RULES = [trc, infer.mh_rule, infer.mala_rule, infer.hmc_rule, infer.log_density_closure, infer.mala_noise_shape, infer.hmc_momentum_shape, infer.scalar_reduction_rule, cond_part]
FLOOR = 7

"""E2 symbolic value graph: forward abstract interpretation of one function body into terms.

Terms are nested tuples (hashable):
  ('const', v) ('param', n) ('name', dotted) ('attr', t, f) ('idx', t, i) ('rest', t, i)
  ('call', fn, (args..), ((kw, t)..))   args may contain ('star', t); kw None == **t
  ('tuple', (..)) ('list', (..)) ('dict', ((k, v)..)) ('set', (..))
  ('binop', op, a, b) ('unop', op, a) ('cmp', op, a, b) ('boolop', op, (..)) ('ifexp', c, a, b)
  ('closure', cid) ('slice', lo, hi, st) ('raise', t) ('noret',) ('undef', n) ('top', why)
  ('iter', loopid, t)  element of an iterable   ('loopcur', loopid, n) / ('loopres', loopid, n, init, step)
  ('scan', sid) ('scan_final', sid) ('scan_carry', sid) ('elem', sid, xs) ('stack', sid, t)
  ('lanes', vid, t) ('lane', vid, arg, axis)  ('treemap', tid, t) ('leaf', tid, tree)
  ('comp', kind, elt, ((target-iter)..))  ('fstr',) ('lambda-param', cid, n)
"""
from __future__ import annotations

import ast
import itertools

from .model import AnalysisError, Program

NORET = ("noret",)
NONE = ("const", None)


def C(v):
    return ("const", v)


def is_const(t, v=...):
    return isinstance(t, tuple) and t and t[0] == "const" and (v is ... or (t[1] is v if v is None or isinstance(v, bool) else t[1] == v))


def has_noret(t):
    if t == NORET:
        return True
    if isinstance(t, tuple) and t and t[0] == "ifexp":
        return has_noret(t[2]) or has_noret(t[3])
    return False


def fill(outer, inner):
    """Substitute the not-yet-returned holes of `outer` with `inner`."""
    if outer is None:
        return inner
    if outer == NORET:
        return inner
    if isinstance(outer, tuple) and outer and outer[0] == "ifexp":
        return ("ifexp", outer[1], fill(outer[2], inner), fill(outer[3], inner))
    return outer


def strip_loopexit(r):
    """continue/break end the loop body like a return, but are not returns of the function."""
    if r is None:
        return None
    if isinstance(r, tuple) and r and r[0] == "loopexit":
        return None
    if isinstance(r, tuple) and r and r[0] == "ifexp":
        a, b = strip_loopexit(r[2]), strip_loopexit(r[3])
        if a is None and b is None:
            return None
        return ("ifexp", r[1], a if a is not None else NORET, b if b is not None else NORET)
    return None if r == NORET else r


def subterms(t):
    """Pre-order iterator over all sub-terms (tuples whose head is a string)."""
    stack = [t]
    while stack:
        x = stack.pop()
        if isinstance(x, tuple):
            if x and isinstance(x[0], str):
                yield x
            for y in x:
                if isinstance(y, tuple):
                    stack.append(y)


def subst(t, f):
    """Bottom-up rewrite: f(term) -> replacement or None."""
    if not isinstance(t, tuple):
        return t
    new = tuple(subst(x, f) if isinstance(x, tuple) else x for x in t)
    if new and isinstance(new[0], str):
        r = f(new)
        if r is not None:
            return r
    return new


BINOPS = {ast.Add: "+", ast.Sub: "-", ast.Mult: "*", ast.Div: "/", ast.FloorDiv: "//", ast.Mod: "%",
          ast.Pow: "**", ast.MatMult: "@", ast.BitOr: "|", ast.BitAnd: "&", ast.BitXor: "^",
          ast.LShift: "<<", ast.RShift: ">>"}
UNOPS = {ast.USub: "-", ast.UAdd: "+", ast.Not: "not", ast.Invert: "~"}
CMPOPS = {ast.Eq: "==", ast.NotEq: "!=", ast.Lt: "<", ast.LtE: "<=", ast.Gt: ">", ast.GtE: ">=",
          ast.Is: "is", ast.IsNot: "is not", ast.In: "in", ast.NotIn: "not in"}

BUILTINS = {"len", "range", "tuple", "list", "dict", "set", "isinstance", "map", "zip", "enumerate", "all", "any",
            "bool", "int", "float", "str", "hasattr", "getattr", "callable", "reversed", "sum", "min", "max", "abs",
            "sorted", "iter", "next", "type", "print", "super", "Exception", "ValueError", "TypeError",
            "NotImplementedError", "KeyError", "IndexError", "AttributeError", "OSError", "staticmethod", "property",
            "object", "repr", "id", "frozenset", "slice", "vars", "setattr", "issubclass", "filter", "divmod", "round"}

SCAN_NAMES = {"jax.lax.scan"}
VMAP_NAMES = {"genjax.pjax.modular_vmap", "jax.vmap"}
TREEMAP_NAMES = {"jax.tree_util.tree_map", "jax.tree.map"}


OPAQUE_DEFAULT = {
    "genjax.core._check_address_collision", "genjax.core._check_address_collision_visited", "genjax.core._get_generative_function_info",
    "genjax.core._get_current_call_location", "genjax.inference.mcmc._create_log_density_wrt_selected",
    "genjax.inference.smc._create_particle_collection",
    "genjax.adev._zero_tangent_like", "genjax.adev._discrete_zero_tangent", "genjax.adev._first_leaf", "genjax.adev._flip_lane_rb_estimate",
    "genjax.adev._canonicalize_tangent_for_primitive_jvp", "genjax.adev._instantiate_zero_tangents", "genjax.adev._is_ad_zero", "genjax.adev._is_float0_tangent",
    "genjax.state._nested_dict_set", "genjax.state._nested_dict_get", "genjax.state._namespace_push", "genjax.state._namespace_pop",
    "genjax.pjax._capture_binding_context", "genjax._compat.ensure_jax_tfp_compat",
}
OPAQUE_SELF_METHODS = {"_compute_outer_batch_dim", "_handle_modular_vmap", "_make_flat", "_format_message", "_format_full_message"}


class Closure:
    def __init__(self, cid, node, env, frame, qual):
        self.cid, self.node, self.env, self.frame, self.qual = cid, node, env, frame, qual


class Frame:
    def __init__(self, ev, module, qual, cls=None, parent=None, selfterm=None):
        self.ev = ev
        self.module = module
        self.qual = qual
        self.cls = cls
        self.parent = parent
        self.env = {}
        self.guards = ()
        self.events = parent.events if parent is not None else []
        self.depth = (parent.depth + 1) if parent is not None else 0
        self.globals_decl = set()

    def lookup(self, name):
        fr = self
        while fr is not None:
            if name in fr.env:
                return fr.env[name]
            fr = fr.parent
        return None


class Summary:
    def __init__(self, qual, node, module, ret, frame, params):
        self.qual, self.node, self.module, self.ret, self.frame, self.params = qual, node, module, ret, frame, params
        self.events = frame.events
        self.env = frame.env

    def calls(self):
        return [e for e in self.events if e[1] == "call"]


class Evaluator:
    def __init__(self, program: Program, inline=(), max_inline_depth=3, inline_methods_on_ctor=True, self_inline=()):
        self.p = program
        self.closures = {}
        self.scans = {}
        self.vmaps = {}
        self.treemaps = {}
        self.states = {}
        self._ids = itertools.count(1)
        self.inline = set(inline)
        self.max_inline_depth = max_inline_depth
        self.inline_methods_on_ctor = inline_methods_on_ctor
        self.self_inline = set(self_inline)
        self.known_len_fields = {}  # attribute name -> static length (verified separately by a rule)
        self.canon_kw_functions = set()  # dotted names of repo functions whose keyword calls are rewritten positionally
        self.keep_kw_functions = {"genjax.pjax.sample_binder", "genjax.pjax.log_density_binder", "genjax.pjax.wrap_sampler", "genjax.pjax.wrap_logpdf",
                                  "genjax.pjax.initial_style_bind", "genjax.pjax.modular_vmap", "genjax.core.distribution", "genjax.core.tfp_distribution"}
        self.param_class = {}  # parameter name -> dotted repo class whose concrete methods are inlined when called on that parameter
        # private helpers (leading underscore) of the repo are inlined by default, so that extracting a helper does not
        # change the symbolic value; the ones rules treat as atoms are listed here
        self.auto_inline_private = True
        self.opaque = set(OPAQUE_DEFAULT)
        self._inlining = []
        self.unresolved = set()

    # ------------------------------------------------------------------ entry points
    def eval_dotted(self, dotted, bindings=None, self_term=None):
        kind, node, mod, owner = self.p.get_function(dotted)
        cls = owner.name if owner is not None else None
        return self.eval_funcnode(node, mod, dotted, cls=cls, bindings=bindings, self_term=self_term)

    def eval_funcnode(self, node, mod, qual, cls=None, bindings=None, parent=None, self_term=None, args=None, kwargs=None):
        fr = Frame(self, mod, qual, cls=cls, parent=parent)
        params = self.bind_params(node, fr, bindings, args, kwargs, self_term)
        if isinstance(node, ast.Lambda):
            ret = self.expr(node.body, fr)
        else:
            ret = self.block(node.body, fr)
            ret = fill(ret, NONE) if ret is not None else NONE
        return Summary(qual, node, mod, ret, fr, params)

    def bind_params(self, node, fr, bindings, args, kwargs, self_term):
        a = node.args
        names = [x.arg for x in a.posonlyargs + a.args]
        params = list(names)
        defaults = [None] * (len(names) - len(a.defaults)) + list(a.defaults)
        pos = list(args) if args is not None else None
        kw = dict((k, v) for k, v in (kwargs or ()) if k is not None)
        starkw = [v for k, v in (kwargs or ()) if k is None]
        bindings = bindings or {}
        i = 0
        consumed_star = False
        for n, d in zip(names, defaults):
            if n in bindings:
                fr.env[n] = bindings[n]
            elif pos is not None:
                if i < len(pos) and not (isinstance(pos[i], tuple) and pos[i][0] == "star"):
                    fr.env[n] = pos[i]
                    i += 1
                elif i < len(pos) and pos[i][0] == "star":
                    # positional drawn from a starred sequence: symbolic element
                    st = pos[i][1]
                    k = sum(1 for _ in [0])  # placeholder to keep simple
                    cnt = fr.env.get(("__starcount__", i), 0)
                    fr.env[("__starcount__", i)] = cnt + 1
                    fr.env[n] = self.index(st, C(cnt))
                    consumed_star = True
                elif n in kw:
                    fr.env[n] = kw.pop(n)
                elif d is not None:
                    fr.env[n] = self.expr(d, fr.parent or fr)
                elif starkw:
                    fr.env[n] = ("idx", starkw[0], C(n))
                else:
                    fr.env[n] = ("undef", n)
            elif n == "self" and self_term is not None:
                fr.env[n] = self_term
            else:
                fr.env[n] = ("param", n)
        if a.vararg:
            params.append("*" + a.vararg.arg)
            if a.vararg.arg in bindings:
                fr.env[a.vararg.arg] = bindings[a.vararg.arg]
            elif pos is not None:
                rest = pos[i:]
                if rest and all(not (isinstance(r, tuple) and r[0] == "star") for r in rest):
                    fr.env[a.vararg.arg] = ("tuple", tuple(rest))
                elif len(rest) == 1 and rest[0][0] == "star":
                    cnt = fr.env.get(("__starcount__", i), 0)
                    fr.env[a.vararg.arg] = rest[0][1] if cnt == 0 else ("rest", rest[0][1], cnt)
                elif not rest:
                    fr.env[a.vararg.arg] = ("tuple", ())
                else:
                    fr.env[a.vararg.arg] = ("tuple", tuple(rest))
            else:
                fr.env[a.vararg.arg] = ("param", a.vararg.arg)
        for n, d in zip([x.arg for x in a.kwonlyargs], a.kw_defaults):
            params.append(n)
            if n in bindings:
                fr.env[n] = bindings[n]
            elif pos is not None or kwargs is not None:
                if n in kw:
                    fr.env[n] = kw.pop(n)
                elif d is not None:
                    fr.env[n] = self.expr(d, fr.parent or fr)
                else:
                    fr.env[n] = ("undef", n)
            else:
                fr.env[n] = ("param", n)
        if a.kwarg:
            params.append("**" + a.kwarg.arg)
            if a.kwarg.arg in bindings:
                fr.env[a.kwarg.arg] = bindings[a.kwarg.arg]
            elif pos is not None or kwargs is not None:
                items = tuple((C(k), v) for k, v in kw.items())
                if starkw and not items:
                    fr.env[a.kwarg.arg] = starkw[0]
                elif starkw:
                    fr.env[a.kwarg.arg] = ("dictmerge", ("dict", items), starkw[0])
                else:
                    fr.env[a.kwarg.arg] = ("dict", items)
            else:
                fr.env[a.kwarg.arg] = ("param", a.kwarg.arg)
        for k in [k for k in fr.env if isinstance(k, tuple)]:
            del fr.env[k]
        return params

    # ------------------------------------------------------------------ statements
    def block(self, stmts, fr):
        ret = None
        for st in stmts:
            r = self.stmt(st, fr)
            if r is None:
                continue
            ret = fill(ret, r)
            if not has_noret(ret):
                return ret
        return ret

    def event(self, fr, kind, payload, node):
        fr.events.append((fr.guards, kind, payload, getattr(node, "lineno", 0), fr.qual))

    def stmt(self, st, fr):
        m = getattr(self, "s_" + type(st).__name__, None)
        if m is None:
            return None
        return m(st, fr)

    def s_Expr(self, st, fr):
        v = self.expr(st.value, fr)
        self.event(fr, "expr", v, st)
        return None

    def s_Pass(self, st, fr):
        return None

    # ------------------------------------------------------------------ match statements: desugared into the equivalent if/elif chain
    def s_Match(self, st, fr):
        tmp = "__match_subject_%d" % st.lineno
        stmts = [ast.Assign(targets=[ast.Name(id=tmp, ctx=ast.Store())], value=st.subject)]

        def subj():
            return ast.Name(id=tmp, ctx=ast.Load())

        def conj(tests):
            tests = [t for t in tests if not (isinstance(t, ast.Constant) and t.value is True)]
            if not tests:
                return ast.Constant(value=True)
            return tests[0] if len(tests) == 1 else ast.BoolOp(op=ast.And(), values=tests)

        def pat(p, sub):
            """(test expression, [(capture name, value expression)]) for pattern p matched against expression sub."""
            if isinstance(p, ast.MatchValue):
                return ast.Compare(left=sub, ops=[ast.Eq()], comparators=[p.value]), []
            if isinstance(p, ast.MatchSingleton):
                return ast.Compare(left=sub, ops=[ast.Is()], comparators=[ast.Constant(value=p.value)]), []
            if isinstance(p, ast.MatchAs):
                if p.pattern is None:
                    return ast.Constant(value=True), ([(p.name, sub)] if p.name else [])
                t, caps = pat(p.pattern, sub)
                return t, caps + ([(p.name, sub)] if p.name else [])
            if isinstance(p, ast.MatchClass) and not p.patterns and not p.kwd_patterns:
                return ast.Call(func=ast.Name(id="isinstance", ctx=ast.Load()), args=[sub, p.cls], keywords=[]), []
            if isinstance(p, ast.MatchOr):
                parts = [pat(q, sub) for q in p.patterns]
                if any(c for _, c in parts):
                    raise NotImplementedError("captures inside an or-pattern")
                return ast.BoolOp(op=ast.Or(), values=[t for t, _ in parts]), []
            if isinstance(p, ast.MatchSequence) and not any(isinstance(q, ast.MatchStar) for q in p.patterns):
                n = len(p.patterns)
                tests = [ast.Call(func=ast.Name(id="isinstance", ctx=ast.Load()), args=[sub, ast.Tuple(elts=[ast.Name(id="list", ctx=ast.Load()), ast.Name(id="tuple", ctx=ast.Load())], ctx=ast.Load())], keywords=[]),
                         ast.Compare(left=ast.Call(func=ast.Name(id="len", ctx=ast.Load()), args=[sub], keywords=[]), ops=[ast.Eq()], comparators=[ast.Constant(value=n)])]
                caps = []
                for i, q in enumerate(p.patterns):
                    t, c = pat(q, ast.Subscript(value=sub, slice=ast.Constant(value=i), ctx=ast.Load()))
                    tests.append(t)
                    caps += c
                return conj(tests), caps
            raise NotImplementedError(f"match pattern {type(p).__name__}")
        chain = None
        tail = None
        cases = []
        for case in st.cases:
            # `case P1 | P2: body` with captures is `case P1: body` followed by `case P2: body` (alternatives are tried in order)
            if isinstance(case.pattern, ast.MatchOr):
                for alt in case.pattern.patterns:
                    cases.append(ast.match_case(pattern=alt, guard=case.guard, body=case.body))
            else:
                cases.append(case)
        for case in cases:
            t, caps = pat(case.pattern, subj())
            body = [ast.Assign(targets=[ast.Name(id=n, ctx=ast.Store())], value=v) for n, v in caps] + list(case.body)
            if case.guard is not None:
                # captures must be visible to the guard: bind them first in a conditional-free way is not possible; guards on captures are rare
                t = conj([t, case.guard]) if not caps else t
            if isinstance(t, ast.Constant) and t.value is True and case.guard is None:
                # irrefutable case: the else branch of the chain
                if tail is None:
                    chain = body if chain is None else chain
                    if chain is body:
                        break
                else:
                    tail.orelse = body
                break
            node = ast.If(test=t, body=body, orelse=[])
            if tail is None:
                chain = [node]
            else:
                tail.orelse = [node]
            tail = node
        for n_ in stmts + (chain or []):
            ast.fix_missing_locations(ast.copy_location(n_, st))
        for n_ in stmts + (chain or []):
            for sub_ in ast.walk(n_):
                if not hasattr(sub_, "lineno"):
                    ast.copy_location(sub_, st)
        return self.block(stmts + (chain or []), fr)

    def s_Import(self, st, fr):
        for a in st.names:
            fr.env[a.asname or a.name.split(".")[0]] = ("name", a.name if a.asname else a.name.split(".")[0])

    def s_ImportFrom(self, st, fr):
        for a in st.names:
            fr.env[a.asname or a.name] = ("name", self.p.canonical((st.module or "") + "." + a.name))

    def s_Global(self, st, fr):
        fr.globals_decl.update(st.names)

    s_Nonlocal = s_Global

    def s_Return(self, st, fr):
        v = self.expr(st.value, fr) if st.value is not None else NONE
        self.event(fr, "return", v, st)
        return v

    def s_Raise(self, st, fr):
        v = self.expr(st.exc, fr) if st.exc is not None else ("top", "reraise")
        self.event(fr, "raise", v, st)
        return ("raise", v)

    def s_Assert(self, st, fr):
        v = self.expr(st.test, fr)
        self.event(fr, "assert", v, st)
        return None

    def s_Delete(self, st, fr):
        for t in st.targets:
            if isinstance(t, ast.Name):
                fr.env[t.id] = ("undef", t.id)
            else:
                self.event(fr, "delete", self.expr(t, fr), st)
        return None

    def s_FunctionDef(self, st, fr):
        cid = next(self._ids)
        self.closures[cid] = Closure(cid, st, dict(fr.env), fr, fr.qual + "." + st.name)
        t = ("closure", cid)
        # decorators applied to local functions are recorded as calls wrapping the closure
        for d in reversed(st.decorator_list):
            dt = self.expr(d, fr)
            t = self.call_term(dt, (t,), (), fr, st)
        fr.env[st.name] = t
        # the function can refer to itself whatever happens to the defining frame's environment afterwards (a def inside a branch)
        self.closures[cid].env.setdefault(st.name, t)
        return None

    def s_ClassDef(self, st, fr):
        fr.env[st.name] = ("name", fr.qual + "." + st.name)
        return None

    def assign_target(self, tgt, val, fr, st):
        if isinstance(tgt, ast.Name):
            if any(isinstance(g[0], tuple) and g[0] and g[0][0] == "loop" for g in fr.guards):
                self.event(fr, "assign", (tgt.id, val), st)
            fr.env[tgt.id] = val
        elif isinstance(tgt, (ast.Tuple, ast.List)):
            n = len(tgt.elts)
            star = [i for i, e in enumerate(tgt.elts) if isinstance(e, ast.Starred)]
            items = self.known_items(val)
            if not star:
                for i, e in enumerate(tgt.elts):
                    if items is not None and len(items) == n:
                        self.assign_target(e, items[i], fr, st)
                    else:
                        self.assign_target(e, self.index(val, C(i)), fr, st)
            else:
                s = star[0]
                after = n - s - 1
                for i, e in enumerate(tgt.elts):
                    if i < s:
                        v = items[i] if items is not None else self.index(val, C(i))
                        self.assign_target(e, v, fr, st)
                    elif i == s:
                        if items is not None:
                            v = ("list", tuple(items[s: len(items) - after]))
                        elif after == 0:
                            v = ("rest", val, s)
                        else:
                            v = self.index(val, ("slice", C(s) if s else C(None), C(-after), C(None)))
                        self.assign_target(e.value, v, fr, st)
                    else:
                        k = i - n
                        v = items[k] if items is not None else self.index(val, C(k))
                        self.assign_target(e, v, fr, st)
        elif isinstance(tgt, ast.Attribute):
            base = self.expr(tgt.value, fr)
            self.event(fr, "store", (("attr", base, tgt.attr), val, tgt.value.id if isinstance(tgt.value, ast.Name) else None), st)
            fr.env[("attr", base, tgt.attr)] = val
        elif isinstance(tgt, ast.Subscript):
            base = self.expr(tgt.value, fr)
            idx = self.expr(tgt.slice, fr)
            self.event(fr, "store", (("idx", base, idx), val, tgt.value.id if isinstance(tgt.value, ast.Name) else None), st)
            if isinstance(tgt.value, ast.Name) and isinstance(fr.env.get(tgt.value.id), tuple) and fr.env[tgt.value.id][0] == "dict" and idx[0] == "const":
                d = fr.env[tgt.value.id]
                items = tuple((k, v) for k, v in d[1] if k != idx) + ((idx, val),)
                fr.env[tgt.value.id] = ("dict", items)
            else:
                fr.env[("idx", base, idx)] = val
        elif isinstance(tgt, ast.Starred):
            self.assign_target(tgt.value, val, fr, st)

    def const_table(self, t):
        """The dictionary literal a module-level constant (UPPER_CASE name, assigned once with a dict display) denotes, as a term."""
        if not (isinstance(t, tuple) and t and t[0] == "name" and t[1].startswith("genjax.")):
            return None
        short_ = t[1].rsplit(".", 1)[-1]
        if not short_.lstrip("_").isupper():
            return None
        cache = self.__dict__.setdefault("_const_tables", {})
        if t[1] in cache:
            return cache[t[1]]
        cache[t[1]] = None
        try:
            r = self.p.lookup(t[1])
        except Exception:
            r = None
        if r is not None and r[0] == "value" and isinstance(r[1], ast.Dict):
            fr = Frame(self, r[2], r[2].name + ".<module>")
            try:
                v = self.expr(r[1], fr)
            except Exception:
                v = None
            if v is not None and v[0] == "dict":
                cache[t[1]] = v
        return cache[t[1]]

    def namedtuple_items(self, val):
        """Fields, in order, of a call that constructs a repo-local typing.NamedTuple: the value *is* that tuple."""
        if not (isinstance(val, tuple) and val and val[0] == "call" and val[1][0] == "name"):
            return None
        info = self.ctor_info(val)
        if info is None:
            return None
        _, fields, cnode, _ = info
        if isinstance(cnode, ast.Call):   # functional collections.namedtuple(...)
            out = [self.ctor_field(val, f) for f in fields]
            return None if any(x is None for x in out) else out
        bases = []
        for b in cnode.bases:
            try:
                bases.append(ast.unparse(b).rsplit(".", 1)[-1])
            except Exception:
                pass
        if "NamedTuple" not in bases:
            return None
        out = [self.ctor_field(val, f) for f in fields]
        return None if any(x is None for x in out) else out

    def known_items(self, val):
        if isinstance(val, tuple) and val and val[0] == "attr" and val[2] in self.known_len_fields:
            return [self.index(val, C(i)) for i in range(self.known_len_fields[val[2]])]
        nt = self.namedtuple_items(val)
        if nt is not None:
            return nt
        if isinstance(val, tuple) and val and val[0] == "ifexp" and val[2] != NORET and val[3] != NORET and (is_const(val[2], None) != is_const(val[3], None)):
            return self.known_items(val[3] if is_const(val[2], None) else val[2])   # unpacking None raises
        # zip / enumerate / reversed over sequences of statically known (equal) length
        if isinstance(val, tuple) and val and val[0] == "call" and val[1][0] == "name" and not val[3]:
            nm = val[1][1]
            if nm == "builtins.zip" and val[2] and not any(a[0] == "star" for a in val[2]):
                cols = [self.known_items(a) for a in val[2]]
                if all(c is not None for c in cols) and len({len(c) for c in cols}) == 1:
                    return [("tuple", tuple(c[i] for c in cols)) for i in range(len(cols[0]))]
            if nm == "builtins.enumerate" and len(val[2]) == 1:
                c = self.known_items(val[2][0])
                if c is not None:
                    return [("tuple", (C(i), x)) for i, x in enumerate(c)]
            if nm == "builtins.reversed" and len(val[2]) == 1:
                c = self.known_items(val[2][0])
                if c is not None:
                    return list(reversed(c))
        if isinstance(val, tuple) and val and val[0] in ("tuple", "list"):
            if any(isinstance(x, tuple) and x and x[0] == "star" for x in val[1]):
                return None
            return list(val[1])
        return None

    def s_Assign(self, st, fr):
        v = self.expr(st.value, fr)
        for t in st.targets:
            self.assign_target(t, v, fr, st)
        return None

    def s_AnnAssign(self, st, fr):
        if st.value is not None:
            self.assign_target(st.target, self.expr(st.value, fr), fr, st)
        return None

    def s_AugAssign(self, st, fr):
        cur = self.expr(st.target, fr)
        v = self.expr(st.value, fr)
        new = ("binop", BINOPS.get(type(st.op), "?"), cur, v)
        self.assign_target(st.target, new, fr, st)
        return None

    def s_If(self, st, fr):
        c = self.expr(st.test, fr)
        body, orelse = st.body, st.orelse
        # `if not c: A else: B` is `if c: B else: A`: conditions are recorded without an outer negation
        while c[0] == "unop" and c[1] == "not":
            c, body, orelse = c[2], orelse, body
        sv = self.static_truth(c)
        if sv is True:
            return self.block(body, fr)
        if sv is False:
            return self.block(orelse, fr)
        base_env, base_guards = fr.env, fr.guards
        fr.env = dict(base_env)
        fr.guards = base_guards + ((c, True),)
        ra = self.block(body, fr)
        env_a = fr.env
        fr.env = dict(base_env)
        fr.guards = base_guards + ((c, False),)
        rb = self.block(orelse, fr)
        env_b = fr.env
        fr.guards = base_guards
        a_falls = ra is None or has_noret(ra)
        b_falls = rb is None or has_noret(rb)
        if a_falls and b_falls:
            fr.env = self.merge_env(c, env_a, env_b)
        elif a_falls:
            fr.env = env_a
            fr.guards = base_guards + ((c, True),)   # the else-branch left: the rest runs under c
        elif b_falls:
            fr.env = env_b
            fr.guards = base_guards + ((c, False),)  # the then-branch left: the rest runs under not c
        else:
            fr.env = base_env
        if ra is None and rb is None:
            return None
        return ("ifexp", c, ra if ra is not None else NORET, rb if rb is not None else NORET)

    def merge_env(self, c, a, b):
        out = {}
        for k in set(a) | set(b):
            va, vb = a.get(k), b.get(k)
            if va == vb:
                out[k] = va
            else:
                # a term-keyed entry (remembered attribute/subscript store) missing on one side: that side still reads the slot itself
                miss = k if isinstance(k, tuple) else ("undef", str(k))
                out[k] = ("ifexp", c, va if va is not None else miss, vb if vb is not None else miss)
        return out

    def static_truth(self, c, fr=None):
        if fr is not None and c[0] == "cmp" and c[1] in ("is", "is not") and is_const(c[3], None) and c[2][0] == "attr" \
                and c[2][1] == ("param", "self") and fr.cls:
            # a method of the enclosing class looked up on self is never None
            cnode = fr.module.defs.get(fr.cls)
            if isinstance(cnode, ast.ClassDef) and isinstance(self.p.class_member(cnode, c[2][2], fr.module), ast.FunctionDef):
                return c[1] == "is not"
        if c[0] == "const":
            try:
                return bool(c[1])
            except Exception:
                return None
        if c[0] in ("tuple", "list", "dict") and not any(isinstance(x, tuple) and x[0] == "star" for x in c[1]):
            return len(c[1]) > 0
        if c[0] == "unop" and c[1] == "not":
            r = self.static_truth(c[2])
            return None if r is None else (not r)
        if c[0] == "cmp" and c[1] in ("is", "is not") and c[2][0] == "const" and c[3][0] == "const":
            r = c[2][1] is c[3][1]
            return r if c[1] == "is" else not r
        if c[0] == "cmp" and c[1] in ("is", "is not") and is_const(c[3], None) and c[2][0] in ("tuple", "list", "dict", "closure", "call", "binop", "lanes", "stack"):
            return c[1] == "is not"
        if c[0] == "cmp" and c[1] in ("is", "is not") and is_const(c[3], None) and c[2][0] == "name":
            # a reference to a function or class (repo-local, or an external class such as tfd.Normal) is never None
            nm = c[2][1]
            known = False
            if nm.startswith("genjax."):
                r = self.p.lookup(nm)
                known = (r is not None and r[0] in ("func", "class", "method")) or (r is None and ".tfd." in nm and nm.rsplit(".", 1)[-1][:1].isupper())
            elif not nm.startswith("?."):
                known = nm.rsplit(".", 1)[-1][:1].isupper()
            if known:
                return c[1] == "is not"
        return None

    def assigned_names(self, stmts):
        out = set()
        for st in stmts:
            for n in ast.walk(st):
                if isinstance(n, ast.Name) and isinstance(n.ctx, ast.Store):
                    out.add(n.id)
                elif isinstance(n, (ast.FunctionDef, ast.Lambda)) and n is not st:
                    pass
        return out

    def s_For(self, st, fr):
        # `xs = []` followed by `for t in seq: xs.append(e)` is the list comprehension `[e for t in seq]`
        if len(st.body) == 1 and not st.orelse and isinstance(st.body[0], ast.Expr) and isinstance(st.body[0].value, ast.Call):
            c_ = st.body[0].value
            if isinstance(c_.func, ast.Attribute) and c_.func.attr == "append" and isinstance(c_.func.value, ast.Name) and len(c_.args) == 1 and not c_.keywords \
                    and fr.env.get(c_.func.value.id) == ("list", ()) \
                    and not any(isinstance(n_, ast.Name) and n_.id == c_.func.value.id for n_ in ast.walk(c_.args[0])):
                comp_ = ast.ListComp(elt=c_.args[0], generators=[ast.comprehension(target=st.target, iter=st.iter, ifs=[], is_async=0)])
                ast.copy_location(comp_, st)
                ast.fix_missing_locations(comp_)
                fr.env[c_.func.value.id] = self.expr(comp_, fr)
                return None
        it = self.expr(st.iter, fr)
        lid = next(self._ids)
        items = None
        # literal iteration over a tuple/list of known items: unroll (bounded)
        lit = self.known_items(it)
        carried = sorted(n for n in self.assigned_names(st.body) if fr.lookup(n) is not None)
        inits = {n: fr.lookup(n) for n in carried}
        for n in carried:
            fr.env[n] = ("loopcur", lid, n)
        self.assign_target(st.target, ("iter", lid, it), fr, st)
        base_guards = fr.guards
        fr.guards = base_guards + ((("loop", lid, it), True),)
        self.event(fr, "loop", (lid, it), st)
        r = strip_loopexit(self.block(st.body, fr))
        fr.guards = base_guards
        for n in carried:
            step = fr.env.get(n)
            if step == ("loopcur", lid, n):
                fr.env[n] = inits[n]
            else:
                fr.env[n] = ("loopres", lid, n, inits[n], step)
        self.event(fr, "endloop", (lid,), st)
        if st.orelse:
            self.block(st.orelse, fr)
        if r is not None:
            # a return inside the loop: partial
            return ("ifexp", ("loopbreak", lid), fill(r, NORET), NORET)
        return None

    def s_While(self, st, fr):
        lid = next(self._ids)
        carried = sorted(n for n in self.assigned_names(st.body) if fr.lookup(n) is not None)
        inits = {n: fr.lookup(n) for n in carried}
        for n in carried:
            fr.env[n] = ("loopcur", lid, n)
        c = self.expr(st.test, fr)
        base_guards = fr.guards
        fr.guards = base_guards + ((("loop", lid, c), True),)
        r = strip_loopexit(self.block(st.body, fr))
        fr.guards = base_guards
        for n in carried:
            step = fr.env.get(n)
            fr.env[n] = inits[n] if step == ("loopcur", lid, n) else ("loopres", lid, n, inits[n], step)
        if r is not None:
            return ("ifexp", ("loopbreak", lid), fill(r, NORET), NORET)
        return None

    def s_Break(self, st, fr):
        return ("loopexit", "break")

    def s_Continue(self, st, fr):
        return ("loopexit", "continue")

    def _contextmanager_body(self, st, fr):
        """`with G(args): body` where G is a repo generator function decorated with contextlib.contextmanager: G's body with its single
        top-level (or try-level) `yield` statement replaced by the with-body, G's locals renamed apart and its parameters bound to the
        call's arguments.  None if the shape is not recognised."""
        import copy
        if len(st.items) != 1 or st.items[0].optional_vars is not None or not isinstance(st.items[0].context_expr, ast.Call):
            return None
        c = st.items[0].context_expr
        if not isinstance(c.func, ast.Name) or c.keywords and any(k.arg is None for k in c.keywords):
            return None
        tgt = self.p.resolve_name(fr.module.name, c.func.id)
        look = self.p.lookup(tgt) if tgt else None
        if look is None or look[0] != "func":
            return None
        g = look[1]
        decs = {(d.id if isinstance(d, ast.Name) else getattr(d, "attr", "")) for d in g.decorator_list}
        if "contextmanager" not in decs or g.args.vararg or g.args.kwarg or g.args.kwonlyargs:
            return None
        yields = [n for n in ast.walk(g) if isinstance(n, (ast.Yield, ast.YieldFrom))]
        if len(yields) != 1 or isinstance(yields[0], ast.YieldFrom):
            return None
        body = copy.deepcopy(g.body)
        params = [a.arg for a in g.args.posonlyargs + g.args.args]
        local = set(params) | {n.id for b in body for n in ast.walk(b) if isinstance(n, ast.Name) and isinstance(n.ctx, ast.Store)}
        ren = {n_: f"__cm{st.lineno}_{n_}" for n_ in local}
        for b in body:
            for n in ast.walk(b):
                if isinstance(n, ast.Name) and n.id in ren:
                    n.id = ren[n.id]

        def splice(stmts):
            out, hit = [], False
            for x in stmts:
                if isinstance(x, ast.Expr) and isinstance(x.value, ast.Yield):
                    out.extend(st.body)
                    hit = True
                elif isinstance(x, ast.Try) and not hit:
                    nb, h2 = splice(x.body)
                    if h2:
                        x.body = nb
                        hit = True
                    out.append(x)
                else:
                    out.append(x)
            return out, hit
        new_body, hit = splice(body)
        if not hit:
            return None
        # bind the parameters
        args = [self.expr(a, fr) for a in c.args]
        kws = {k.arg: self.expr(k.value, fr) for k in c.keywords}
        defaults = dict(zip(params[len(params) - len(g.args.defaults):], g.args.defaults))
        for i, p_ in enumerate(params):
            if i < len(args):
                fr.env[ren[p_]] = args[i]
            elif p_ in kws:
                fr.env[ren[p_]] = kws[p_]
            elif p_ in defaults:
                fr.env[ren[p_]] = self.expr(defaults[p_], fr)
            else:
                return None
        return new_body

    def s_With(self, st, fr):
        cm = self._contextmanager_body(st, fr)
        if cm is not None:
            return self.block(cm, fr)
        for item in st.items:
            v = self.expr(item.context_expr, fr)
            self.event(fr, "with", v, st)
            if item.optional_vars is not None:
                self.assign_target(item.optional_vars, ("call", ("attr", v, "__enter__"), (), ()), fr, st)
        return self.block(st.body, fr)

    def s_Try(self, st, fr):
        self.event(fr, "try", None, st)
        base_guards = fr.guards
        r = self.block(st.body, fr)
        env_after = fr.env
        for h in st.handlers:
            fr.env = dict(env_after)
            fr.guards = base_guards + ((("except", ast.unparse(h.type) if h.type else "*"), True),)
            if h.name:
                fr.env[h.name] = ("top", "exception")
            self.block(h.body, fr)
        fr.env = env_after
        fr.guards = base_guards
        if st.orelse:
            r2 = self.block(st.orelse, fr)
            r = fill(r, r2) if r is not None else r2
        if st.finalbody:
            fr.guards = base_guards + ((("finally",), True),)
            self.event(fr, "finally", None, st)
            self.block(st.finalbody, fr)
            fr.guards = base_guards
        return r

    # ------------------------------------------------------------------ expressions
    def expr(self, e, fr):
        m = getattr(self, "e_" + type(e).__name__, None)
        if m is None:
            return ("top", type(e).__name__)
        return m(e, fr)

    def e_Constant(self, e, fr):
        return C(e.value)

    def e_Name(self, e, fr):
        v = fr.lookup(e.id)
        if v is not None:
            return v
        # closures referenced before definition in an enclosing (already finished) frame are in closure env
        tgt = self.p.resolve_name(fr.module.name, e.id)
        if tgt is not None:
            # a private module-level constant (a string label, or a tuple/set of names and constants) is its literal value
            last = tgt.rsplit(".", 1)[-1]
            if last.startswith("_") and not last.startswith("__") and tgt.startswith("genjax.") and tgt not in getattr(self, "_const_stack", ()):
                look = self.p.lookup(tgt)
                if look is not None and look[0] == "value" and look[3] is None:
                    v_ = look[1]
                    simple = isinstance(v_, ast.Constant) and isinstance(v_.value, str)
                    coll = isinstance(v_, (ast.Tuple, ast.Set, ast.List)) and all(isinstance(x, (ast.Constant, ast.Name, ast.Attribute)) for x in v_.elts) and last.isupper()
                    if simple or coll:
                        m_ = look[2]
                        # bound exactly once in its module
                        n_bind = sum(1 for st in m_.tree.body if isinstance(st, (ast.Assign, ast.AnnAssign)) for t in (st.targets if isinstance(st, ast.Assign) else [st.target])
                                     if isinstance(t, ast.Name) and t.id == last)
                        if n_bind == 1:
                            self._const_stack = getattr(self, "_const_stack", ()) + (tgt,)
                            try:
                                return self.expr(v_, Frame(self, m_, m_.name + ".<module>"))
                            finally:
                                self._const_stack = self._const_stack[:-1]
            return ("name", tgt)
        if e.id in BUILTINS or e.id in ("True", "False", "None"):
            return ("name", "builtins." + e.id)
        self.unresolved.add((fr.qual, e.id))
        return ("name", "?." + e.id)

    def e_Attribute(self, e, fr):
        base = self.expr(e.value, fr)
        return self.attr(base, e.attr, fr)

    def attr(self, base, name, fr=None):
        if fr is not None:
            k = ("attr", base, name)
            v = fr.lookup(k)
            if v is not None:
                return v
        if base[0] == "name":
            return ("name", self.p.canonical(base[1] + "." + name))
        if base[0] == "scan_final" and base[1] in self.scans:
            # the final carry of a scan whose carry is a record: field access by name is the positional component
            init_ = self.scans[base[1]].get("init")
            info_ = self.ctor_info(init_) if isinstance(init_, tuple) and init_ and init_[0] == "call" else None
            if info_ is not None and name in info_[1]:
                return ("idx", base, C(info_[1].index(name)))
        if base[0] == "ifexp" and base[2] != NORET and base[3] != NORET and (is_const(base[2], None) != is_const(base[3], None)):
            # attribute access on None raises: on every path that continues, the value comes from the arm that is not None
            return self.attr(base[3] if is_const(base[2], None) else base[2], name, fr)
        if base[0] == "ifexp" and base[2] != NORET and base[3] != NORET:
            a, b = self.attr(base[2], name), self.attr(base[3], name)
            if a[0] != "attr" or b[0] != "attr":
                return ("ifexp", base[1], a, b)
        if base[0] == "call" and base[1][0] == "name":
            fld = self.ctor_field(base, name)
            if fld is not None:
                return fld
        return ("attr", base, name)

    def ctor_info(self, call):
        """If `call` constructs a repo dataclass, return (class dotted, fields, node, module)."""
        if call[0] != "call" or call[1][0] != "name":
            return None
        r = self.p.lookup(call[1][1])
        if r is not None and r[0] == "value" and isinstance(r[1], ast.Call):
            # X = collections.namedtuple("X", ["a", "b"]) / namedtuple("X", "a b"): a record type with these fields
            fn_ = r[1].func
            nm_ = fn_.id if isinstance(fn_, ast.Name) else getattr(fn_, "attr", "")
            if nm_ == "namedtuple" and len(r[1].args) >= 2:
                spec = r[1].args[1]
                if isinstance(spec, (ast.List, ast.Tuple)) and all(isinstance(x, ast.Constant) and isinstance(x.value, str) for x in spec.elts):
                    return call[1][1], [x.value for x in spec.elts], r[1], r[2]
                if isinstance(spec, ast.Constant) and isinstance(spec.value, str):
                    return call[1][1], spec.value.replace(",", " ").split(), r[1], r[2]
            return None
        if r is None or r[0] != "class":
            return None
        fields = self.p.dataclass_fields(r[1])
        if not fields:
            return None
        return call[1][1], fields, r[1], r[2]

    def ctor_field(self, call, name):
        info = self.ctor_info(call)
        if info is None:
            return None
        _, fields, _, _ = info
        if name not in fields:
            return None
        args, kwargs = call[2], call[3]
        if any(a[0] == "star" for a in args) or any(k is None for k, _ in kwargs):
            return None
        i = fields.index(name)
        if i < len(args):
            return args[i]
        for k, v in kwargs:
            if k == name:
                return v
        return None

    def e_Subscript(self, e, fr):
        base = self.expr(e.value, fr)
        idx = self.expr(e.slice, fr)
        k = ("idx", base, idx)
        v = fr.lookup(k)
        if v is not None:
            return v
        return self.index(base, idx)

    def e_Slice(self, e, fr):
        f = lambda x: self.expr(x, fr) if x is not None else NONE
        return ("slice", f(e.lower), f(e.upper), f(e.step))

    def index(self, base, idx):
        if base[0] == "ifexp" and base[2] != NORET and base[3] != NORET and (is_const(base[2], None) != is_const(base[3], None)):
            # subscripting None raises: on every path that continues, the value comes from the arm that is not None
            return self.index(base[3] if is_const(base[2], None) else base[2], idx)
        if base[0] == "name":
            tb = self.const_table(base)
            if tb is not None:
                base = tb
        if base[0] == "dict" and idx[0] not in ("const", "slice") and base[1] and all(k is not None and k[0] in ("name", "const") for k, _ in base[1]):
            # TABLE[key]: the value under the matching key (a missing key raises KeyError)
            out = ("raise", ("call", ("name", "builtins.KeyError"), (idx,), ()))
            for k, v in reversed(base[1]):
                out = ("ifexp", ("cmp", "==", idx, k), v, out)
            return out
        h = base[0]
        if idx[0] == "const" and isinstance(idx[1], int) and not isinstance(idx[1], bool):
            i = idx[1]
            if h == "call":
                nt = self.namedtuple_items(base)
                if nt is not None and -len(nt) <= i < len(nt):
                    return nt[i]
            if h in ("tuple", "list") and not any(x[0] == "star" for x in base[1]):
                if -len(base[1]) <= i < len(base[1]):
                    return base[1][i]
            if h == "scan":
                if i == 0:
                    return ("scan_final", base[1])
                if i == 1:
                    return self.stack(base[1], self.scans[base[1]]["ys"])
            if h == "stack":
                it = self.known_items(base[2])
                if it is not None and -len(it) <= i < len(it):
                    return self.stack(base[1], it[i])
                if base[2][0] == "ifexp":
                    inner = self.index(base[2], idx)
                    if inner != ("idx", base[2], idx):
                        return self.stack(base[1], inner)
            if h == "lanes":
                it = self.known_items(base[2])
                if it is not None and -len(it) <= i < len(it):
                    return ("lanes", base[1], it[i])
                if base[2][0] == "ifexp":
                    inner = self.index(base[2], idx)
                    if inner != ("idx", base[2], idx):
                        return ("lanes", base[1], inner)
            if h in ("elem", "lane", "leaf"):
                tree = base[2]
                it = self.known_items(tree)
                if it is not None and -len(it) <= i < len(it):
                    return base[:2] + (it[i],) + base[3:]
            if h == "rest" and i >= 0:
                return self.index(base[1], C(base[2] + i))
        if idx[0] == "const" and h == "dict":
            for k, v in base[1]:
                if k == idx:
                    return v
        if idx[0] == "slice" and h in ("tuple", "list") and all(is_const(x) for x in idx[1:]) and not any(x[0] == "star" for x in base[1]):
            try:
                return (h, tuple(base[1][slice(idx[1][1], idx[2][1], idx[3][1])]))
            except Exception:
                pass
        if idx[0] == "slice" and is_const(idx[2], None) and is_const(idx[3], None) and idx[1][0] == "const" and isinstance(idx[1][1], int) and idx[1][1] >= 0 and h in ("param", "rest"):
            if h == "rest":
                return ("rest", base[1], base[2] + idx[1][1])
            return ("rest", base, idx[1][1])
        if h == "ifexp" and base[2] != NORET and base[3] != NORET:
            a, b = self.index(base[2], idx), self.index(base[3], idx)
            if a != ("idx", base[2], idx) or b != ("idx", base[3], idx):
                return ("ifexp", base[1], a, b)
        return ("idx", base, idx)

    def stack(self, sid, t):
        return ("stack", sid, t)

    def e_Tuple(self, e, fr):
        return ("tuple", self.seq(e.elts, fr))

    def e_List(self, e, fr):
        return ("list", self.seq(e.elts, fr))

    def e_Set(self, e, fr):
        return ("set", self.seq(e.elts, fr))

    def seq(self, elts, fr):
        out = []
        for x in elts:
            if isinstance(x, ast.Starred):
                v = self.expr(x.value, fr)
                it = self.known_items(v)
                if it is not None:
                    out.extend(it)
                else:
                    exp = self.expand_star(v)
                    if exp is not None:
                        out.extend(exp)
                    else:
                        out.append(("star", v))
            else:
                out.append(self.expr(x, fr))
        return tuple(out)

    def expand_star(self, v):
        """*map(f, [a, b]) and similar with literal operands."""
        if v[0] == "call" and v[1] == ("name", "builtins.map") and len(v[2]) == 2:
            it = self.known_items(v[2][1])
            if it is not None:
                return [self.call_term(v[2][0], (x,), (), None, None) for x in it]
        return None

    def e_Dict(self, e, fr):
        items = []
        for k, v in zip(e.keys, e.values):
            if k is None:
                vv = self.expr(v, fr)
                if vv[0] == "dict":
                    items.extend(vv[1])
                else:
                    items.append((("star",), vv))
            else:
                items.append((self.expr(k, fr), self.expr(v, fr)))
        return ("dict", tuple(items))

    def e_BinOp(self, e, fr):
        a, b = self.expr(e.left, fr), self.expr(e.right, fr)
        op = BINOPS.get(type(e.op), "?")
        if op == "+" and a[0] in ("tuple", "list") and b[0] == a[0]:
            return (a[0], a[1] + b[1])
        # (x,) + tuple(ys)  ==  (x, *ys)   and   tuple(xs) + (y,)  ==  (*xs, y)
        def as_splat(t):
            if t[0] == "call" and t[1] == ("name", "builtins.tuple") and len(t[2]) == 1 and not t[3]:
                return ("tuple", (("star", t[2][0]),))
            return t
        if op == "+" and (a[0] == "tuple" or b[0] == "tuple"):
            a2, b2 = as_splat(a), as_splat(b)
            if a2[0] == "tuple" and b2[0] == "tuple":
                return ("tuple", a2[1] + b2[1])
        if op == "*" and a[0] == "tuple" and b[0] == "const" and isinstance(b[1], int) and 0 <= b[1] <= 8:
            return ("tuple", a[1] * b[1])
        if a[0] == "const" and b[0] == "const" and isinstance(a[1], (int, float)) and isinstance(b[1], (int, float)) and not isinstance(a[1], bool) and not isinstance(b[1], bool):
            try:
                return C({"+": lambda: a[1] + b[1], "-": lambda: a[1] - b[1], "*": lambda: a[1] * b[1],
                          "/": lambda: a[1] / b[1], "//": lambda: a[1] // b[1], "**": lambda: a[1] ** b[1],
                          "%": lambda: a[1] % b[1]}[op]())
            except Exception:
                pass
        return ("binop", op, a, b)

    def e_UnaryOp(self, e, fr):
        v = self.expr(e.operand, fr)
        op = UNOPS.get(type(e.op), "?")
        if op == "-" and v[0] == "const" and isinstance(v[1], (int, float)) and not isinstance(v[1], bool):
            return C(-v[1])
        if op == "not" and v[0] == "const":
            return C(not v[1])
        return ("unop", op, v)

    def e_BoolOp(self, e, fr):
        vals = tuple(self.expr(x, fr) for x in e.values)
        op = "and" if isinstance(e.op, ast.And) else "or"
        # `x or {}` / `x or ()`: treated as x (documented axiom for kwargs normalisation)
        return ("boolop", op, vals)

    def e_Compare(self, e, fr):
        left = self.expr(e.left, fr)
        parts = []
        for op, r in zip(e.ops, e.comparators):
            right = self.expr(r, fr)
            opn = CMPOPS.get(type(op), "?")
            # `1 == n` is `n == 1`, `scan_p == primitive` is `primitive == scan_p`: symmetric comparisons carry the constant / the plain
            # name on the right (both orders give the same term)
            lit = lambda t_: t_[0] in ("const", "name") or (t_[0] in ("tuple", "list") and all(x_[0] == "const" for x_ in t_[1]))
            if opn in ("==", "!=") and len(e.ops) == 1 and lit(left) and not lit(right):
                parts.append(("cmp", opn, right, left))
            else:
                parts.append(("cmp", opn, left, right))
            left = right
        if len(parts) == 1:
            p = parts[0]
            sv = self.static_truth(p, fr)
            if sv is not None and p[1] in ("is", "is not"):
                return C(sv)
            if p[1] in ("is", "is not") and is_const(p[3], None) and p[2][0] == "ifexp" and p[2][2] != NORET and p[2][3] != NORET:
                # (a if c else b) is None  ==  (a is None) if c else (b is None), folded where an arm is statically (not) None
                def dist(t):
                    if t[0] == "ifexp" and t[2] != NORET and t[3] != NORET:
                        a, b = dist(t[2]), dist(t[3])
                        if a == b and a[0] == "const":
                            return a
                        if a == C(True) and b == C(False):
                            return t[1]
                        if a == C(False) and b == C(True):
                            return ("unop", "not", t[1])
                        return ("ifexp", t[1], a, b)
                    q = ("cmp", p[1], t, p[3])
                    v = self.static_truth(q, fr)
                    return C(v) if v is not None else q
                return dist(p[2])
            return p
        return ("boolop", "and", tuple(parts))

    def e_IfExp(self, e, fr):
        c = self.expr(e.test, fr)
        sv = self.static_truth(c)
        if sv is True:
            return self.expr(e.body, fr)
        if sv is False:
            return self.expr(e.orelse, fr)
        a, b = self.expr(e.body, fr), self.expr(e.orelse, fr)
        while c[0] == "unop" and c[1] == "not":   # a if not c else b  ==  b if c else a
            c, a, b = c[2], b, a
        if a == C(True) and b == C(False):
            return c
        if a == C(False) and b == C(True):
            return ("unop", "not", c)
        return ("ifexp", c, a, b)

    def e_Lambda(self, e, fr):
        cid = next(self._ids)
        self.closures[cid] = Closure(cid, e, dict(fr.env), fr, fr.qual + ".<lambda@%d>" % e.lineno)
        return ("closure", cid)

    def e_JoinedStr(self, e, fr):
        return ("fstr",)

    def e_FormattedValue(self, e, fr):
        return ("fstr",)

    def e_Starred(self, e, fr):
        return ("star", self.expr(e.value, fr))

    def e_NamedExpr(self, e, fr):
        v = self.expr(e.value, fr)
        fr.env[e.target.id] = v
        return v

    def e_Await(self, e, fr):
        return self.expr(e.value, fr)

    def comp(self, kind, e, elts, fr):
        # a single unconditional generator over a sequence of statically known length (a literal, or a field whose length a rule has
        # declared, e.g. CondTr.trs) is unrolled: `[f(t) for t in self.trs]` is the list `[f(self.trs[0]), f(self.trs[1])]`
        if kind in ("list", "gen", "tuple") and len(e.generators) == 1 and not e.generators[0].ifs and len(elts) == 1:
            probe = Frame(self, fr.module, fr.qual, cls=fr.cls, parent=fr)
            probe.guards = fr.guards
            items = self.known_items(self.expr(e.generators[0].iter, probe))
            if items is not None:
                out = []
                for it_ in items:
                    sub = Frame(self, fr.module, fr.qual, cls=fr.cls, parent=fr)
                    sub.guards = fr.guards
                    self.assign_target(e.generators[0].target, it_, sub, e)
                    out.append(self.expr(elts[0], sub))
                return ("list" if kind == "list" else "tuple", tuple(out))
        sub = Frame(self, fr.module, fr.qual, cls=fr.cls, parent=fr)
        sub.guards = fr.guards
        gens = []
        for g in e.generators:
            it = self.expr(g.iter, sub)
            lid = next(self._ids)
            # calls made per element are guarded like the enclosing statement and marked as inside a loop
            sub.guards = sub.guards + ((("loop", lid, it), True),)
            self.assign_target(g.target, ("iter", lid, it), sub, e)
            conds = tuple(self.expr(c, sub) for c in g.ifs)
            gens.append((lid, it, conds))
        vals = tuple(self.expr(x, sub) for x in elts)
        return ("comp", kind, vals, tuple(gens))

    def e_ListComp(self, e, fr):
        return self.comp("list", e, [e.elt], fr)

    def e_SetComp(self, e, fr):
        return self.comp("set", e, [e.elt], fr)

    def e_GeneratorExp(self, e, fr):
        return self.comp("gen", e, [e.elt], fr)

    def e_DictComp(self, e, fr):
        # {k: v for x in <sequence of statically known length>} is the literal dictionary
        if len(e.generators) == 1 and not e.generators[0].ifs:
            probe = Frame(self, fr.module, fr.qual, cls=fr.cls, parent=fr)
            probe.guards = fr.guards
            items = self.known_items(self.expr(e.generators[0].iter, probe))
            if items is not None:
                out = []
                for it_ in items:
                    sub = Frame(self, fr.module, fr.qual, cls=fr.cls, parent=fr)
                    sub.guards = fr.guards
                    self.assign_target(e.generators[0].target, it_, sub, e)
                    out.append((self.expr(e.key, sub), self.expr(e.value, sub)))
                if all(k[0] == "const" for k, _ in out):
                    return ("dict", tuple(out))
        return self.comp("dict", e, [e.key, e.value], fr)

    def e_Call(self, e, fr):
        fn = self.expr(e.func, fr)
        args = self.seq(e.args, fr)
        kwargs = []
        for kw in e.keywords:
            v = self.expr(kw.value, fr)
            if kw.arg is None and v[0] == "dict" and all(k[0] == "const" for k, _ in v[1]):
                kwargs.extend((k[1], x) for k, x in v[1])
            else:
                kwargs.append((kw.arg, v))
        return self.call_term(fn, args, tuple(kwargs), fr, e)

    # ------------------------------------------------------------------ calls
    def canon_ctor(self, fn, args, kwargs):
        """Keyword arguments of a repo dataclass constructor are rewritten positionally (field order) when they
        continue the positional prefix, so Foo(a, b) and Foo(x=a, y=b) are one term."""
        if fn[0] == "name" and not kwargs and len(args) == 1 and args[0][0] == "star" and self.known_items(args[0][1]) is None:
            # Foo(*pair) for a repo dataclass with n fields: the splat must have exactly n items, so it is Foo(pair[0], …, pair[n-1])
            r = self.p.lookup(fn[1])
            if r is not None and r[0] == "class":
                fields = self.p.dataclass_fields(r[1])
                if fields:
                    return tuple(self.index(args[0][1], C(i)) for i in range(len(fields))), kwargs
        if fn[0] != "name" or not kwargs or any(k is None for k, _ in kwargs) or any(a[0] == "star" for a in args):
            return args, kwargs
        r = self.p.lookup(fn[1])
        if r is not None and r[0] == "func" and isinstance(r[1], ast.FunctionDef) and not r[1].args.posonlyargs \
                and (fn[1] in self.canon_kw_functions or (not r[1].args.vararg and fn[1] not in self.keep_kw_functions)):
            # a repo-local function: f(a, b) and f(x=a, y=b) are one term (keywords that continue the positional prefix become positional, in
            # signature order).  Functions whose callers customarily pass options by keyword, and which rules read by name, are exempt.
            fields = [a.arg for a in r[1].args.args]
        elif r is None or r[0] != "class":
            return args, kwargs
        else:
            fields = self.p.dataclass_fields(r[1])
        if not fields:
            return args, kwargs
        kw = dict(kwargs)
        out = list(args)
        rest = list(kwargs)
        for f in fields[len(args):]:
            if f in kw:
                out.append(kw[f])
                rest = [(k, v) for k, v in rest if k != f]
            else:
                break
        return tuple(out), tuple(rest)

    def _cond_of_call(self, fn, args):
        """Condition of a conditional callee / conditional splat in a call, looking through one level of higher-order application
        (modular_vmap(<ifexp>, ...)(*<ifexp>))."""
        cands = [fn] + [a[1] for a in args if a[0] == "star"]
        if fn[0] == "call" and fn[1][0] == "name" and fn[1][1] in VMAP_NAMES:
            cands += list(fn[2][:1]) + [a[1] for a in fn[2] if a[0] == "star"]
        for x in cands:
            if isinstance(x, tuple) and x and x[0] == "ifexp" and x[2] != NORET and x[3] != NORET:
                return x[1]
        return None

    def call_term(self, fn, args, kwargs, fr, node):
        # (A if c else B)(*(TA if c else TB))  ==  A(*TA) if c else B(*TB): a call through a conditional callee or a conditional
        # argument splat is distributed over the condition (same condition resolved consistently in callee, operands and options)
        c = self._cond_of_call(fn, tuple(args))
        if c is not None and getattr(self, "_distributing", 0) < 6:
            def refold(x):
                # structural constants that become known once the condition is resolved
                if x[0] == "call" and x[1] == ("name", "builtins.len") and len(x[2]) == 1 and x[2][0][0] in ("tuple", "list") \
                        and not any(y[0] == "star" for y in x[2][0][1]):
                    return C(len(x[2][0][1]))
                if x[0] == "binop" and x[1] == "*" and x[2][0] == "tuple" and x[3][0] == "const" and isinstance(x[3][1], int) and 0 <= x[3][1] <= 8:
                    return ("tuple", x[2][1] * x[3][1])
                if x[0] == "binop" and x[1] == "+" and x[2][0] in ("tuple", "list") and x[3][0] == x[2][0]:
                    return (x[2][0], x[2][1] + x[3][1])
                return None

            def pick(t, side):
                # the condition is resolved wherever it occurs (deeply), then structural constants are re-folded
                def f(x):
                    if x[0] == "ifexp" and x[1] == c:
                        return x[2] if side else x[3]
                    return None
                t2 = subst(t, f)
                for _ in range(3):
                    t3 = subst(t2, refold)
                    if t3 == t2:
                        break
                    t2 = t3
                return t2

            def pick_fn(f, side):
                f = pick(f, side)
                if f[0] == "call":
                    return ("call", pick(f[1], side), tuple(pick(a, side) for a in f[2]), tuple((k, pick(v, side)) for k, v in f[3]))
                return f

            def expand(seq):
                out = []
                for a in seq:
                    if a[0] == "star":
                        it = self.known_items(a[1])
                        if it is not None:
                            out.extend(it)
                            continue
                    out.append(a)
                return tuple(out)
            self._distributing = getattr(self, "_distributing", 0) + 1
            try:
                outs = []
                for side in (True, False):
                    # effects of either alternative happen only under the condition (or its negation)
                    saved_guards = fr.guards if fr is not None else None
                    if fr is not None:
                        fr.guards = fr.guards + ((c, side),)
                    try:
                        f2 = pick_fn(fn, side)
                        if f2[0] == "call":
                            f2 = self.call_term(f2[1], expand(f2[2]), f2[3], fr, node)
                        a2 = expand(tuple(pick(a, side) for a in args))
                        k2 = tuple((k, pick(v, side)) for k, v in kwargs)
                        outs.append(self.call_term(f2, a2, k2, fr, node))
                    finally:
                        if fr is not None:
                            fr.guards = saved_guards
            finally:
                self._distributing -= 1
            return ("ifexp", c, outs[0], outs[1])
        args, kwargs = self.canon_ctor(fn, tuple(args), tuple(kwargs))
        t = ("call", fn, tuple(args), tuple(kwargs))
        if fr is not None:
            self.event(fr, "call", t, node)
        r = self.simplify_call(t, fr, node)
        return r if r is not None else t

    def absorb(self, fr, s):
        """Propagate an inlined callee's side effects to the caller: guarded events and stores into shared objects
        (attribute / subscript stores are keyed by the stored-into term, which is caller-visible after argument binding)."""
        if fr is None or s is None:
            return
        if s.frame.events is not fr.events:
            fr.events.extend((fr.guards + g, k, p, ln, q) for g, k, p, ln, q in s.events)
        for k, v in s.env.items():
            if isinstance(k, tuple):
                fr.env[k] = v

    def kwget(self, kwargs, name, default=None):
        for k, v in kwargs:
            if k == name:
                return v
        return default

    def simplify_call(self, t, fr, node):
        _, fn, args, kwargs = t
        depth = len(self._inlining)
        # --- direct closure call
        if fn[0] == "closure" and depth < self.max_inline_depth:
            r = self.apply_closure(fn, args, kwargs)
            if r is not None:
                self.absorb(fr, getattr(self, "last_closure_summary", None))
            return r
        if fn[0] == "name":
            nm = fn[1]
            if nm in SCAN_NAMES:
                return self.sum_scan(t, fr)
            if nm in TREEMAP_NAMES:
                return self.sum_treemap(t, fr)
            if nm == "builtins.map" and len(args) == 2:
                it = self.known_items(args[1])
                if it is not None:
                    return ("list", tuple(self.call_term(args[0], (x,), (), fr, node) for x in it))
            if nm == "builtins.len" and len(args) == 1:
                it = self.known_items(args[0])
                if it is not None:
                    return C(len(it))
            if nm.endswith(".get") and nm.startswith("genjax.") and self.const_table(("name", nm[:-4])) is not None:
                return self.call_term(("attr", self.const_table(("name", nm[:-4])), "get"), args, kwargs, fr, node)
            if nm == "builtins.slice" and 1 <= len(args) <= 3 and not kwargs:
                a_ = list(args)
                lo, hi, st = (NONE, a_[0], NONE) if len(a_) == 1 else (a_[0], a_[1], a_[2] if len(a_) == 3 else NONE)
                return ("slice", lo, hi, st)
            if nm == "builtins.getattr" and len(args) in (2, 3) and args[1][0] == "const" and isinstance(args[1][1], str) and not kwargs:
                return self.attr(args[0], args[1][1], fr)
            # jax.numpy function spellings of the arithmetic operators (element-wise, bit-identical to the operator forms)
            if nm.startswith("jax.numpy.") and not kwargs:
                jop = nm.rsplit(".", 1)[1]
                JBIN = {"add": "+", "subtract": "-", "multiply": "*", "true_divide": "/", "divide": "/", "matmul": "@"}
                if jop in JBIN and len(args) == 2:
                    return ("binop", JBIN[jop], args[0], args[1])
                if jop == "negative" and len(args) == 1:
                    return ("unop", "-", args[0])
            # the operator module: function spellings of Python's own operators
            if nm.startswith("operator.") and not kwargs:
                op = nm.split(".", 1)[1]
                if op in ("neg", "pos", "not_", "invert") and len(args) == 1:
                    return ("unop", {"neg": "-", "pos": "+", "not_": "not", "invert": "~"}[op], args[0])
                BIN = {"add": "+", "sub": "-", "mul": "*", "truediv": "/", "floordiv": "//", "mod": "%", "pow": "**", "matmul": "@",
                       "and_": "&", "or_": "|", "xor": "^"}
                if op in BIN and len(args) == 2:
                    return ("binop", BIN[op], args[0], args[1])
                if op == "getitem" and len(args) == 2:
                    return self.index(args[0], args[1])
                CMP = {"eq": "==", "ne": "!=", "lt": "<", "le": "<=", "gt": ">", "ge": ">=", "is_": "is", "is_not": "is not"}
                if op in CMP and len(args) == 2:
                    return ("cmp", CMP[op], args[0], args[1])
            if nm in ("builtins.tuple", "builtins.list", "builtins.sorted") and len(args) == 1 and args[0][0] == "dict" \
                    and all(k is not None and k[0] == "const" for k, _ in args[0][1]):
                # iterating a dictionary literal yields its keys (insertion order; sorted() sorts them)
                ks = [k for k, _ in args[0][1]]
                if nm.endswith("sorted"):
                    try:
                        ks = sorted(ks, key=lambda k: k[1])
                    except TypeError:
                        ks = None
                if ks is not None:
                    return ("list" if nm.endswith(("list", "sorted")) else "tuple", tuple(ks))
            if nm == "builtins.tuple" and len(args) == 1:
                it = self.known_items(args[0])
                if it is not None:
                    return ("tuple", tuple(it))
                if args[0][0] in ("rest",) or (args[0][0] == "param" and args[0][1] in ("args",)):
                    return args[0]
            if nm == "builtins.list" and len(args) == 1:
                it = self.known_items(args[0])
                if it is not None:
                    return ("list", tuple(it))
            if nm == "builtins.dict" and not args and all(k is not None for k, _ in kwargs):
                return ("dict", tuple((C(k), v) for k, v in kwargs))
            if nm == "builtins.isinstance" and len(args) == 2:
                r = self.static_isinstance(args[0], args[1])
                if r is not None:
                    return C(r)
            if nm == "functools.partial" and args:
                return ("partial", args[0], tuple(args[1:]), tuple(kwargs))
            # private helpers: a function with a private name, or any function of a private module (genjax._utils.helper)
            private_mod = any(part.startswith("_") and not part.startswith("__") for part in nm.split(".")[1:-1])
            auto = self.auto_inline_private and nm.startswith("genjax.") and (nm.rsplit(".", 1)[-1].startswith("_") or private_mod) \
                and not nm.rsplit(".", 1)[-1].startswith("__") and nm not in self.opaque
            if (nm in self.inline or auto) and depth < self.max_inline_depth and nm not in self._inlining:
                r = self.p.lookup(nm)
                # a generator function has no return value to inline: the call stays an opaque term naming the generator and its arguments
                if r and r[0] in ("func", "method") and any(isinstance(n_, (ast.Yield, ast.YieldFrom)) for n_ in ast.walk(r[1])):
                    r = None
                # nor has a self-recursive procedure that only mutates its arguments (a recursive dictionary walk): an opaque call event
                if r and r[0] == "func" and not any(isinstance(n_, ast.Return) and n_.value is not None for n_ in ast.walk(r[1])) \
                        and any(isinstance(n_, ast.Call) and isinstance(n_.func, ast.Name) and n_.func.id == r[1].name for n_ in ast.walk(r[1])):
                    r = None
                # nor has a procedure that walks `<parameter>.items()` and stores into another parameter's entries (a dictionary merge helper,
                # recursive or not): an opaque call event, classified by the rule that meets it
                if r and r[0] == "func" and not any(isinstance(n_, ast.Return) and n_.value is not None for n_ in ast.walk(r[1])):
                    ps_ = {a_.arg for a_ in r[1].args.args}
                    walks = any(isinstance(n_, ast.For) and isinstance(n_.iter, ast.Call) and isinstance(n_.iter.func, ast.Attribute) and n_.iter.func.attr == "items"
                                and isinstance(n_.iter.func.value, ast.Name) and n_.iter.func.value.id in ps_ for n_ in ast.walk(r[1]))
                    stores = any(isinstance(n_, ast.Assign) and any(isinstance(t_, ast.Subscript) and isinstance(t_.value, ast.Name) and t_.value.id in ps_ for t_ in n_.targets)
                                 for n_ in ast.walk(r[1]))
                    if walks and stores:
                        r = None
                if r and r[0] in ("func", "method"):
                    self._inlining.append(nm)
                    try:
                        s = self.eval_funcnode(r[1], r[2], nm, cls=r[3].name if r[3] is not None else None,
                                               args=args, kwargs=kwargs, parent=None)
                        self.absorb(fr, s)
                        return s.ret
                    finally:
                        self._inlining.pop()
        # --- array method spellings of jax.numpy reductions: x.sum(...) is jnp.sum(x, ...)
        if fn[0] == "attr" and fn[2] in ("sum", "mean", "prod") and fn[1][0] != "name":
            return self.call_term(("name", "jax.numpy." + fn[2]), (fn[1],) + tuple(args), tuple(kwargs), fr, node)
        # --- vmapped call:  modular_vmap(f, ...)(args)
        if fn[0] == "call" and fn[1][0] == "name" and fn[1][1] in VMAP_NAMES:
            return self.sum_vmap(t, fr)
        # --- state(f)(*args): (result of f, collected-state dictionary)
        if fn[0] == "call" and fn[1] == ("name", "genjax.state.state") and fn[2] and fn[2][0][0] == "closure" \
                and len(self._inlining) < self.max_inline_depth + 2:
            r = self.apply_closure(fn[2][0], args, kwargs)
            if r is not None:
                stid = next(self._ids)
                self.states[stid] = {"f": fn[2][0], "body": r, "term": t}
                return ("tuple", (r, ("collected", stid)))
        if fn[0] == "partial":
            return self.call_term(fn[1], fn[2] + tuple(args), fn[3] + tuple(kwargs), fr, node)
        if fn[0] == "attr" and fn[2] == "get" and fn[1][0] == "name" and self.const_table(fn[1]) is not None:
            fn = ("attr", self.const_table(fn[1]), "get")
        if fn[0] == "attr" and fn[2] == "get" and fn[1][0] == "dict" and 1 <= len(args) <= 2 and not kwargs and args[0][0] != "const" \
                and fn[1][1] and all(k is not None and k[0] in ("name", "const") for k, _ in fn[1][1]):
            # a dispatch table: {k1: v1, k2: v2}.get(key, default) is  v1 if key == k1 else v2 if key == k2 else default
            out = args[1] if len(args) == 2 else NONE
            for k, v in reversed(fn[1][1]):
                out = ("ifexp", ("cmp", "==", args[0], k), v, out)
            return out
        if fn[0] == "call" and fn[1] == ("name", "operator.itemgetter") and len(fn[2]) == 1 and len(args) == 1 and not kwargs:
            return self.index(args[0], fn[2][0])
        if fn[0] == "call" and fn[1] == ("name", "operator.attrgetter") and len(fn[2]) == 1 and fn[2][0][0] == "const" \
                and isinstance(fn[2][0][1], str) and "." not in fn[2][0][1] and len(args) == 1 and not kwargs:
            return ("attr", args[0], fn[2][0][1])
        # --- forwarding method on self (whitelisted per rule)
        if fn[0] == "attr" and fn[1] == ("param", "self") and fr is not None and fr.cls and depth < self.max_inline_depth and \
                (fn[2] in self.self_inline or (self.auto_inline_private and fn[2].startswith("_") and not fn[2].startswith("__")
                                               and fn[2] not in OPAQUE_SELF_METHODS)):
            cnode = fr.module.defs.get(fr.cls)
            if isinstance(cnode, ast.ClassDef):
                mnode = self.p.class_member(cnode, fn[2], fr.module)
                key = fr.module.name + "." + fr.cls + "." + fn[2]
                if isinstance(mnode, ast.FunctionDef) and key not in self._inlining:
                    self._inlining.append(key)
                    try:
                        static = any(isinstance(d, ast.Name) and d.id == "staticmethod" for d in mnode.decorator_list)
                        s = self.eval_funcnode(mnode, fr.module, key, cls=fr.cls, args=(() if static else (fn[1],)) + tuple(args), kwargs=kwargs)
                        self.absorb(fr, s)
                        return s.ret
                    finally:
                        self._inlining.pop()
        # --- method call on a parameter whose (repo dataclass) type a rule has declared: inlined with self := the parameter
        if fn[0] == "attr" and fn[1][0] == "param" and fn[1][1] in self.param_class and depth < self.max_inline_depth:
            look = self.p.lookup(self.param_class[fn[1][1]])
            if look is not None and look[0] == "class":
                mnode = self.p.class_member(look[1], fn[2], look[2])
                key = self.param_class[fn[1][1]] + "." + fn[2]
                abstract = isinstance(mnode, ast.FunctionDef) and any(isinstance(d, ast.Name) and d.id == "abstractmethod" for d in mnode.decorator_list)
                if isinstance(mnode, ast.FunctionDef) and not abstract and key not in self._inlining:
                    self._inlining.append(key)
                    try:
                        sm = self.eval_funcnode(mnode, look[2], key, cls=look[1].name, args=(fn[1],) + tuple(args), kwargs=kwargs)
                        return sm.ret
                    finally:
                        self._inlining.pop()
        # --- method call on a constructed dataclass instance
        if self.inline_methods_on_ctor and fn[0] == "attr" and depth < self.max_inline_depth:
            base = fn[1]
            if base[0] == "call":
                info = self.ctor_info(base)
                if info is not None:
                    dotted, fields, cnode, cmod = info
                    mnode = self.p.class_member(cnode, fn[2], cmod)
                    if isinstance(mnode, ast.FunctionDef) and (dotted + "." + fn[2]) not in self._inlining:
                        self._inlining.append(dotted + "." + fn[2])
                        try:
                            static = any(isinstance(d, ast.Name) and d.id == "staticmethod" for d in mnode.decorator_list)
                            s = self.eval_funcnode(mnode, cmod, dotted + "." + fn[2], cls=cnode.name,
                                                   args=(() if static else (base,)) + tuple(args), kwargs=kwargs)
                            return s.ret
                        finally:
                            self._inlining.pop()
        return None

    def static_isinstance(self, v, cls):
        if cls[0] in ("tuple", "list") and cls[1]:
            rs = [self.static_isinstance(v, c) for c in cls[1]]
            if any(r is True for r in rs):
                return True
            if all(r is False for r in rs):
                return False
            return None
        if v[0] == "call" and v[1] in (("name", "builtins.list"), ("name", "builtins.tuple"), ("name", "builtins.dict")):
            return cls == v[1]
        if v[0] == "list" and cls == ("name", "builtins.list"):
            return True
        if v[0] in ("list", "tuple", "dict") and cls in (("name", "builtins.list"), ("name", "builtins.tuple"), ("name", "builtins.dict")):
            return cls == ("name", "builtins." + v[0])
        if v[0] == "const":
            if cls == ("name", "builtins.dict") or cls == ("name", "builtins.tuple") or cls == ("name", "builtins.list"):
                return False
        if v[0] == "tuple" and cls == ("name", "builtins.tuple"):
            return True
        if v[0] == "dict" and cls == ("name", "builtins.dict"):
            return True
        if v[0] == "call" and cls[0] == "name" and v[1] == cls and self.ctor_info(v) is not None:
            return True
        return None

    def apply_closure(self, fn, args, kwargs, bindings=None):
        cl = self.closures[fn[1]]
        if cl.cid in self._inlining:
            return None
        self._inlining.append(cl.cid)
        try:
            parent = Frame(self, cl.frame.module, cl.frame.qual, cls=cl.frame.cls, parent=cl.frame.parent)
            # late binding: prefer the defining frame's latest env, fall back to snapshot
            parent.env = dict(cl.env)
            for k, v in cl.frame.env.items():
                parent.env.setdefault(k, v)
            parent.events = []
            s = self.eval_funcnode(cl.node, cl.frame.module, cl.qual, cls=cl.frame.cls, parent=parent,
                                   args=args, kwargs=kwargs, bindings=bindings)
            self.last_closure_summary = s
            return s.ret
        finally:
            self._inlining.pop()

    def closure_of(self, t):
        return self.closures.get(t[1]) if t[0] == "closure" else None

    def elem_of(self, sid, xs):
        it = self.known_items(xs)
        if it is not None:
            return (xs[0], tuple(self.elem_of(sid, x) for x in it))
        if is_const(xs, None):
            return NONE
        if xs[0] == "ifexp":
            return ("ifexp", xs[1], self.elem_of(sid, xs[2]), self.elem_of(sid, xs[3]))
        return ("elem", sid, xs)

    def sum_scan(self, t, fr):
        _, fn, args, kwargs = t
        f = args[0] if args else self.kwget(kwargs, "f")
        init = args[1] if len(args) > 1 else self.kwget(kwargs, "init")
        xs = args[2] if len(args) > 2 else self.kwget(kwargs, "xs", NONE)
        if f is None or init is None:
            return None
        sid = next(self._ids)
        carry = self.carry_of(sid, init)
        x = self.elem_of(sid, xs)
        rec = {"f": f, "init": init, "xs": xs, "kwargs": kwargs, "carry_out": None, "ys": None, "term": t}
        self.scans[sid] = rec
        if f[0] == "closure" and len(self._inlining) < self.max_inline_depth + 2:
            r = self.apply_closure(f, (carry, x), ())
            rec["body_summary"] = getattr(self, "last_closure_summary", None)
        else:
            # a scan body given as functools.partial(...) or as a module-level (private) function is applied like any other call
            r = None
            if f[0] in ("partial", "name") and len(self._inlining) < self.max_inline_depth + 2:
                try:
                    r = self.call_term(f, (carry, x), (), fr, None)
                except Exception:
                    r = None
            if r is None:
                r = ("call", f, (carry, x), ())
        if r is None:
            return None
        rec["body"] = r
        rec["carry_out"] = self.index(r, C(0))
        rec["ys"] = self.index(r, C(1))
        return ("scan", sid)

    def carry_of(self, sid, init):
        it = self.known_items(init)
        if it is not None and init[0] in ("tuple", "list"):
            return (init[0], tuple(("scan_carry", sid, i) for i in range(len(it))))
        if it is not None and init[0] == "call" and self.ctor_info(init) is not None:
            # a record-valued carry (NamedTuple / namedtuple): the same record of the per-component carries, so that field access works
            return ("call", init[1], tuple(("scan_carry", sid, i) for i in range(len(it))), ())
        return ("scan_carry", sid, None)

    def axes_list(self, in_axes, n):
        if in_axes is None:
            return [C(0)] * n
        it = self.known_items(in_axes)
        if it is not None:
            if any(x[0] == "star" for x in it):
                return None
            return list(it)
        if in_axes[0] == "const" and (in_axes[1] is None or isinstance(in_axes[1], int)):
            return [in_axes] * n
        return None

    def sum_vmap(self, t, fr):
        _, fn, args, kwargs = t
        vf = fn[2][0] if fn[2] else self.kwget(fn[3], "f")
        if vf is None:
            return None
        in_axes = self.kwget(fn[3], "in_axes", fn[2][1] if len(fn[2]) > 1 else None)
        vid = next(self._ids)
        rec = {"f": vf, "in_axes": in_axes, "opts": fn[3], "args": args, "kwargs": kwargs, "term": t, "which": fn[1][1]}
        self.vmaps[vid] = rec
        nargs = len(args)
        axes = self.axes_list(in_axes, nargs)
        largs = []
        for i, a in enumerate(args):
            if a[0] == "star":
                ax = ("axis-of-rest", in_axes, i)
                largs.append(("star", ("lane", vid, a[1], ax)))
            else:
                ax = axes[i] if axes is not None and i < len(axes) else ("axis", in_axes, i)
                largs.append(self.lane_of(vid, a, ax))
        lkw = tuple((k, ("lane", vid, v, ("kwaxis",))) for k, v in kwargs)
        rec["lane_args"] = tuple(largs)
        if vf[0] == "closure" and len(self._inlining) < self.max_inline_depth + 2:
            r = self.apply_closure(vf, tuple(largs), lkw)
            rec["body_summary"] = getattr(self, "last_closure_summary", None)
        else:
            # functools.partial(...) of a repo function / a module-level private function mapped over lanes: applied like any other call
            r = None
            if vf[0] in ("partial", "name") and len(self._inlining) < self.max_inline_depth + 2:
                try:
                    r = self.call_term(vf, tuple(largs), lkw, None, None)
                    if r == ("call", vf, tuple(largs), lkw) or (isinstance(r, tuple) and r[:2] == ("call", vf)):
                        r = None
                except Exception:
                    r = None
            if r is None:
                r = ("call", vf, tuple(largs), lkw)
        if r is None:
            return None
        rec["body"] = r
        return ("lanes", vid, r)

    def lane_of(self, vid, a, ax):
        if is_const(ax, None):
            return a  # shared across lanes
        return ("lane", vid, a, ax)

    def leaf_of(self, tid, tree):
        """Leaf of `tree` seen by tree_map #tid.  A tree that is itself a tree_map result is, leaf by leaf, that
        map's body (all trees of one tree_map share a structure), so its body is re-expressed over #tid's leaves."""
        if tree[0] == "treemap":
            inner = tree[1]

            def f(x):
                if x[0] == "leaf" and x[1] == inner:
                    return self.leaf_of(tid, x[2])
                return None
            return subst(tree[2], f)
        return ("leaf", tid, tree)

    def sum_treemap(self, t, fr):
        _, fn, args, kwargs = t
        if len(args) < 2:
            return None
        f = args[0]
        tid = next(self._ids)
        leaves = tuple(self.leaf_of(tid, a) for a in args[1:])
        rec = {"f": f, "trees": args[1:], "kwargs": kwargs, "term": t}
        self.treemaps[tid] = rec
        if f[0] == "closure" and len(self._inlining) < self.max_inline_depth + 2:
            r = self.apply_closure(f, leaves, ())
            rec["body_summary"] = getattr(self, "last_closure_summary", None)
        else:
            # functools.partial(g, a...) or a (private / summarised) named function applied leafwise: reduced like any other call
            r = None
            if f[0] in ("partial", "name") and len(self._inlining) < self.max_inline_depth + 2:
                try:
                    r = self.call_term(f, leaves, (), None, None)
                except Exception:
                    r = None
            if r is None:
                r = ("call", f, leaves, ())
        if r is None:
            return None
        rec["body"] = r
        return ("treemap", tid, r)


# ---------------------------------------------------------------------- pretty printing
def ts(t, ev=None, depth=0):
    """Canonical, human-readable rendering of a term."""
    if not isinstance(t, tuple) or not t:
        return repr(t)
    h = t[0]
    f = lambda x: ts(x, ev, depth + 1)
    if depth > 40:
        return "…"
    if h == "const":
        return repr(t[1])
    if h == "param":
        return t[1]
    if h == "name":
        return t[1].replace("jax.numpy.", "jnp.").replace("jax.tree_util.", "jtu.").replace("builtins.", "")
    if h == "attr":
        return f"{f(t[1])}.{t[2]}"
    if h == "idx":
        return f"{f(t[1])}[{f(t[2])}]"
    if h == "rest":
        return f"{f(t[1])}[{t[2]}:]"
    if h == "star":
        return "*" + (f(t[1]) if len(t) > 1 else "")
    if h == "call":
        parts = [f(a) for a in t[2]] + [(f"{k}={f(v)}" if k is not None else f"**{f(v)}") for k, v in t[3]]
        return f"{f(t[1])}({', '.join(parts)})"
    if h == "tuple":
        return "(" + ", ".join(f(x) for x in t[1]) + ("," if len(t[1]) == 1 else "") + ")"
    if h == "list":
        return "[" + ", ".join(f(x) for x in t[1]) + "]"
    if h == "set":
        return "{" + ", ".join(f(x) for x in t[1]) + "}"
    if h == "dict":
        return "{" + ", ".join((f"**{f(v)}" if k == ("star",) else f"{f(k)}: {f(v)}") for k, v in t[1]) + "}"
    if h == "binop":
        return f"({f(t[2])} {t[1]} {f(t[3])})"
    if h == "unop":
        return f"({t[1]} {f(t[2])})"
    if h == "cmp":
        return f"({f(t[2])} {t[1]} {f(t[3])})"
    if h == "boolop":
        return "(" + f" {t[1]} ".join(f(x) for x in t[2]) + ")"
    if h == "ifexp":
        return f"({f(t[2])} if {f(t[1])} else {f(t[3])})"
    if h == "closure":
        if ev is not None and t[1] in ev.closures:
            return "<fn " + ev.closures[t[1]].qual.split(".")[-1] + ">"
        return f"<fn #{t[1]}>"
    if h == "slice":
        g = lambda x: "" if is_const(x, None) else f(x)
        return f"{g(t[1])}:{g(t[2])}" + ("" if is_const(t[3], None) else ":" + f(t[3]))
    if h == "noret":
        return "<fallthrough>"
    if h == "raise":
        return f"raise {f(t[1])}"
    if h == "scan":
        return f"scan#{t[1]}"
    if h == "scan_final":
        return f"scan#{t[1]}.final_carry"
    if h == "scan_carry":
        return f"carry#{t[1]}" + ("" if t[2] is None else f"[{t[2]}]")
    if h == "elem":
        return f"elem({f(t[2])})"
    if h == "stack":
        return f"stack({f(t[2])})"
    if h == "lanes":
        return f"lanes({f(t[2])})"
    if h == "lane":
        return f"lane({f(t[2])}@{f(t[3])})"
    if h == "treemap":
        return f"treemap({f(t[2])})"
    if h == "leaf":
        return f"leaf({f(t[2])})"
    if h == "iter":
        return f"each({f(t[2])})"
    if h == "loopcur":
        return f"{t[2]}@loop"
    if h == "loopres":
        return f"loop[{t[2]}: {f(t[3])} -> {f(t[4])}]"
    if h == "comp":
        return f"{t[1]}comp({', '.join(f(x) for x in t[2])} for " + "; ".join(f(g[1]) for g in t[3]) + ")"
    if h == "partial":
        return f"partial({f(t[1])}, {', '.join(f(x) for x in t[2])})"
    if h == "collected":
        return f"state#{t[1]}"
    if h in ("undef", "top", "fstr", "loopbreak", "axis", "axis-of-rest", "kwaxis", "dictmerge"):
        return "<" + " ".join(str(x) if not isinstance(x, tuple) else f(x) for x in t) + ">"
    return "<" + str(h) + ">"

"""E4 linear-form normaliser with case splitting on where/select/ifexp conditions.

lin(term) -> {atom_string: Fraction}; cases(term) -> [(assignment, linear form)] over every truth
assignment of the where-conditions occurring in the term (complete for the fragment
{+, -, unary -, numeric *, /numeric, sum, where/select/ifexp}).  Anything else is an atom,
rendered canonically by symeval.ts after normalisation (commutative products are sorted).
"""
from __future__ import annotations

from fractions import Fraction
import itertools

from .symeval import ts, subst, is_const, C

WHERE = {"jax.numpy.where", "jax.lax.select"}
SUMS = {"jax.numpy.sum", "jax.numpy.add.reduce"}
ARRAY_WRAP = {"jax.numpy.array", "jax.numpy.asarray", "jax.numpy.float32", "jax.numpy.float64"}
TRANSPARENT_REDUCE = {"jax.tree_util.tree_reduce"}


def num(t):
    if t[0] == "const" and isinstance(t[1], (int, float)) and not isinstance(t[1], bool):
        try:
            return Fraction(t[1]).limit_denominator(10**9)
        except Exception:
            return None
    return None


class Lin:
    def __init__(self, ev=None, axioms=(), sum_transparent=True):
        self.ev = ev
        self.axioms = list(axioms)
        self.sum_transparent = sum_transparent

    # -- rewriting --------------------------------------------------------
    def norm(self, t):
        def f(x):
            h = x[0]
            if h == "call" and x[1][0] == "name":
                nm = x[1][1]
                if nm in ARRAY_WRAP and len(x[2]) >= 1 and num(x[2][0]) is not None:
                    return x[2][0]
                if self.sum_transparent and nm in SUMS and len(x[2]) >= 1:
                    return x[2][0]
            if h == "boolop" and x[1] == "or" and len(x[2]) == 2 and x[2][1] in (("dict", ()), ("tuple", ()), ("const", None)):
                return x[2][0]
            if h == "ifexp" and x[1][0] == "call" and x[1][1] == ("name", "jax.numpy.shape"):
                # `jnp.sum(v) if jnp.shape(v) else v`  (Sum transparent)
                if x[2] == x[3]:
                    return x[2]
            if h == "ifexp" and x[2] == x[3]:
                return x[2]
            for ax in self.axioms:
                r = ax(x)
                if r is not None:
                    return r
            return None
        prev = None
        cur = t
        for _ in range(6):
            if cur == prev:
                break
            prev = cur
            cur = subst(cur, f)
        return cur

    # -- condition collection -----------------------------------------------
    def conds(self, t, acc=None):
        acc = [] if acc is None else acc
        h = t[0]
        if h == "binop" and t[1] in "+-":
            self.conds(t[2], acc)
            self.conds(t[3], acc)
        elif h == "binop" and t[1] in ("*", "/"):
            a, b = t[2], t[3]
            if num(a) is not None:
                self.conds(b, acc)
            elif num(b) is not None:
                self.conds(a, acc)
        elif h == "unop" and t[1] in "+-":
            self.conds(t[2], acc)
        elif h == "call" and t[1][0] == "name" and t[1][1] in WHERE and len(t[2]) == 3:
            k = self.cond_key(t[2][0])
            if k not in acc:
                acc.append(k)
            self.conds(t[2][1], acc)
            self.conds(t[2][2], acc)
        elif h == "ifexp":
            k = self.cond_key(t[1])
            if k not in acc:
                acc.append(k)
            self.conds(t[2], acc)
            self.conds(t[3], acc)
        return acc

    def cond_key(self, c):
        return ts(c, self.ev)

    # -- linearisation under an assignment -------------------------------------
    def lin(self, t, asg=None, normed=False):
        if not normed:
            t = self.norm(t)
        out = {}
        self._lin(t, Fraction(1), asg or {}, out)
        return {k: v for k, v in out.items() if v != 0}

    def _add(self, out, k, c):
        out[k] = out.get(k, Fraction(0)) + c

    def _lin(self, t, coef, asg, out):
        h = t[0]
        n = num(t)
        if n is not None:
            if n != 0:
                self._add(out, "1", coef * n)
            return
        if h == "binop":
            op, a, b = t[1], t[2], t[3]
            if op == "+":
                self._lin(a, coef, asg, out)
                self._lin(b, coef, asg, out)
                return
            if op == "-":
                self._lin(a, coef, asg, out)
                self._lin(b, -coef, asg, out)
                return
            if op == "*":
                na, nb = num(a), num(b)
                if na is not None:
                    self._lin(b, coef * na, asg, out)
                    return
                if nb is not None:
                    self._lin(a, coef * nb, asg, out)
                    return
                fa, fb = self.atom(a, asg), self.atom(b, asg)
                self._add(out, "mul(" + ", ".join(sorted([fa, fb])) + ")", coef)
                return
            if op == "/":
                nb = num(b)
                if nb is not None and nb != 0:
                    self._lin(a, coef / nb, asg, out)
                    return
        if h == "unop" and t[1] == "-":
            self._lin(t[2], -coef, asg, out)
            return
        if h == "unop" and t[1] == "+":
            self._lin(t[2], coef, asg, out)
            return
        if h == "call" and t[1][0] == "name" and t[1][1] in WHERE and len(t[2]) == 3:
            k = self.cond_key(t[2][0])
            if k in asg:
                self._lin(t[2][1] if asg[k] else t[2][2], coef, asg, out)
                return
        if h == "ifexp":
            k = self.cond_key(t[1])
            if k in asg:
                self._lin(t[2] if asg[k] else t[3], coef, asg, out)
                return
        self._add(out, self.atom(t, asg), coef)

    def atom(self, t, asg):
        return ts(t, self.ev)

    def cases(self, t):
        t = self.norm(t)
        cs = self.conds(t)
        if len(cs) > 6:
            raise ValueError("too many conditions: %d" % len(cs))
        out = []
        for bits in itertools.product([True, False], repeat=len(cs)):
            asg = dict(zip(cs, bits))
            out.append((asg, self.lin(t, asg, normed=True)))
        return out

    def is_zero(self, t):
        """(True, None) or (False, (assignment, residual linear form))."""
        for asg, lf in self.cases(t):
            if lf:
                return False, (asg, lf)
        return True, None

    def equal(self, a, b):
        return self.is_zero(("binop", "-", a, b))


def fmt_lf(lf):
    if not lf:
        return "0"
    parts = []
    for k in sorted(lf):
        c = lf[k]
        cs = ("%+d" % c) if c.denominator == 1 else ("%+s" % c)
        parts.append(f"{cs}·{k}")
    return " ".join(parts)

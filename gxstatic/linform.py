"""E4 linear-form normaliser with case splitting on where/select/ifexp conditions.

lin(term) -> {atom_string: Fraction}; cases(term) -> [(assignment, linear form)] over every truth
assignment of the where-conditions occurring in the term (complete for the fragment
{+, -, unary -, numeric *, /numeric, sum, where/select/ifexp}).  Anything else is an atom,
rendered canonically by symeval.ts after normalisation (commutative products are sorted).
"""
from __future__ import annotations

from fractions import Fraction
import itertools

from .symeval import ts, subst, is_const, C

WHERE = {"jax.numpy.where", "jax.lax.select"}
SUMS = {"jax.numpy.sum", "jax.numpy.add.reduce"}
ARRAY_WRAP = {"jax.numpy.array", "jax.numpy.asarray", "jax.numpy.float32", "jax.numpy.float64"}
TRANSPARENT_REDUCE = {"jax.tree_util.tree_reduce"}


def num(t):
    if t[0] == "const" and isinstance(t[1], (int, float)) and not isinstance(t[1], bool):
        try:
            return Fraction(t[1]).limit_denominator(10**9)
        except Exception:
            return None
    return None


class Lin:
    def __init__(self, ev=None, axioms=(), sum_transparent=True):
        self.ev = ev
        self.axioms = list(axioms)
        self.sum_transparent = sum_transparent

    # -- rewriting --------------------------------------------------------
    def norm(self, t):
        def f(x):
            h = x[0]
            if h == "call" and x[1][0] == "name":
                nm = x[1][1]
                if nm in ARRAY_WRAP and len(x[2]) >= 1 and num(x[2][0]) is not None:
                    return x[2][0]
                if self.sum_transparent and nm in SUMS and len(x[2]) >= 1:
                    return x[2][0]
            if h == "call" and any(a[0] == "star" and a[1][0] in ("tuple", "list") and not any(y[0] == "star" for y in a[1][1]) for a in x[2]):
                # f(*(a, b)) is f(a, b)
                out = []
                for a in x[2]:
                    if a[0] == "star" and a[1][0] in ("tuple", "list") and not any(y[0] == "star" for y in a[1][1]):
                        out.extend(a[1][1])
                    else:
                        out.append(a)
                return ("call", x[1], tuple(out), x[3])
            if h == "call" and x[3] and x[1][0] == "name" and x[1][1].startswith("genjax.") and self.ev is not None:
                # keyword arguments of a call to a repo-local function/dataclass that continue the positional prefix are positional
                # arguments (signature order): f(a, b) and f(x=a, y=b) are one term.  Applied to both sides of every comparison.
                r = self._canon_kw(x)
                if r is not None:
                    return r
            if h == "call" and len(x[3]) > 1:
                # named keyword arguments in any order denote the same call: sorted by name, `**` splats kept after them in their own order
                named = sorted(((k, v) for k, v in x[3] if k is not None), key=lambda kv: kv[0])
                splat = [(k, v) for k, v in x[3] if k is None]
                kws = tuple(named + splat)
                if kws != tuple(x[3]) and len({k for k, _ in named}) == len(named):
                    return ("call", x[1], x[2], kws)
            if h == "boolop" and x[1] == "or" and len(x[2]) == 2 and x[2][1] in (("dict", ()), ("tuple", ()), ("const", None)):
                return x[2][0]
            if h == "ifexp" and x[1][0] == "call" and x[1][1] == ("name", "jax.numpy.shape"):
                # `jnp.sum(v) if jnp.shape(v) else v`  (Sum transparent)
                if x[2] == x[3]:
                    return x[2]
            if h == "ifexp" and x[2] == x[3]:
                return x[2]
            if h == "ifexp" and x[1][0] == "const":
                return x[2] if x[1][1] else x[3]
            for ax in self.axioms:
                r = ax(x)
                if r is not None:
                    return r
            return None
        prev = None
        cur = t
        for _ in range(6):
            if cur == prev:
                break
            prev = cur
            cur = subst(cur, f)
        return cur

    def _canon_kw(self, x):
        import ast as _ast
        if any(k is None for k, _ in x[3]) or any(a[0] == "star" for a in x[2]):
            return None
        try:
            r = self.ev.p.lookup(x[1][1])
        except Exception:
            return None
        if r is None:
            return None
        if r[0] in ("func", "method") and isinstance(r[1], _ast.FunctionDef) and not r[1].args.posonlyargs:
            fields = [a.arg for a in r[1].args.args]
            if r[0] == "method" and fields and fields[0] in ("self", "cls"):
                return None
        elif r[0] == "class":
            fields = self.ev.p.dataclass_fields(r[1]) or []
        else:
            return None
        kw = dict(x[3])
        out = list(x[2])
        rest = list(x[3])
        for f in fields[len(out):]:
            if f in kw:
                out.append(kw[f])
                rest = [(k, v) for k, v in rest if k != f]
            else:
                break
        if len(out) == len(x[2]):
            return None
        return ("call", x[1], tuple(out), tuple(rest))

    # -- condition collection -----------------------------------------------
    def conds(self, t, acc=None):
        acc = [] if acc is None else acc
        h = t[0]
        if h == "binop" and t[1] in "+-":
            self.conds(t[2], acc)
            self.conds(t[3], acc)
        elif h == "binop" and t[1] in ("*", "/", "**"):
            self.conds(t[2], acc)
            self.conds(t[3], acc)
        elif h == "unop" and t[1] in "+-":
            self.conds(t[2], acc)
        elif h == "call" and t[1][0] == "name" and t[1][1] in WHERE and len(t[2]) == 3:
            k = self.cond_key(t[2][0])
            if k not in acc:
                acc.append(k)
            self.conds(t[2][1], acc)
            self.conds(t[2][2], acc)
        elif h == "ifexp":
            k = self.cond_key(t[1])
            if k not in acc:
                acc.append(k)
            self.conds(t[2], acc)
            self.conds(t[3], acc)
        return acc

    def cond_key(self, c):
        return ts(c, self.ev)

    # -- polynomial normal form under an assignment --------------------------------
    # A polynomial is {monomial: Fraction}; a monomial is a sorted tuple of atom strings ("" = constant 1).
    MAXTERMS = 400

    def lin(self, t, asg=None, normed=False):
        if not normed:
            t = self.norm(t)
        p = self._poly(t, asg or {})
        out = {}
        for mono, c in p.items():
            if c == 0:
                continue
            key = "1" if not mono else (mono[0] if len(mono) == 1 else "mul(" + ", ".join(mono) + ")")
            out[key] = out.get(key, Fraction(0)) + c
        return {k: v for k, v in out.items() if v != 0}

    @staticmethod
    def _padd(a, b, sign=1):
        out = dict(a)
        for m, c in b.items():
            out[m] = out.get(m, Fraction(0)) + sign * c
            if out[m] == 0:
                del out[m]
        return out

    def _pmul(self, a, b):
        if len(a) * len(b) > self.MAXTERMS:
            raise ValueError("polynomial too large")
        out = {}
        for m1, c1 in a.items():
            for m2, c2 in b.items():
                m = tuple(sorted(m1 + m2))
                out[m] = out.get(m, Fraction(0)) + c1 * c2
        return {m: c for m, c in out.items() if c != 0}

    def _poly(self, t, asg):
        h = t[0]
        n = num(t)
        if n is not None:
            return {(): n} if n != 0 else {}
        if h == "binop":
            op, a, b = t[1], t[2], t[3]
            if op == "+":
                return self._padd(self._poly(a, asg), self._poly(b, asg))
            if op == "-":
                return self._padd(self._poly(a, asg), self._poly(b, asg), -1)
            if op == "*":
                return self._pmul(self._poly(a, asg), self._poly(b, asg))
            if op == "/":
                nb = num(b)
                if nb is not None and nb != 0:
                    return {m: c / nb for m, c in self._poly(a, asg).items()}
                pb = self._poly(b, asg)
                if len(pb) == 1:
                    (mb, cb), = pb.items()
                    if cb != 0:
                        inv = tuple(sorted("inv(" + f + ")" for f in mb))
                        return self._pmul(self._poly(a, asg), {inv: 1 / cb})
                return self._pmul(self._poly(a, asg), {("inv(" + self.atom(b, asg) + ")",): Fraction(1)})
            if op == "**":
                nb = num(b)
                if nb is not None and nb.denominator == 1 and 0 <= nb <= 4:
                    out = {(): Fraction(1)}
                    pa = self._poly(a, asg)
                    for _ in range(int(nb)):
                        out = self._pmul(out, pa)
                    return out
        if h == "unop" and t[1] == "-":
            return {m: -c for m, c in self._poly(t[2], asg).items()}
        if h == "unop" and t[1] == "+":
            return self._poly(t[2], asg)
        if h == "call" and t[1][0] == "name" and t[1][1] in WHERE and len(t[2]) == 3:
            k = self.cond_key(t[2][0])
            if k in asg:
                return self._poly(t[2][1] if asg[k] else t[2][2], asg)
        if h == "ifexp":
            k = self.cond_key(t[1])
            if k in asg:
                return self._poly(t[2] if asg[k] else t[3], asg)
        return {(self.atom(t, asg),): Fraction(1)}

    def atom(self, t, asg):
        # resolve decided conditions inside atoms too, so that atoms are compared case by case
        if asg:
            def f(x):
                if x[0] == "ifexp" and self.cond_key(x[1]) in asg:
                    return x[2] if asg[self.cond_key(x[1])] else x[3]
                if x[0] == "call" and x[1][0] == "name" and x[1][1] in WHERE and len(x[2]) == 3 and self.cond_key(x[2][0]) in asg:
                    return x[2][1] if asg[self.cond_key(x[2][0])] else x[2][2]
                return None
            t = subst(t, f)
        return ts(t, self.ev)

    def cases(self, t):
        t = self.norm(t)
        cs = self.conds(t)
        if len(cs) > 6:
            raise ValueError("too many conditions: %d" % len(cs))
        out = []
        for bits in itertools.product([True, False], repeat=len(cs)):
            asg = dict(zip(cs, bits))
            out.append((asg, self.lin(t, asg, normed=True)))
        return out

    def is_zero(self, t):
        """(True, None) or (False, (assignment, residual linear form))."""
        for asg, lf in self.cases(t):
            if lf:
                return False, (asg, lf)
        return True, None

    def equal(self, a, b):
        return self.is_zero(("binop", "-", a, b))


def fmt_lf(lf):
    if not lf:
        return "0"
    parts = []
    for k in sorted(lf):
        c = lf[k]
        cs = ("%+d" % c) if c.denominator == 1 else ("%+s" % c)
        parts.append(f"{cs}·{k}")
    return " ".join(parts)

"""CLI: python -m gxstatic.run <ID> [--tier quick|thorough] [--replay file]"""
from __future__ import annotations

import argparse
import importlib
import json
import os
import sys
import time
import traceback

from .model import AnalysisError, Program

VERIF = os.path.dirname(os.path.dirname(os.path.abspath(__file__)))


class Ctx:
    def __init__(self, pid, tier, program, only=None):
        self.pid, self.tier, self.p = pid, tier, program
        self.records = []  # dict(rule, construct, status, detail, key, loc)
        self.samples = []
        self.only = only  # (rule, construct) filter for replay
        self.notes = []
        self.analysed = {"functions": set(), "call_sites": 0}

    def fn(self, dotted):
        self.analysed["functions"].add(dotted)

    def ok(self, rule, construct, detail=""):
        self.records.append(dict(rule=rule, construct=construct, status="ok", detail=str(detail)[:400]))

    def bad(self, rule, construct, key, what, loc=""):
        self.records.append(dict(rule=rule, construct=construct, status="violation", key=str(key)[:600], detail=what, loc=loc))

    def observe(self, rule, construct, what):
        self.notes.append(f"{rule} {construct}: {what}")

    def need(self, cond, msg):
        if not cond:
            raise AnalysisError(msg)

    def sample(self, obj):
        if len(self.samples) < 12:
            self.samples.append(obj)

    def loc(self, mod, node):
        return f"{mod.path}:{getattr(node, 'lineno', 0)}"


def load_known():
    path = os.path.join(VERIF, "known_findings.json")
    if not os.path.exists(path):
        return {"findings": [], "fixed": []}
    with open(path) as fh:
        return json.load(fh)


def match_known(known, pid, rec):
    for k in known.get("findings", []):
        if k["property"] == pid and k["rule"] == rec["rule"] and k["construct"] == rec["construct"] and k["key"] == rec.get("key"):
            return k
    return None


def main(argv=None):
    ap = argparse.ArgumentParser()
    ap.add_argument("pid")
    ap.add_argument("--tier", default=os.environ.get("VERIF_TIER", "quick"))
    ap.add_argument("--replay")
    ap.add_argument("--repo", default=None)
    ap.add_argument("--no-evidence", action="store_true")
    ap.add_argument("--json", action="store_true", help="print machine-readable result (used by the mutant harness)")
    ap.add_argument("--emit-known", action="store_true", help="developer aid: print unlisted violations as known-findings entries (stdout only)")
    a = ap.parse_args(argv)
    pid = a.pid.upper()
    tier = a.tier if a.tier in ("quick", "thorough") else "quick"
    seed = int(os.environ.get("VERIF_SEED", "0") or 0)
    t0 = time.time()
    only = None
    if a.replay:
        with open(a.replay) as fh:
            rp = json.load(fh)
        only = (rp["rule"], rp["construct"])
    try:
        if a.repo:
            from . import model
            model.REPO = a.repo
        prog = Program(a.repo)
        ctx = Ctx(pid, tier, prog, only)
        mod = importlib.import_module(f"gxstatic.rules.{pid.lower()}")
        for rule in mod.RULES:
            rule(ctx)
        floor = getattr(mod, "FLOOR", 1)
        n_ob = len(ctx.records)
        if n_ob < floor:
            raise AnalysisError(f"only {n_ob} rule instances found, frozen floor is {floor} (rule matches vacuously?)")
        if tier == "thorough" and hasattr(mod, "thorough"):
            mod.thorough(ctx)
        if tier == "thorough" and not a.repo and not a.replay:
            # self-validation: every mutant of this property's rules must be reported by this check
            from . import mutate
            import concurrent.futures as cf
            ms = [dict(m, props=[pid]) for m in mutate.load_mutants() if pid in m["props"]]
            res = []
            with cf.ProcessPoolExecutor(max_workers=min(16, max(1, len(ms)))) as ex:
                for mid, status, err, r in ex.map(mutate.run_one, ms):
                    res.append((mid, status, err))
            survived = [m for m in res if m[1] == "SURVIVED"]
            stale = [m for m in res if m[1] == "skip"]
            ctx.mutants = dict(total=len(res), killed=sum(1 for m in res if m[1] == "killed"), survived=[m[0] for m in survived], stale=[m[0] + ": " + m[2] for m in stale])
            print(f"[{pid}] self-validation: {ctx.mutants['killed']}/{len(res)} mutants reported, {len(survived)} survived, {len(stale)} stale")
            # seeded changes written by independent sub-agents (kept under /verif/seeded) that break this property
            import shutil, subprocess, tempfile
            seeded = []
            sdir = os.path.join(VERIF, "seeded")
            for d in sorted(os.listdir(sdir)) if os.path.isdir(sdir) else []:
                mp = os.path.join(sdir, d, "meta.json")
                if not os.path.exists(mp):
                    continue
                meta = json.load(open(mp))
                if pid not in [meta.get("property")] + meta.get("also_breaks", []):
                    continue
                tmp = tempfile.mkdtemp(prefix="gxstatic-seeded-")
                try:
                    shutil.copytree(os.path.join(prog.repo, "src"), os.path.join(tmp, "src"), ignore=shutil.ignore_patterns("__pycache__"))
                    pr = subprocess.run(["patch", "-p1", "-s", "-i", os.path.join(sdir, d, "patch.diff")], cwd=tmp, capture_output=True, text=True)
                    if pr.returncode:
                        seeded.append((d, "stale"))
                        continue
                    q = subprocess.run([sys.executable, "-B", "-m", "gxstatic.run", pid, "--repo", tmp, "--no-evidence"], cwd=VERIF, capture_output=True, text=True)
                    seeded.append((d, {0: "MISSED", 1: "caught"}.get(q.returncode, "analysis-error")))
                finally:
                    shutil.rmtree(tmp, ignore_errors=True)
            ctx.mutants["seeded"] = seeded
            print(f"[{pid}] seeded changes: {seeded}")
            # false-alarm self-check: behaviour-preserving refactorings written by independent sub-agents (kept under /verif/benign, each with a
            # characterisation digest that is identical before/after) must leave this check exactly as it is on the unchanged tree
            benign = []
            bdir = os.path.join(VERIF, "benign")

            def run_at(repo_dir):
                q = subprocess.run([sys.executable, "-B", "-m", "gxstatic.run", pid, "--repo", repo_dir, "--no-evidence", "--json"], cwd=VERIF, capture_output=True, text=True)
                js = [l for l in q.stdout.splitlines() if l.startswith("JSON:")]
                known_n = len(json.loads(js[0][5:])["known"]) if js else None
                return q.returncode, known_n
            base_rc, base_known = run_at(prog.repo)
            jobs = []
            for d in sorted(os.listdir(bdir)) if os.path.isdir(bdir) else []:
                pd = os.path.join(bdir, d, "patch.diff")
                if os.path.exists(pd):
                    jobs.append((d, pd))

            def one(job):
                d, pd = job
                tmp = tempfile.mkdtemp(prefix="gxstatic-benign-")
                try:
                    shutil.copytree(os.path.join(prog.repo, "src"), os.path.join(tmp, "src"), ignore=shutil.ignore_patterns("__pycache__"))
                    pr = subprocess.run(["patch", "-p1", "-s", "-F3", "-i", pd], cwd=tmp, capture_output=True, text=True)
                    if pr.returncode:
                        return (d, "stale")
                    rc_, kn = run_at(tmp)
                    return (d, "silent" if (rc_ == base_rc and kn == base_known) else f"ALARM rc={rc_} known={kn} (base rc={base_rc} known={base_known})")
                finally:
                    shutil.rmtree(tmp, ignore_errors=True)
            with cf.ThreadPoolExecutor(max_workers=8) as ex:
                benign = list(ex.map(one, jobs))
            ctx.mutants["benign"] = benign
            alarms = [b for b in benign if b[1].startswith("ALARM")]
            print(f"[{pid}] benign refactorings: {sum(1 for b in benign if b[1] == 'silent')}/{len(benign)} silent" + (f", alarms: {alarms}" if alarms else ""))
            if alarms:
                raise AnalysisError(f"false alarms on behaviour-preserving refactorings: {alarms}")
            missed = [d for d, st in seeded if st == "MISSED"]
            if missed:
                raise AnalysisError(f"seeded changes not reported: {missed}")
            if survived:
                raise AnalysisError(f"rules failed their own mutants: {[m[0] for m in survived]}")
            if len(res) and len(stale) > len(res) // 2:
                raise AnalysisError(f"more than half of the mutant table is stale for {pid}: {[m[0] for m in stale][:5]}")
    except AnalysisError as e:
        print(f"ANALYSIS-ERROR property={pid}: {e}")
        return 2
    except Exception:
        print(f"ANALYSIS-ERROR property={pid}: internal error")
        traceback.print_exc(file=sys.stdout)
        return 2
    known = load_known()
    viol, knowns = [], []
    for r in ctx.records:
        if r["status"] != "violation":
            continue
        if only and (r["rule"], r["construct"]) != only:
            continue
        k = match_known(known, pid, r)
        if k is not None:
            r["status"] = "known"
            knowns.append((r, k))
        else:
            viol.append(r)
    seen = set()
    for r, k in knowns:
        kk = (r["rule"], r["construct"], r["key"])
        if kk in seen:
            continue
        seen.add(kk)
        print(f"KNOWN-FINDING: property={pid} {r['rule']} {r['construct']}: {k.get('what', r['detail'])}")
    wall = time.time() - t0
    n_ok = sum(1 for r in ctx.records if r["status"] == "ok")
    print(f"[{pid}] tier={tier} functions={len(ctx.analysed['functions'])} rule-instances={len(ctx.records)} "
          f"discharged={n_ok} known-findings={len(seen)} violations={len(viol)} wall={wall:.2f}s")
    for n in ctx.notes:
        print(f"  note: {n}")
    rc = 0
    if viol:
        os.makedirs(os.path.join(VERIF, "replay"), exist_ok=True)
        for i, r in enumerate(viol):
            path = os.path.join(VERIF, "replay", f"{pid}-{r['rule']}-{i}.json")
            with open(path, "w") as fh:
                json.dump(dict(property=pid, rule=r["rule"], construct=r["construct"], key=r["key"], what=r["detail"],
                               loc=r.get("loc", ""), digests=prog.digests()), fh, indent=1)
            print(f"{r.get('loc','')}  {r['rule']}  {r['construct']}  {r['detail']}")
            print(f"    key: {r['key']}")
            print(f"VIOLATION property={pid} replay={path}")
        rc = 1
    if a.emit_known:
        print("EMIT:" + json.dumps([dict(property=pid, rule=r["rule"], construct=r["construct"], key=r["key"], what=r["detail"][:300], finding="") for r in viol], indent=1))
    if a.json:
        print("JSON:" + json.dumps(dict(rc=rc, violations=[dict(rule=r["rule"], construct=r["construct"], key=r["key"]) for r in viol],
                                       known=[dict(rule=r["rule"], construct=r["construct"]) for r, _ in knowns])))
    if not a.no_evidence and not a.replay:
        write_evidence(ctx, pid, tier, seed, wall, viol, seen, prog, mod)
    return rc


def write_evidence(ctx, pid, tier, seed, wall, viol, known_seen, prog, mod):
    n_ok = sum(1 for r in ctx.records if r["status"] == "ok")
    rules = sorted({r["rule"] for r in ctx.records})
    ev = {
        "property_id": pid,
        "tier": tier,
        "seed": seed,
        "level": "other",
        "coverage": {
            "explanation": getattr(mod, "EXPLANATION", "") + " Decides the structural clauses listed in DESIGN.md for this property, not the behaviour itself.",
            "obligations": len(ctx.records),
            "discharged": n_ok,
            "known_findings": len(known_seen),
            "rules": rules,
            "rule_instances": [dict(rule=r["rule"], construct=r["construct"], status=r["status"], detail=r.get("detail", "")[:200]) for r in ctx.records][:400],
            "functions_analysed": sorted(ctx.analysed["functions"]),
            "files": prog.digests(),
            "samples": ctx.samples or [dict(rule=r["rule"], construct=r["construct"], detail=r.get("detail", "")[:200]) for r in ctx.records[:5]],
            "checker_cmd": f"./check {pid} --tier {tier}",
            "trusted_base": ["CPython ast module", "rule tables in gxstatic/rules (DESIGN.md §3/§4)", "JAX/TFP library semantics (axioms listed in DESIGN.md §7)"],
            "notes": ctx.notes,
            "self_validation_mutants": getattr(ctx, "mutants", None),
            "exhaustive": True,
        },
        "assumptions": getattr(mod, "ASSUMPTIONS", ["library semantics of JAX/TFP as axiomatised in the rule tables"]),
        "wall_s": round(wall, 3),
        "violations": len(viol),
    }
    os.makedirs(os.path.join(VERIF, "evidence"), exist_ok=True)
    with open(os.path.join(VERIF, "evidence", f"{pid}.json"), "w") as fh:
        json.dump(ev, fh, indent=1, default=str)


if __name__ == "__main__":
    sys.exit(main())

"""gxstatic: repository-specific static analysis of femtomc/genjax (see /verif/DESIGN.md)."""

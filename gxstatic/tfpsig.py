"""Constructor signatures of the installed TFP (JAX substrate) distributions, read statically from the installed
package's *source* with ast (third-party code; nothing is imported).  Falls back to a frozen table (TFP 0.25)."""
from __future__ import annotations

import ast
import glob
import os
import re

FROZEN = {
    "Bernoulli": ["logits", "probs", "dtype", "validate_args", "allow_nan_stats", "name"],
    "Beta": ["concentration1", "concentration0", "validate_args", "allow_nan_stats", "force_probs_to_zero_outside_support", "name"],
    "Categorical": ["logits", "probs", "dtype", "force_probs_to_zero_outside_support", "validate_args", "allow_nan_stats", "name"],
    "Geometric": ["logits", "probs", "force_probs_to_zero_outside_support", "validate_args", "allow_nan_stats", "name"],
    "Normal": ["loc", "scale", "validate_args", "allow_nan_stats", "name"],
    "Uniform": ["low", "high", "validate_args", "allow_nan_stats", "name"],
    "Exponential": ["rate", "force_probs_to_zero_outside_support", "validate_args", "allow_nan_stats", "name"],
    "Poisson": ["rate", "log_rate", "force_probs_to_zero_outside_support", "validate_args", "allow_nan_stats", "name"],
    "MultivariateNormalFullCovariance": ["loc", "covariance_matrix", "validate_args", "allow_nan_stats", "name"],
    "MultivariateNormalDiag": ["loc", "scale_diag", "validate_args", "allow_nan_stats", "experimental_use_kahan_sum", "name"],
    "Dirichlet": ["concentration", "validate_args", "allow_nan_stats", "force_probs_to_zero_outside_support", "name"],
    "Binomial": ["total_count", "logits", "probs", "validate_args", "allow_nan_stats", "name"],
    "Gamma": ["concentration", "rate", "log_rate", "validate_args", "allow_nan_stats", "force_probs_to_zero_outside_support", "name"],
    "LogNormal": ["loc", "scale", "validate_args", "allow_nan_stats", "name"],
    "StudentT": ["df", "loc", "scale", "validate_args", "allow_nan_stats", "name"],
    "Laplace": ["loc", "scale", "validate_args", "allow_nan_stats", "name"],
    "HalfNormal": ["scale", "validate_args", "allow_nan_stats", "name"],
    "InverseGamma": ["concentration", "scale", "validate_args", "allow_nan_stats", "name"],
    "Weibull": ["concentration", "scale", "validate_args", "allow_nan_stats", "name"],
    "Cauchy": ["loc", "scale", "validate_args", "allow_nan_stats", "name"],
    "Chi2": ["df", "validate_args", "allow_nan_stats", "name"],
    "Multinomial": ["total_count", "logits", "probs", "validate_args", "allow_nan_stats", "name"],
    "NegativeBinomial": ["total_count", "logits", "probs", "validate_args", "allow_nan_stats", "require_integer_total_count", "name"],
    "Zipf": ["power", "dtype", "force_probs_to_zero_outside_support", "sample_maximum_iterations", "validate_args", "allow_nan_stats", "name"],
}


def find_pkg_dir():
    cands = glob.glob("/venv/lib/python*/site-packages/tensorflow_probability/substrates/jax/distributions")
    env = os.environ.get("GXSTATIC_TFP_DIR")
    if env:
        cands = [env] + cands
    for c in cands:
        if os.path.isdir(c):
            return c
    return None


def installed_signatures(names):
    """{class: [ctor params]} parsed from the installed source; (dict, origin string)."""
    d = find_pkg_dir()
    if d is None:
        return {n: FROZEN[n] for n in names if n in FROZEN}, "frozen table (TFP source not found)"
    out = {}
    index = {}
    pat = re.compile(r"^class\s+(\w+)\s*\(", re.M)
    for f in glob.glob(os.path.join(d, "*.py")):
        try:
            src = open(f, encoding="utf-8").read()
        except OSError:
            continue
        for m in pat.finditer(src):
            index.setdefault(m.group(1), f)
    for n in names:
        f = index.get(n)
        if f is None:
            continue
        try:
            tree = ast.parse(open(f, encoding="utf-8").read())
        except SyntaxError:
            continue
        for node in tree.body:
            if isinstance(node, ast.ClassDef) and node.name == n:
                init = [s for s in node.body if isinstance(s, ast.FunctionDef) and s.name == "__init__"]
                if init:
                    a = init[0].args
                    out[n] = [x.arg for x in a.posonlyargs + a.args if x.arg != "self"] + [x.arg for x in a.kwonlyargs]
    origin = f"parsed from {d}"
    for n in names:
        if n not in out and n in FROZEN:
            out[n] = FROZEN[n]
            origin += f"; {n} from frozen table"
    return out, origin

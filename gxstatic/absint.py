"""Finite-model evaluation of symbolic terms.

The symbolic evaluator (symeval) turns a function into terms and a guarded event log.  Many structural rules ask
"*which* container slot is written with *which* value, in each of a handful of situations?" (an empty / one-deep /
two-deep namespace stack; zero / one / several tagged values; a parameter present or absent).  Matching the term's
text makes such rules fire on behaviour-preserving rewrites (a helper extracted, `if p: f(p) else: root` collapsed into
`f(p)`, an if/else turned into early returns).  This module instead *evaluates the term* over a small model: chosen
sub-terms are bound to concrete Python shapes (tuples of opaque symbols, dicts, None, strings), everything the model
does not determine stays an opaque structural value, and Python's own semantics of len/tuple/list/indexing/slicing/
comparison/boolean operators/conditional expressions decide the rest.  It is an abstract interpretation of the
*analyser's terms* (never of repository code) over a finite domain; no repository code is imported or run.

Anything that cannot be decided raises Unknown; the calling rule turns that into an ANALYSIS-ERROR (exit 2), never
into a silent pass."""
from __future__ import annotations

from .symeval import is_const, subterms as _subterms


class Unknown(Exception):
    pass


class ModelError(Exception):
    """The modelled program itself fails in this model (e.g. jax.tree_util.tree_map over a tuple and a list)."""
    pass


class Opq:
    """Opaque structural value: equal iff built from equal parts; truthiness and length are not known."""
    __slots__ = ("parts",)

    def __init__(self, *parts):
        self.parts = parts

    def __eq__(self, o):
        return isinstance(o, Opq) and self.parts == o.parts

    def __ne__(self, o):
        return not self.__eq__(o)

    def __hash__(self):
        try:
            return hash(self.parts)
        except TypeError:
            return hash(repr(self.parts))

    def __repr__(self):
        return "‹" + " ".join(repr(p) if not isinstance(p, str) else p for p in self.parts) + "›"

    def __bool__(self):
        raise Unknown(f"truth value of {self!r}")


class Some(Opq):
    """Opaque value known to be truthy and not None (an object such as a registered rule)."""
    def __bool__(self):
        return True


class Atom(Opq):
    """Opaque value known not to be a container: isinstance(x, (list, tuple, dict)) is False."""
    pass


class Raised:
    """Result of evaluating a `raise` term."""
    def __init__(self, what):
        self.what = what

    def __repr__(self):
        return f"Raised({self.what!r})"


def truth(v):
    if isinstance(v, Some):
        return True
    if isinstance(v, Opq):
        raise Unknown(f"truth value of {v!r}")
    if isinstance(v, Raised):
        raise Unknown("truth value of a raise")
    return bool(v)


BUILTIN = "builtins."


class Model:
    """env: {term: python value}.  Terms are looked up before they are evaluated, so any sub-term (a parameter, an
    attribute chain, a call such as `eqn.primitive.get_bind_params(eqn.params)[1]`) can be given a concrete shape."""

    def __init__(self, env=None, funcs=None, evaluator=None):
        self.env = dict(env or {})
        self.funcs = dict(funcs or {})   # dotted name -> python callable on evaluated args (model of a repo helper)
        self.memo = {}
        self.evaluator = evaluator       # symbolic evaluator, needed only to apply local closures to model values
        self._fresh = 0

    # ------------------------------------------------------------------ closures and callables on model values
    def apply_value(self, f, args, kwargs=None):
        """Apply a model value that denotes a callable (local closure, modelled function, partial) to model values."""
        kwargs = kwargs or {}
        if callable(f) and not isinstance(f, Opq):
            return f(*args, **kwargs)
        if isinstance(f, Opq) and f.parts[:1] == ("closure",) and self.evaluator is not None:
            ph = []
            for a in args:
                self._fresh += 1
                t = ("param", f"__arg{self._fresh}")
                self.env[t] = a
                ph.append(t)
            kw = []
            for k, v in kwargs.items():
                self._fresh += 1
                t = ("param", f"__kw{self._fresh}")
                self.env[t] = v
                kw.append((k, t))
            self.memo.clear()
            r = self.evaluator.apply_closure(("closure", f.parts[1]), tuple(ph), tuple(kw))
            if r is None:
                raise Unknown("recursive closure")
            return self.ev(r)
        if isinstance(f, Opq) and f.parts[:1] == ("name",) and f.parts[1] in self.funcs:
            return self.funcs[f.parts[1]](*args, **kwargs)
        if isinstance(f, Opq) and f.parts[:1] == ("name",) and isinstance(f.parts[1], str) and f.parts[1].startswith("genjax.") and self.evaluator is not None:
            # a module-level repo function that is not modelled: its own definition is evaluated on the model values
            look = None
            try:
                look = self.evaluator.p.lookup(f.parts[1])
            except Exception:
                pass
            if look is not None and look[0] == "func" and len(getattr(self, "_applying", ())) < 6:
                ph = []
                for a in args:
                    self._fresh += 1
                    t = ("param", f"__arg{self._fresh}")
                    self.env[t] = a
                    ph.append(t)
                kw = []
                for k, v in kwargs.items():
                    self._fresh += 1
                    t = ("param", f"__kw{self._fresh}")
                    self.env[t] = v
                    kw.append((k, t))
                self.memo.clear()
                self._applying = getattr(self, "_applying", ()) + (f.parts[1],)
                try:
                    sm = self.evaluator.eval_funcnode(look[1], look[2], f.parts[1], args=tuple(ph), kwargs=tuple(kw))
                    return self.ev(sm.ret)
                finally:
                    self._applying = self._applying[:-1]
        if isinstance(f, Opq) and f.parts[:1] == ("partial",):
            return self.apply_value(f.parts[1], list(f.parts[2]) + list(args), kwargs)
        return Opq("call", f, tuple(args), tuple(sorted(kwargs.items(), key=lambda kv: kv[0])))

    # ------------------------------------------------------------------ pytrees of model values
    def children(self, v, is_leaf=None):
        """None if v is a leaf, else (list of children, rebuild function)."""
        if is_leaf is not None and truth(self.apply_value(is_leaf, [v])):
            return None
        if isinstance(v, list):
            return list(v), lambda xs: list(xs)
        if isinstance(v, tuple):
            return list(v), lambda xs: tuple(xs)
        if isinstance(v, dict):
            ks = sorted(v, key=repr)
            return [v[k] for k in ks], lambda xs: dict(zip(ks, xs))
        if v is None:
            return [], lambda xs: None
        if hasattr(v, "tree_children"):
            return v.tree_children()
        return None

    def tree_flatten(self, v, is_leaf=None):
        ch = self.children(v, is_leaf)
        if ch is None:
            return [v]
        out = []
        for c in ch[0]:
            out.extend(self.tree_flatten(c, is_leaf))
        return out

    def tree_map(self, f, trees, is_leaf=None):
        ch = self.children(trees[0], is_leaf)
        if ch is None:
            return f(*trees)
        kids, rebuild = ch
        others = []
        for t in trees[1:]:
            c2 = self.children(t, None)
            if c2 is None or len(c2[0]) != len(kids):
                raise ModelError(f"tree_map over trees of different structure: {trees[0]!r} vs {t!r}")
            if type(t) is not type(trees[0]) and isinstance(t, (list, tuple, dict)):
                raise ModelError(f"tree_map: pytree structure error, {type(trees[0]).__name__} vs {type(t).__name__}")
            others.append(c2[0])
        return rebuild([self.tree_map(f, [kids[i]] + [o[i] for o in others], is_leaf) for i in range(len(kids))])

    def bind(self, t, v):
        self.env[t] = v
        self.memo.clear()

    def ev(self, t):
        if t[0] == "const":
            return t[1]   # never through the memo: ('const', 0) == ('const', False) in Python
        try:
            if t in self.env:
                return self.env[t]
        except TypeError:
            pass
        try:
            if t in self.memo:
                return self.memo[t]
        except TypeError:
            return self._ev(t)
        v = self._ev(t)
        self.memo[t] = v
        return v

    def truth(self, t):
        return truth(self.ev(t))

    # ------------------------------------------------------------------
    def seq(self, elts):
        out = []
        for x in elts:
            if x[0] == "star":
                v = self.ev(x[1])
                if isinstance(v, (Opq, Raised)) or not isinstance(v, (list, tuple, dict)):
                    raise Unknown(f"splat of {v!r}")
                out.extend(v)
            else:
                out.append(self.ev(x))
        return out

    def _ev(self, t):
        h = t[0]
        if h == "const":
            return t[1]
        if h in ("name", "param", "closure"):
            return Opq(*t)
        if h == "tuple":
            return tuple(self.seq(t[1]))
        if h == "list":
            return list(self.seq(t[1]))
        if h == "dict":
            d = {}
            for k, v in t[1]:
                if k is None or (isinstance(k, tuple) and k and k[0] == "star"):
                    raise Unknown("dict splat")
                d[self.ev(k)] = self.ev(v)
            return d
        if h == "ifexp":
            return self.ev(t[2]) if self.truth(t[1]) else self.ev(t[3])
        if h == "boolop":
            vals = t[2]
            if t[1] == "and":
                v = True
                for x in vals:
                    v = self.ev(x)
                    if not truth(v):
                        return v
                return v
            v = False
            for x in vals:
                v = self.ev(x)
                if truth(v):
                    return v
            return v
        if h == "unop":
            v = self.ev(t[2])
            if t[1] == "not":
                return not truth(v)
            if isinstance(v, (int, float)) and not isinstance(v, bool):
                return {"-": -v, "+": +v}.get(t[1], Opq("unop", t[1], v))
            return Opq("unop", t[1], v)
        if h == "cmp":
            return self.cmp(t[1], self.ev(t[2]), self.ev(t[3]))
        if h == "binop":
            a, b = self.ev(t[2]), self.ev(t[3])
            return self.binop(t[1], a, b)
        if h == "attr":
            base = self.ev(t[1])
            if hasattr(base, "model_attrs") and t[2] in base.model_attrs:
                return base.model_attrs[t[2]]
            return Opq("attr", base, t[2])
        if h == "rest":
            base = self.ev(t[1])
            if isinstance(base, (list, tuple)):
                return base[t[2]:]
            raise Unknown(f"rest of {base!r}")
        if h == "idx":
            base = self.ev(t[1])
            if t[2][0] == "slice":
                lo, hi, st = (self.ev(x) for x in t[2][1:])
                if isinstance(base, (list, tuple, str)) and all(x is None or isinstance(x, int) for x in (lo, hi, st)):
                    return base[slice(lo, hi, st)]
                return Opq("slice", base, lo, hi, st)
            i = self.ev(t[2])
            if isinstance(base, (list, tuple, str)) and isinstance(i, int) and not isinstance(i, bool):
                try:
                    return base[i]
                except IndexError:
                    return Raised("IndexError")
            if isinstance(base, dict):
                try:
                    return base[i] if i in base else Raised("KeyError")
                except TypeError:
                    raise Unknown("unhashable key")
            return Opq("idx", base, i)
        if h == "raise":
            return Raised(t[1])
        if h == "call":
            return self.call(t)
        if h == "partial":
            return Opq("partial", self.ev(t[1]), tuple(self.ev(x) for x in t[2]))
        if h == "stack":
            return stacked(self.ev(t[2]))
        if h == "treemap":
            return self.treemap(t)
        if h == "comp":
            return self.comp(t)
        # summaries (scan/lanes/loopres/…) are opaque but structural
        return Opq("term", t)

    def treemap(self, t):
        tid, body = t[1], t[2]
        rec = self.evaluator.treemaps.get(tid) if self.evaluator is not None else None
        if rec is None:
            raise Unknown("tree_map summary without its record")
        leafterms = list(dict.fromkeys(x for x in _subterms(body) if x[0] == "leaf" and x[1] == tid))
        trees = [self.ev(x[2]) for x in leafterms]
        if not trees:
            # the mapped function ignores its leaves: the structure comes from the first mapped tree
            trees = [self.ev(rec["trees"][0])]
        il = None
        for k, v in rec.get("kwargs") or ():
            if k == "is_leaf":
                il = self.ev(v)

        def f(*leaves):
            for lt, lv in zip(leafterms, leaves):
                self.env[lt] = lv
            self.memo.clear()
            return self.ev(body)
        try:
            return self.tree_map(f, trees, il)
        finally:
            for lt in leafterms:
                self.env.pop(lt, None)
            self.memo.clear()

    def comp(self, t):
        kind, vals, gens = t[1], t[2], t[3]
        out = []

        def rec(i):
            if i == len(gens):
                self.memo.clear()
                out.append(tuple(self.ev(v) for v in vals))
                return
            lid, it, conds = gens[i]
            seq = self.ev(it)
            if isinstance(seq, dict):
                seq = list(seq)
            if not isinstance(seq, (list, tuple)):
                raise Unknown(f"comprehension over {seq!r}")
            key = ("iter", lid, it)
            for x in seq:
                self.env[key] = x
                self.memo.clear()
                if all(self.truth(c) for c in conds):
                    rec(i + 1)
            self.env.pop(key, None)
            self.memo.clear()
        rec(0)
        if kind == "dict":
            return {k: v for k, v in out}
        seq = [x[0] for x in out]
        return seq if kind in ("list", "gen") else (set(seq) if kind == "set" else seq)

    def cmp(self, op, a, b):
        if isinstance(a, Raised) or isinstance(b, Raised):
            raise Unknown("comparison with a raise")
        if op in ("is", "is not"):
            if a is None or b is None or isinstance(a, bool) or isinstance(b, bool):
                if isinstance(a, (Some, Atom)) or isinstance(b, (Some, Atom)):
                    return op == "is not"
                if isinstance(a, Opq) or isinstance(b, Opq):
                    raise Unknown(f"identity test on {a!r}, {b!r}")
                r = a is b
            elif isinstance(a, Opq) and isinstance(b, Opq):
                r = a == b
            else:
                raise Unknown(f"identity test on {a!r}, {b!r}")
            return r if op == "is" else not r
        if op in ("==", "!="):
            if isinstance(a, Opq) != isinstance(b, Opq):
                # an opaque symbol never equals a model constant chosen by the rule (strings, None, ints): the rule's
                # models bind every term whose equality with a constant matters
                r = False
            else:
                r = a == b
            return r if op == "==" else not r
        if op in ("in", "not in"):
            if isinstance(b, Opq):
                raise Unknown(f"membership in {b!r}")
            r = a in b
            return r if op == "in" else not r
        if isinstance(a, Opq) or isinstance(b, Opq):
            raise Unknown(f"ordering of {a!r}, {b!r}")
        try:
            return {"<": a < b, "<=": a <= b, ">": a > b, ">=": a >= b}[op]
        except (KeyError, TypeError):
            raise Unknown(f"comparison {op}")

    def binop(self, op, a, b):
        if isinstance(a, Raised) or isinstance(b, Raised):
            raise Unknown("arithmetic on a raise")
        conc = lambda x: not isinstance(x, Opq)
        if conc(a) and conc(b):
            try:
                if op == "+":
                    if isinstance(a, (list, tuple)) and isinstance(b, (list, tuple)) and type(a) is not type(b):
                        raise ModelError(f"TypeError: can only concatenate {type(a).__name__} (not {type(b).__name__!r}) to {type(a).__name__}")
                    return a + b
                if op == "-":
                    return a - b
                if op == "*":
                    return a * b
                if op == "//":
                    return a // b
                if op == "%":
                    return a % b
            except TypeError as e:
                # both operands are fully concrete model values: Python itself rejects the operation (e.g. tuple + int)
                def concrete(x):
                    if isinstance(x, (list, tuple)):
                        return all(concrete(y) for y in x)
                    return x is None or isinstance(x, (int, float, str, bool))
                if concrete(a) and concrete(b):
                    raise ModelError(f"TypeError: {e} ({a!r} {op} {b!r})")
                raise Unknown(f"{op} on {a!r}, {b!r}")
        return Opq("binop", op, a, b)

    def args_of(self, t):
        args = self.seq(t[2])
        kwargs = {}
        for k, v in t[3]:
            if k is None:
                d = self.ev(v)
                if not isinstance(d, dict):
                    raise Unknown(f"** of {d!r}")
                kwargs.update(d)
            else:
                kwargs[k] = self.ev(v)
        return args, kwargs

    def dotted_of(self, fn):
        parts = []
        while fn[0] == "attr":
            parts.append(fn[2])
            fn = fn[1]
        if fn[0] == "name":
            return ".".join([fn[1]] + parts[::-1])
        return None

    def call(self, t):
        fn = t[1]
        try:
            bound = self.env.get(fn)
        except TypeError:
            bound = None
        if bound is not None and (callable(bound) or isinstance(bound, Opq)):
            args, kwargs = self.args_of(t)
            return self.apply_value(bound, args, kwargs)
        # method calls on modelled containers
        if fn[0] == "attr":
            d = self.dotted_of(fn)
            if d is not None and d in self.funcs:
                args, kwargs = self.args_of(t)
                return self.funcs[d](*args, **kwargs)
            base = self.ev(fn[1])
            if isinstance(base, dict) and fn[2] in ("get", "items", "keys", "values"):
                args, kwargs = self.args_of(t)
                if fn[2] == "get":
                    return base.get(args[0], args[1] if len(args) > 1 else None)
                return {"items": lambda: tuple(base.items()), "keys": lambda: tuple(base.keys()), "values": lambda: tuple(base.values())}[fn[2]]()
            try:
                args, kwargs = self.args_of(t)
            except Unknown:
                return Opq("term", t)
            return Opq("call", Opq("attr", base, fn[2]), tuple(args), tuple(sorted(kwargs.items(), key=lambda kv: kv[0])))
        if fn[0] == "name":
            nm = fn[1]
            if nm in self.funcs:
                args, kwargs = self.args_of(t)
                if kwargs and self.evaluator is not None and nm.startswith("genjax."):
                    # a modelled repo function called by keyword: keywords continuing the positional prefix are positional arguments
                    # (the real signature decides the order), so the model of the function sees one calling convention
                    import ast as _ast
                    try:
                        look = self.evaluator.p.lookup(nm)
                    except Exception:
                        look = None
                    if look is not None and look[0] in ("func", "method") and isinstance(look[1], _ast.FunctionDef):
                        fields = [a.arg for a in look[1].args.args]
                        static = any(isinstance(d, _ast.Name) and d.id == "staticmethod" for d in look[1].decorator_list)
                        if look[0] == "method" and not static and fields and fields[0] in ("self", "cls"):
                            fields = fields[1:]
                        args = list(args)
                        for f_ in fields[len(args):]:
                            if f_ in kwargs:
                                args.append(kwargs.pop(f_))
                            else:
                                break
                return self.funcs[nm](*args, **kwargs)
            if nm.startswith(BUILTIN):
                b = nm[len(BUILTIN):]
                args, kwargs = self.args_of(t)
                if any(isinstance(a, Raised) for a in args):
                    raise Unknown("builtin applied to a raise")
                a0 = args[0] if args else None
                if b == "len":
                    if isinstance(a0, Opq):
                        raise Unknown(f"len of {a0!r}")
                    return len(a0)
                if b in ("tuple", "list"):
                    if not args:
                        return () if b == "tuple" else []
                    if isinstance(a0, Opq):
                        return Opq(b, a0)
                    return tuple(a0) if b == "tuple" else list(a0)
                if b == "bool":
                    return truth(a0)
                if b == "isinstance":
                    classes = args[1] if isinstance(args[1], tuple) else (args[1],)
                    names = {c.parts[1].split(".")[-1] for c in classes if isinstance(c, Opq) and c.parts and c.parts[0] == "name"}
                    if hasattr(a0, "model_class"):
                        return a0.model_class in names
                    if isinstance(a0, Atom):
                        return False   # an atom is an opaque array-like leaf: no container, no repository class
                    if isinstance(a0, Opq):
                        raise Unknown(f"isinstance of {a0!r}")
                    py = {"tuple": tuple, "list": list, "dict": dict, "int": int, "str": str, "bool": bool, "float": float}
                    if not names <= set(py):
                        if names & set(py):
                            raise Unknown(f"isinstance against {names}")
                        return False   # a concrete model container/scalar is not an instance of a repository class
                    return isinstance(a0, tuple(py[n] for n in names))
                if b in ("any", "all") and isinstance(a0, (list, tuple)):
                    return (any if b == "any" else all)(truth(x) for x in a0)
                if b == "range" and all(isinstance(x, int) for x in args):
                    return tuple(range(*args))
                if b == "reversed" and isinstance(a0, (list, tuple)):
                    return list(reversed(a0))
                if b == "enumerate" and isinstance(a0, (list, tuple)):
                    return [(i, x) for i, x in enumerate(a0)]
                if b == "zip" and all(isinstance(x, (list, tuple)) for x in args):
                    return [tuple(x) for x in zip(*args)]
                if b == "map" and all(isinstance(x, (list, tuple)) for x in args[1:]):
                    return [self.apply_value(a0, list(xs)) for xs in zip(*args[1:])]
                if b == "dict" and not args:
                    return dict(kwargs)
                if b in ("ValueError", "TypeError", "KeyError", "RuntimeError", "NotImplementedError", "Exception", "AssertionError"):
                    return Opq("exc", b)
            if nm == "itertools.chain":
                args, kwargs = self.args_of(t)
                out = []
                for a in args:
                    if not isinstance(a, (list, tuple)):
                        raise Unknown(f"chain over {a!r}")
                    out.extend(a)
                return out
            if nm == "functools.partial":
                args, kwargs = self.args_of(t)
                if not kwargs:
                    return Opq("partial", args[0], tuple(args[1:]))
            if nm.startswith("genjax.") and self.evaluator is not None and (nm.rsplit(".", 1)[-1].startswith("_")
                                                                            or any(part.startswith("_") for part in nm.split(".")[1:-1])):
                # an unmodelled private module-level helper: evaluated from its own definition on the model values
                try:
                    look = self.evaluator.p.lookup(nm)
                except Exception:
                    look = None
                if look is not None and look[0] == "func":
                    args, kwargs = self.args_of(t)
                    return self.apply_value(Opq("name", nm), list(args), kwargs)
        try:
            args, kwargs = self.args_of(t)
        except Unknown:
            return Opq("term", t)
        f = self.ev(fn)
        if callable(f) and not isinstance(f, Opq):
            return f(*args, **kwargs)
        if isinstance(f, Opq) and f.parts[:1] in (("closure",), ("partial",)) and (self.evaluator is not None or f.parts[:1] == ("partial",)):
            return self.apply_value(f, args, kwargs)
        try:
            return Opq("call", f, tuple(args), tuple(sorted(kwargs.items(), key=lambda kv: kv[0])))
        except TypeError:
            return Opq("term", t)

    # ------------------------------------------------------------------ guards
    def live(self, guards):
        """Is an event with this guard stack executed in this model?  Loop markers are skipped."""
        for c, v in guards:
            if not isinstance(c, tuple) or not c or c[0] == "loop":
                continue
            if self.truth(c) != bool(v):
                return False
        return True


class TreeDef:
    """Model tree definition: 'args' -> tuple of leaves, 'kwargs' -> (tuple(leaves[:-1]), {'kw': leaves[-1]}), 'single' -> the bare leaf,
    'out' -> the bare leaf for one leaf, else a tuple."""
    def __init__(self, kind, template=None):
        self.kind = kind
        self.template = template      # kind 'tmpl': a nested tuple/list/dict whose int leaves index the flat leaves

    def __repr__(self):
        return f"treedef<{self.kind}>" if self.template is None else f"treedef<{self.template!r}>"

    def unflatten(self, leaves):
        leaves = list(leaves)
        if self.kind == "tmpl":
            def build(t):
                if isinstance(t, dict):
                    return {k: build(v) for k, v in t.items()}
                if isinstance(t, (list, tuple)):
                    return type(t)(build(v) for v in t)
                return leaves[t]
            return build(self.template)
        if self.kind == "args":
            return tuple(leaves)
        if self.kind == "args_none":     # the call f(None, leaf0, leaf1): a positional placeholder with no leaves
            return (None,) + tuple(leaves)
        if self.kind == "kwargs":
            return (tuple(leaves[:-1]), {"kw": leaves[-1]})
        if self.kind == "single":
            return leaves[0]
        if self.kind == "out":
            return tuple(leaves) if len(leaves) != 1 else leaves[0]
        raise Unknown("treedef")


def stacked(v):
    """Value of scan's stacked output whose per-iteration value is v (leaf-wise)."""
    if isinstance(v, list):
        return [stacked(x) for x in v]
    if isinstance(v, tuple):
        return tuple(stacked(x) for x in v)
    if isinstance(v, dict):
        return {k: stacked(x) for k, x in v.items()}
    return Opq("stacked", v)


def freeze(v):
    """Hashable / comparable rendering of a model value (lists and tuples are distinguished)."""
    if isinstance(v, list):
        return ("L",) + tuple(freeze(x) for x in v)
    if isinstance(v, tuple):
        return ("T",) + tuple(freeze(x) for x in v)
    if isinstance(v, dict):
        return ("D",) + tuple((freeze(k), freeze(x)) for k, x in v.items())
    return v


def run_mutations(m, events, target):
    """Replay, in program order, the live calls that read or mutate the dict bound to `target` (get/pop/setdefault/update/`del d[k]`/
    `d[k] = v`) on the model's own dict object, binding each such call term to the value it produced at that moment."""
    d = m.env[target]
    for g, k, pl, ln, q in events:
        try:
            if not m.live(g):
                continue
        except Unknown:
            continue
        if k == "call" and pl[1][0] == "attr" and pl[1][1] == target:
            meth = pl[1][2]
            args, kwargs = m.args_of(pl)
            if meth == "pop":
                if args[0] in d:
                    v = d.pop(args[0])
                elif len(args) > 1:
                    v = args[1]
                else:
                    v = Raised("KeyError")
            elif meth == "get":
                v = d.get(args[0], args[1] if len(args) > 1 else None)
            elif meth == "setdefault":
                v = d.setdefault(args[0], args[1] if len(args) > 1 else None)
            elif meth == "update":
                d.update(*args, **kwargs)
                v = None
            else:
                continue
            m.bind(pl, v)
        elif k == "delete" and pl[0] == "idx" and pl[1] == target:
            d.pop(m.ev(pl[2]), None)
            m.memo.clear()
        elif k == "store" and pl[0][0] == "idx" and pl[0][1] == target:
            d[m.ev(pl[0][2])] = m.ev(pl[1])
            m.memo.clear()

"""Mutant table for rule self-validation (see mutate.py).  Each mutant is a single-site, still-compiling edit of
src/genjax that breaks the named properties; the named checks must exit 1 on it."""

CORE = "src/genjax/core.py"
MCMC = "src/genjax/inference/mcmc.py"
SMC = "src/genjax/inference/smc.py"
VI = "src/genjax/inference/vi.py"
PJAX = "src/genjax/pjax.py"
STATE = "src/genjax/state.py"
ADEV = "src/genjax/adev/__init__.py"
SS = "src/genjax/extras/state_space.py"
DISTS = "src/genjax/distributions.py"


def M(id, file, old, new, props, occ=None):
    d = dict(id=id, file=file, old=old, new=new, props=props)
    if occ is not None:
        d["occ"] = occ
    return d


MUTANTS = [
    # ---------------- Distribution
    M("dist-sim-sign", CORE, "return Tr(self, (args, kwargs), x, x, -log_density)", "return Tr(self, (args, kwargs), x, x, log_density)", ["C01", "C05"]),
    M("dist-sim-args", CORE, "log_density = self.logpdf(x, *args, **kwargs)\n        return Tr(self, (args, kwargs), x, x, -log_density)",
      "log_density = self.logpdf(x, *args)\n        return Tr(self, (args, kwargs), x, x, -log_density)", ["C01"]),
    M("dist-assess-retval", CORE, "logp = self.logpdf(x, *args, **kwargs)\n        return logp, x", "logp = self.logpdf(x, *args, **kwargs)\n        return -logp, x", ["C01"]),
    M("dist-gen-weight", CORE, "return Tr(self, (args, kwargs), x, x, -logp), logp", "return Tr(self, (args, kwargs), x, x, -logp), -logp", ["C02"]),
    M("dist-gen-none-weight", CORE, "tr = self.simulate(*args, **kwargs)\n            return tr, jnp.array(0.0)\n        else:\n            logp, r",
      "tr = self.simulate(*args, **kwargs)\n            return tr, -tr.get_score()\n        else:\n            logp, r", ["C02"]),
    M("dist-upd-weight", CORE, "log_density_ + tr.get_score(),\n                tr.get_retval(),\n            )\n        else:", "log_density_ - tr.get_score(),\n                tr.get_retval(),\n            )\n        else:", ["C03", "C05"]),
    M("dist-upd-discard", CORE, "log_density_ + tr.get_score(),\n                tr.get_retval(),\n            )\n\n    def regenerate", "log_density_ + tr.get_score(),\n                x_,\n            )\n\n    def regenerate", ["C03"]),
    M("dist-regen-weight", CORE, "return tr_, jnp.array(0.0), get_choices(tr)", "return tr_, tr.get_score() - tr_.get_score(), get_choices(tr)", ["C04"]),
    M("dist-regen-polarity", CORE, "if () in s:", "if () not in s:", ["C04", "C16"]),
    M("dist-regen-unsel-args", CORE, "log_density_ = self.logpdf(get_choices(tr), *args, **kwargs)", "log_density_ = self.logpdf(get_choices(tr), *tr.get_args()[0], **kwargs)", ["C04"]),
    # ---------------- handlers
    M("sim-handler-score", CORE, "tr = gen_fn.simulate(*args, **kwargs)\n        self.score += tr.get_score()", "tr = gen_fn.simulate(*args, **kwargs)\n        self.score = tr.get_score()", ["C01"]),
    M("sim-handler-nocheck", CORE, "        # Check for address collision\n        _check_address_collision(addr, self.trace_map, self.parent_fn or gen_fn)\n\n        tr = gen_fn.simulate", "        tr = gen_fn.simulate", ["C01"]),
    M("assess-handler-logp", CORE, "self.logp += logp\n        return r", "self.logp = logp\n        return r", ["C01"]),
    M("collision-no-raise", CORE, "    if addr in trace_map:\n        # Get location", "    if addr in trace_map and gen_fn is None:\n        # Get location", ["C01"]),
    M("gen-handler-weight", CORE, "self.weight += weight\n        self.trace_map[addr] = tr", "self.weight += weight + tr.get_score()\n        self.trace_map[addr] = tr", ["C02"]),
    M("upd-handler-subtrace", CORE, "tr, w, discard = gen_fn.update(subtrace, x, *args_, **kwargs)", "tr, w, discard = gen_fn.update(self.trace, x, *args_, **kwargs)", ["C03"]),
    M("upd-handler-discard", CORE, "self.trace_map[addr] = tr\n        self.discard[addr] = discard\n        self.score += tr.get_score()\n        self.weight += w\n        return tr.get_retval()\n\n\n@dataclass\nclass Regenerate",
      "self.trace_map[addr] = tr\n        self.discard[addr] = x\n        self.score += tr.get_score()\n        self.weight += w\n        return tr.get_retval()\n\n\n@dataclass\nclass Regenerate", ["C03"]),
    M("regen-handler-sel", CORE, "tr, w, discard = gen_fn.regenerate(subtrace, subsel, *args_, **kwargs)", "tr, w, discard = gen_fn.regenerate(subtrace, self.s, *args_, **kwargs)", ["C04"]),
    # ---------------- Fn
    M("fn-sim-stale-score", CORE, "handler_stack.append(Simulate(jnp.array(0.0), {}, self))", "handler_stack.append(Simulate(jnp.array(1.0), {}, self))", ["C01"]),
    M("fn-assess-shared-set", CORE, "handler_stack.append(Assess(x, jnp.array(0.0), set(), self))", "handler_stack.append(Assess(x, jnp.array(0.0), _SHARED, self))\n        r = None", ["C01"]),
    M("fn-gen-none", CORE, "        if x is None:\n            tr = self.simulate(*args, **kwargs)\n            return tr, jnp.array(0.0)\n        else:\n            handler_stack.append(Generate(",
      "        if x is None:\n            tr = self.simulate(*args, **kwargs)\n            return tr, tr.get_score()\n        else:\n            handler_stack.append(Generate(", ["C02"]),
    M("fn-upd-weight", CORE, "return Tr(self, (args, kwargs), trace_map, r, score), w, discard\n\n    def regenerate", "return Tr(self, (args, kwargs), trace_map, r, score), -w, discard\n\n    def regenerate", ["C03"]),
    M("fn-regen-retval", CORE, "        r = self.source.value(*args, **kwargs)\n        handler = handler_stack.pop()\n        assert isinstance(handler, Regenerate)", "        r = self.source.value(*args, **kwargs)\n        handler = handler_stack.pop()\n        r = tr.get_retval()\n        assert isinstance(handler, Regenerate)", ["C04", "C05"]),
    # ---------------- Vmap
    M("vmap-gen-nosum", CORE, "return tr, jnp.sum(w)", "return tr, w", ["C02"]),
    M("vmap-assess-axes", CORE, "in_axes = (0,) + (None,) * len(args)\n        else:\n            in_axes = (0,) + self.in_axes.value\n        density, retval", "in_axes = (None,) + (None,) * len(args)\n        else:\n            in_axes = (None,) + self.in_axes.value\n        density, retval", ["C01"]),
    M("vmap-upd-axes", CORE, "in_axes = (0, 0) + self.in_axes.value", "in_axes = (0, None) + self.in_axes.value", ["C03"]),
    M("vmap-regen-sel-axis", CORE, "in_axes = (0, None) + self.in_axes.value", "in_axes = (0, 0) + self.in_axes.value", ["C04"]),
    M("vmap-sim-axissize", CORE, "            self.gen_fn.simulate,\n            in_axes=self.in_axes.value,\n            axis_size=self.axis_size.value,", "            self.gen_fn.simulate,\n            in_axes=self.in_axes.value,", ["C01"]),
    # ---------------- Scan
    M("scan-sim-carry", CORE, "new_carry = trace.get_retval()[0]  # (C, Out) -> C", "new_carry = carry  # (C, Out) -> C", ["C01"]),
    M("scan-sim-out", CORE, "out = trace.get_retval()[1]  # (C, Out) -> Out", "out = trace.get_retval()[0]  # (C, Out) -> Out", ["C01"]),
    M("scan-gen-weight", CORE, "total_weight = jnp.sum(weights)\n\n        return ScanTr(\n            self, (args, kwargs), traces, final_carry, scanned_outs\n        ), total_weight", "total_weight = weights[-1]\n\n        return ScanTr(\n            self, (args, kwargs), traces, final_carry, scanned_outs\n        ), total_weight", ["C02"]),
    M("scan-assess-argorder", CORE, "x, carry, scanned_args, **kwargs\n            )", "x, scanned_args, carry, **kwargs\n            )", ["C01"]),
    M("scan-upd-oldtrace", CORE, "old_trace, new_choice, carry, input_x, **kwargs", "old_trace, new_choice, input_x, carry, **kwargs", ["C03"]),
    M("scan-regen-init", CORE, "scan_fn, init_carry, scan_inputs, length=self.length.value\n        )", "scan_fn, xs, scan_inputs, length=self.length.value\n        )", ["C04"]),
    M("scan-sim-length", CORE, "            scan_fn,\n            init_carry,\n            xs,\n            length=self.length.value,\n        )", "            scan_fn,\n            init_carry,\n            xs,\n        )", ["C01"]),
    # ---------------- Cond
    M("cond-assess-swap", CORE, "total_density = jnp.where(check, logp, logp_)", "total_density = jnp.where(check, logp_, logp)", ["C01"]),
    M("cond-assess-retval", CORE, "retval = jnp.where(check, r, r_)", "retval = jnp.where(check, r, r)", ["C01"]),
    M("cond-sim-order", CORE, "tr_ = self.callee_.simulate(*rest_args, **kwargs)\n        return CondTr(self, check, [tr, tr_])", "tr_ = self.callee_.simulate(*rest_args, **kwargs)\n        return CondTr(self, check, [tr_, tr])", ["C01"]),
    M("cond-sim-args", CORE, "tr = self.callee.simulate(*rest_args, **kwargs)\n        tr_ = self.callee_.simulate(*rest_args, **kwargs)\n        return CondTr(self, check, [tr, tr_])\n\n    def assess",
      "tr = self.callee.simulate(*args, **kwargs)\n        tr_ = self.callee_.simulate(*rest_args, **kwargs)\n        return CondTr(self, check, [tr, tr_])\n\n    def assess", ["C01"]),
    M("condtr-score-swap", CORE, "return jnp.where(self.check, *map(get_score, self.trs))", "return jnp.where(self.check, *map(get_score, reversed(self.trs)))", ["C01", "C05"]),
    M("condtr-choices-swap", CORE, "chm, chm_ = map(get_choices, self.trs)\n\n        # Use merge with check parameter for conditional selection\n        merged, _ = self.gen_fn.merge(chm, chm_, self.check)",
      "chm, chm_ = map(get_choices, self.trs)\n\n        # Use merge with check parameter for conditional selection\n        merged, _ = self.gen_fn.merge(chm_, chm, self.check)", ["C01"]),
    M("cond-gen-weight", CORE, "total_weight = jnp.where(check, w, w_)", "total_weight = jnp.where(check, w, w)", ["C02"]),
    M("cond-upd-weight-old", CORE, "tr.get_score() - new_cond_tr.get_score(),", "jnp.where(check, w, w_),", ["C03", "C05"]),
    M("cond-upd-discard-nocheck", CORE, "merged_discard, _ = self.callee.merge(discard, discard_, tr.check)\n        new_cond_tr", "merged_discard, _ = self.callee.merge(discard, discard_, check)\n        new_cond_tr", ["C03"]),
    M("cond-regen-weight-old", CORE, "jnp.where(check, w, w_) + tr.get_score() - old_score_of_new_branch,", "jnp.where(check, w, w_),", ["C09", "C05"]),
    M("cond-regen-discard", CORE, "merged_discard, _ = self.callee.merge(discard, discard_, tr.check)\n        # Each branch", "merged_discard, _ = self.callee.merge(discard, discard_)\n        # Each branch", ["C04"]),
    M("dist-merge-swap", CORE, "merged = jtu.tree_map(lambda v1, v2: jnp.where(check, v1, v2), x, x_)", "merged = jtu.tree_map(lambda v1, v2: jnp.where(check, v2, v1), x, x_)", ["C01", "C16"]),
    M("fn-merge-precedence", CORE, "result[key] = val_x_\n                        discarded[key] = val_x", "result[key] = val_x\n                        discarded[key] = val_x_", ["C16"]),
    M("fn-merge-where-swap", CORE, "lambda v1, v2: jnp.where(check, v1, v2), val_x, val_x_", "lambda v1, v2: jnp.where(check, v1, v2), val_x_, val_x", ["C01", "C16"]),
    M("tr-get-score-nosum", CORE, "        if jnp.shape(self._score):\n            return jnp.sum(self._score)\n        else:\n            return self._score", "        return self._score", ["C01"]),
    M("condtr-getargs", CORE, "return ((self.check, *rest_args), kwargs)", "return (self.check, *self.trs[0].get_args())", ["C05"]),
    # ---------------- selections
    M("strsel-neq", CORE, "check = addr == self.s.value\n        return check, AllSel() if check else NoneSel()", "check = addr == self.s.value\n        return check, AllSel()", ["C16", "C04"]),
    M("tuplesel-rest", CORE, "return True, TupleSel(const(path[1:]))", "return True, TupleSel(const(path))", ["C16", "C04"]),
    M("tuplesel-len1", CORE, "        if len(path) == 1:\n            # Single element tuple behaves like StrSel\n            check = addr == path[0]\n            return check, AllSel() if check else NoneSel()",
      "        if len(path) == 1:\n            # Single element tuple behaves like StrSel\n            check = addr == path[0]\n            return check, NoneSel()", ["C16"]),
    M("complsel-rest", CORE, "return not check, ComplSel(rest)", "return not check, rest", ["C16", "C04"]),
    M("insel-or", CORE, "return check1 and check2, InSel(r1, r2)", "return check1 or check2, InSel(r1, r2)", ["C16"]),
    M("insel-rest", CORE, "return check1 and check2, InSel(r1, r2)", "return check1 and check2, OrSel(r1, r2)", ["C16", "C04"]),
    M("dictsel-miss", CORE, "return check, self.d[addr] if check else NoneSel()", "return check, self.d[addr] if check else AllSel()", ["C16"]),
    M("sel-xor-op", CORE, "return Selection(InSel(self, other))", "return Selection(OrSel(self, other))", ["C16"]),
    M("sel-empty-tuple", CORE, "        if v[0] == ():\n            return Selection(AllSel())", "        if v[0] == ():\n            return Selection(NoneSel())", ["C16"]),
    M("dist-filter-swap", CORE, "        if is_selected:\n            return x, None\n        else:\n            return None, x", "        if is_selected:\n            return None, x\n        else:\n            return x, None", ["C16"]),
    M("fn-filter-drop", CORE, "                    if unselected_sub is not None:\n                        unselected[addr] = unselected_sub\n                        found_unselected = True\n", "", ["C16"]),
    M("vmap-filter-axes", CORE, "            self.gen_fn.filter,\n            in_axes=(0, None),", "            self.gen_fn.filter,\n            in_axes=(0, 0),", ["C16"]),
    # ---------------- mcmc kernels
    M("mh-accept-flip", MCMC, "accept = log_u < log_alpha\n\n    # Use tree_map to apply select across all leaves of the traces", "accept = log_u > log_alpha\n\n    # Use tree_map to apply select across all leaves of the traces", ["C09"]),
    M("mh-select-swap", MCMC, "lambda new_leaf, old_leaf: jax.lax.select(accept, new_leaf, old_leaf),\n        new_trace,\n        current_trace,", "lambda new_leaf, old_leaf: jax.lax.select(accept, old_leaf, new_leaf),\n        new_trace,\n        current_trace,", ["C09", "C05"]),
    M("mh-no-min", MCMC, "log_alpha = jnp.minimum(0.0, log_weight)", "log_alpha = jnp.maximum(0.0, log_weight)", ["C09"]),
    M("mala-drift", MCMC, "        drift = (step_size**2 / 2.0) * grad_val\n\n        # Gaussian noise term", "        drift = (step_size / 2.0) * grad_val\n\n        # Gaussian noise term", ["C09"]),
    M("mala-ratio-sign", MCMC, "log_alpha = model_weight + backward_log_prob_total - forward_log_prob_total", "log_alpha = model_weight + forward_log_prob_total - backward_log_prob_total", ["C09"]),
    M("mala-backward-grad", MCMC, "backward_gradients = jax.grad(log_density_wrt_selected)(proposed_selected)", "backward_gradients = jax.grad(log_density_wrt_selected)(selected_choices)", ["C09"]),
    M("mala-backward-args", MCMC, "        mala_log_prob_fn,\n        proposed_selected,\n        discarded_selected,\n        backward_gradients,", "        mala_log_prob_fn,\n        discarded_selected,\n        proposed_selected,\n        backward_gradients,", ["C09"]),
    M("mala-scale", MCMC, "log_probs = normal.logpdf(proposed_val, mean, step_size)", "log_probs = normal.logpdf(proposed_val, mean, step_size**2)", ["C09"]),
    M("hmc-halfstep", MCMC, "        # Half step on momentum (completing the leapfrog step)\n        momentum = jtu.tree_map(\n            lambda p, g: p + (step_size / 2.0) * g, momentum, gradient\n        )", "        # Half step on momentum (completing the leapfrog step)\n        momentum = jtu.tree_map(\n            lambda p, g: p + step_size * g, momentum, gradient\n        )", ["C09"]),
    M("hmc-stale-grad", MCMC, "        gradient = jax.grad(log_density_wrt_selected)(position)\n\n        # Half step on momentum (completing", "        # Half step on momentum (completing", ["C09"]),
    M("hmc-energy-sign", MCMC, "log_alpha = (new_model_score + new_momentum_score) - (\n        prev_model_score + prev_momentum_score\n    )", "log_alpha = (new_model_score - new_momentum_score) - (\n        prev_model_score - prev_momentum_score\n    )", ["C09"]),
    M("hmc-update-pos", MCMC, "current_trace, final_position, *args[0], **args[1]", "current_trace, selected_choices, *args[0], **args[1]", ["C09"]),
    M("ld-merge-order", MCMC, "full_choices, _ = target_gf.merge(unselected_choices, selected_choices_only)", "full_choices, _ = target_gf.merge(selected_choices_only, unselected_choices)", ["C09"]),
    # ---------------- chain
    M("chain-emit-input", MCMC, "new_trace = mcmc_kernel(trace)\n            return new_trace, new_trace", "new_trace = mcmc_kernel(trace)\n            return new_trace, trace", ["C18"]),
    M("chain-burnin-off1", MCMC, "start_idx = burn_in.value\n", "start_idx = burn_in.value + 1\n", ["C18"]),
    M("chain-accepts-idx", MCMC, "final_accepts = accepts[indices]", "final_accepts = accepts[: len(indices)]", ["C18"]),
    M("chain-inner-burnin", MCMC, "                    burn_in=burn_in,\n", "                    burn_in=const(0),\n", ["C18"]),
    M("chain-rate", MCMC, "acceptance_rate = jnp.mean(final_accepts)", "acceptance_rate = jnp.mean(accepts)", ["C18"]),
    M("chain-nsteps", MCMC, "final_n_steps = len(indices)", "final_n_steps = n_steps.value", ["C18"]),
    # ---------------- SMC
    M("smc-init-score-sign", SMC, "log_weight = target_weight + proposal_score", "log_weight = target_weight - proposal_score", ["C10"]),
    M("smc-init-merge-order", SMC, "merged_choices, _ = target_gf.merge(proposal_choices, constraints)", "merged_choices, _ = target_gf.merge(constraints, proposal_choices)", ["C10"]),
    M("smc-init-axis", SMC, "            _single_default_importance_sample,\n            in_axes=(None, None, None),\n            axis_size=n_samples.value,", "            _single_default_importance_sample,\n            in_axes=(None, None, None),\n            axis_size=n_samples.value + 1,", ["C10"]),
    M("smc-extend-drop-old", SMC, "            # Weight is just the target weight (no proposal correction needed)\n            new_log_weight = old_log_weight + log_weight", "            # Weight is just the target weight (no proposal correction needed)\n            new_log_weight = log_weight", ["C10"]),
    M("smc-extend-noscore", SMC, "            new_log_weight = old_log_weight + log_weight + proposal_score\n\n        return new_trace, new_log_weight\n\n    # Vectorize across particles\n    vectorized_extension = modular_vmap(\n        _single_extension,", "            new_log_weight = old_log_weight + log_weight\n\n        return new_trace, new_log_weight\n\n    # Vectorize across particles\n    vectorized_extension = modular_vmap(\n        _single_extension,", ["C10"]),
    M("smc-extend-reset-est", SMC, "        n_samples=particles.n_samples,\n        log_marginal_estimate=particles.log_marginal_estimate,\n        # diagnostic_weights will be computed from new_log_weights in _create_particle_collection\n    )\n\n\ndef rejuvenate", "        n_samples=particles.n_samples,\n        # diagnostic_weights will be computed from new_log_weights in _create_particle_collection\n    )\n\n\ndef rejuvenate", ["C10"]),
    M("smc-rejuv-weight", SMC, "        return new_trace, old_log_weight\n", "        return new_trace, old_log_weight - new_trace.get_score() + old_trace.get_score()\n", ["C10"]),
    M("smc-lml-nolog", SMC, "        current_marginal = jax.scipy.special.logsumexp(self.log_weights) - jnp.log(\n            self.n_samples.value\n        )\n        return self.log_marginal_estimate + current_marginal", "        current_marginal = jax.scipy.special.logsumexp(self.log_weights)\n        return self.log_marginal_estimate + current_marginal", ["C10", "C12"]),
    M("smc-ess-nosq", SMC, "return 1.0 / jnp.sum(weights_normalized**2)", "return 1.0 / jnp.sum(weights_normalized)", ["C10"]),
    M("smc-step-carry", SMC, "        return particles, particles  # (carry, output)", "        return particles, obs  # (carry, output)", ["C10"]),
    M("smc-cond-thresh", SMC, "        ess < n_particles.value // 2,\n        lambda p: resample(p),\n        lambda p: p,\n        particles,\n    )\n\n    # Apply initial", "        ess > n_particles.value // 2,\n        lambda p: resample(p),\n        lambda p: p,\n        particles,\n    )\n\n    # Apply initial", ["C10"]),
    M("smc-change-weight", SMC, "new_log_weight = old_log_weight + log_weight\n\n        return new_trace, new_log_weight\n\n    # Vectorize across particles\n    vectorized_change", "new_log_weight = log_weight\n\n        return new_trace, new_log_weight\n\n    # Vectorize across particles\n    vectorized_change", ["C10"]),
    # ---------------- resampling
    M("res-noreset", SMC, "uniform_log_weights = jnp.zeros(particles.n_samples.value)", "uniform_log_weights = particles.log_weights - jax.scipy.special.logsumexp(particles.log_weights)", ["C12"]),
    M("res-est-nolog", SMC, "    current_marginal = jax.scipy.special.logsumexp(particles.log_weights) - jnp.log(\n        particles.n_samples.value\n    )\n\n    # Update accumulated", "    current_marginal = jax.scipy.special.logsumexp(particles.log_weights)\n\n    # Update accumulated", ["C12"]),
    M("res-diag-post", SMC, "diagnostic_weights=log_normalized_weights,  # Store pre-resampling normalized weights", "diagnostic_weights=uniform_log_weights,  # Store pre-resampling normalized weights", ["C12"]),
    M("res-leaf-first", SMC, "        return leaf[indices]\n", "        return leaf[indices[0]]\n", ["C12", "C05"]),
    M("res-cat-count", SMC, "indices = categorical.sample(log_weights, sample_shape=(n_samples,))", "indices = categorical.sample(log_weights, sample_shape=(n_samples - 1,))", ["C12"]),
    M("sys-u-per-pos", SMC, "u = uniform.sample(0.0, 1.0)\n    positions = (jnp.arange(n_samples) + u) / n_samples", "u = uniform.sample(0.0, 1.0, sample_shape=(n_samples,))\n    positions = (jnp.arange(n_samples) + u) / n_samples", ["C12"]),
    M("sys-positions", SMC, "positions = (jnp.arange(n_samples) + u) / n_samples", "positions = (jnp.arange(n_samples) + u) / (n_samples + 1)", ["C12"]),
    M("sys-nocumsum", SMC, "cumsum = jnp.cumsum(weights)", "cumsum = jnp.cumsum(log_weights_normalized)", ["C12"]),
    M("res-wrong-weights", SMC, "        particles.traces,\n        particles.log_weights,\n        particles.n_samples.value,\n        method=method,", "        particles.traces,\n        particles.diagnostic_weights,\n        particles.n_samples.value,\n        method=method,", ["C12"]),
    # ---------------- VI
    M("elbo-sign", VI, "return p_density + q_score", "return p_density - q_score", ["C17"]),
    M("elbo-merge-order", VI, "merged_choices, _ = target_gf.merge(constraint, tr.get_choices())", "merged_choices, _ = target_gf.merge(tr.get_choices(), constraint)", ["C17"]),
    M("elbo-args", VI, "p_density, _ = target_gf.assess(merged_choices, *target_args)", "p_density, _ = target_gf.assess(merged_choices, *variational_params)", ["C17"]),
    M("vi-descent", VI, "new_params = params + learning_rate * param_grad", "new_params = params - learning_rate * param_grad", ["C17"]),
    M("vi-history-pre", VI, "return new_params, (new_params, 0.0)  # Placeholder loss for now", "return new_params, (params, 0.0)  # Placeholder loss for now", ["C17"]),
    M("vi-carry-stale", VI, "            return new_params, 0.0", "            return params, 0.0", ["C17"]),
    M("vi-meanfield-std", VI, "cov = jnp.diag(stds**2)", "cov = jnp.diag(stds)", ["C17"]),
    M("vi-fullcov", VI, "cov = chol_cov @ chol_cov.T", "cov = chol_cov.T @ chol_cov", ["C17"]),
    M("vi-estimator-swap", VI, "    if gradient_estimator == \"reparam\":\n        mvnormal_fn = multivariate_normal_reparam\n    elif gradient_estimator == \"reinforce\":\n        mvnormal_fn = multivariate_normal_reinforce\n    else:\n        raise ValueError(f\"Unknown gradient estimator: {gradient_estimator}\")\n\n    @gen\n    def variational_family(constraint, params):\n        \"\"\"\n        Mean-field",
      "    if gradient_estimator == \"reparam\":\n        mvnormal_fn = multivariate_normal_reinforce\n    elif gradient_estimator == \"reinforce\":\n        mvnormal_fn = multivariate_normal_reparam\n    else:\n        raise ValueError(f\"Unknown gradient estimator: {gradient_estimator}\")\n\n    @gen\n    def variational_family(constraint, params):\n        \"\"\"\n        Mean-field", ["C17"]),
    # ---------------- pjax: seed / keys
    M("seed-reuse-key-sample", PJAX, "                self.key, sub_key = jrand.split(self.key)\n                outvals = flat_keyful_sampler(sub_key, *args, **inner_params)", "                sub_key = self.key\n                outvals = flat_keyful_sampler(sub_key, *args, **inner_params)", ["C07", "C06"]),
    M("seed-sample-uses-selfkey", PJAX, "outvals = flat_keyful_sampler(sub_key, *args, **inner_params)", "outvals = flat_keyful_sampler(self.key, *args, **inner_params)", ["C07"]),
    M("seed-scan-nofold", PJAX, "sub_key = jrand.fold_in(key, idx)\n                    outs = seed(body_fun)(sub_key, *all_values)", "sub_key = key\n                    outs = seed(body_fun)(sub_key, *all_values)", ["C07"]),
    M("seed-scan-carry-subkey", PJAX, "return (key, out_carry), out_scan", "return (sub_key, out_carry), out_scan", ["C07"]),
    M("seed-scan-nosplit", PJAX, "                self.key, sub_key = jrand.split(self.key)\n                fold_idxs = jnp.arange(length)", "                sub_key = self.key\n                fold_idxs = jnp.arange(length)", ["C07"]),
    M("seed-cond-nosplit", PJAX, "                branch_closed_jaxprs = params[\"branches\"]\n                self.key, sub_key = jrand.split(self.key)", "                branch_closed_jaxprs = params[\"branches\"]\n                sub_key = self.key", ["C07"]),
    M("seed-cond-unseeded", PJAX, "                    seed(jex.core.jaxpr_as_fun(branch))\n                    for branch in branch_closed_jaxprs", "                    (lambda k, *a, _f=jex.core.jaxpr_as_fun(branch): _f(*a))\n                    for branch in branch_closed_jaxprs", ["C07", "C06"]),
    M("seed-sample-rebind", PJAX, "                outvals = flat_keyful_sampler(sub_key, *args, **inner_params)\n", "                outvals = eqn.primitive.bind(*args, **params)\n", ["C06"]),
    M("seed-drop-adev", PJAX, "            if primitive in (sample_p, adev_sample_p):\n                invals = safe_map(env.read, eqn.invars)", "            if primitive in (sample_p,):\n                invals = safe_map(env.read, eqn.invars)", ["C06", "C14"]),
    M("seed-stored-interp", PJAX, "        interpreter = Seed(key)\n        return interpreter.eval(", "        interpreter = _SEEDS.setdefault(id(f), Seed(key))\n        return interpreter.eval(", ["C06"]),
    M("counter-elsewhere", PJAX, "        flat_keyful_sampler = flat_cache.get_flat_sampler(*args, **kwargs)\n", "        flat_keyful_sampler = flat_cache.get_flat_sampler(*args, **kwargs)\n        global_counter.count += 1\n", ["C06"]),
    M("fakekey-as-const", PJAX, "            flat_sampler, _ = self._make_flat(keyful_with_shape)(\n                _fake_key, *args, **kwargs\n            )", "            flat_sampler, _ = self._make_flat(partial(keyful_with_shape, _fake_key))(\n                *args, **kwargs\n            )", ["C06"]),
    # ---------------- pjax: vmap
    M("vmap-outer-dim", PJAX, "        elif axis_size:\n            return (axis_size,)  # Need to add batch dimension", "        elif axis_size:\n            return ()  # Need to add batch dimension", ["C07", "C08"]),
    M("vmap-outaxes-none", PJAX, "out_axes = (0 if n or axis_size else None,)\n        return (result,), out_axes", "out_axes = (0 if n else None,)\n        return (result,), out_axes", ["C07", "C08"]),
    M("vmap-shape-order", PJAX, "new_sample_shape = outer_batch_dim + self.config.sample_shape", "new_sample_shape = self.config.sample_shape + outer_batch_dim", ["C07", "C08"]),
    M("vmap-nostrip-axes", PJAX, "batch_axes = tuple(batch_axes[1:])", "batch_axes = tuple(batch_axes)", ["C08"]),
    M("vmap-abstract-strip", PJAX, "flat_avals = flat_avals[1:]  # ignore dummy", "flat_avals = flat_avals[2:]  # ignore dummy", ["C08"]),
    M("vmap-dummy-axes", PJAX, "            in_axes=(0, in_axes),\n            axis_size=axis_size,", "            in_axes=(None, in_axes),\n            axis_size=axis_size,", ["C08"]),
    M("withshape-drop-params", PJAX, "            primitive_params=dict(self.primitive_params),\n        )\n\n    def get_keyful", "        )\n\n    def get_keyful", ["C07"]),
    M("keyless-noshape", PJAX, "self._keyful_with_shape = config.get_keyful_sampler_with_shape()", "self._keyful_with_shape = config.keyful_sampler", ["C07"]),
    M("ld-batch-axes-tree", PJAX, "batch_tree = jtu.tree_unflatten(params[\"in_tree\"], batch_axes[num_consts:])", "batch_tree = jtu.tree_unflatten(params[\"in_tree\"], batch_axes)", ["C08"]),
    M("ld-batch-outaxes", PJAX, "out_axes = (0 if n else None,)\n            return outvals, out_axes", "out_axes = (0,)\n            return outvals, out_axes", ["C08"]),
    M("wrap-sampler-nopop", PJAX, "        if \"sample_shape\" in kwargs:\n            kwargs.pop(\"sample_shape\")\n", "", ["C07"]),
    M("tfp-sampler-noshape", CORE, "return d.sample(seed=key, sample_shape=sample_shape)", "return d.sample(seed=key)", ["C07"]),
    M("tfp-logpdf-args", CORE, "    def logpdf(v, *args, **kwargs):\n        d = dist(*args, **kwargs)", "    def logpdf(v, *args, **kwargs):\n        d = dist(*args)", ["C07"]),
    # ---------------- pjax: lowering
    M("lower-flag-off", PJAX, "enforce_lowering_exception = True", "enforce_lowering_exception = False", ["C14"]),
    M("lower-warning-on", PJAX, "\nlowering_warning = False", "\nlowering_warning = True", ["C14"]),
    M("lower-guard-inverted", PJAX, "elif \"lowering_exception\" in params and enforce_lowering_exception:", "elif \"lowering_exception\" not in params and enforce_lowering_exception:", ["C14"]),
    M("bind-no-exception", PJAX, "            lowering_exception=lowering_exception,\n", "", ["C14"]),
    M("ppp-lowering-noparams", PJAX, "return self.prim.lowering(*args, **self.params, **params)", "return self.prim.lowering(*args, **params)", ["C14"]),
    M("batch-plain-vmap-ok", PJAX, "                raise NotImplementedError(\"Only modular_vmap context supported\")", "                return self._handle_modular_vmap((None, *vector_args), (None, *batch_axes), axis_size=None, **params)", ["C14"]),
    M("mvmap-drop-params", PJAX, "                    ctx=\"modular_vmap\",\n                    **params,\n                )", "                    ctx=\"modular_vmap\",\n                )", ["C14", "C08"]),
]

#!/usr/bin/env python3
"""Developer aid: write sub-agent prompts for a seeding wave (from tools/seed_prompt.tmpl + a focus table) or a benign-refactoring wave
(tools/benign_prompt.tmpl + a scope table) and create the scratch worktrees.  usage: make_wave.py seed|benign <dir> <table.json>"""
import json, os, subprocess, sys
V = os.path.dirname(os.path.dirname(os.path.abspath(__file__)))
kind, outdir, table = sys.argv[1], sys.argv[2], json.load(open(sys.argv[3]))
os.makedirs(outdir, exist_ok=True)
props = {json.loads(l)["id"]: json.loads(l) for l in open(os.path.join(V, "properties.jsonl"))}
tmpl = open(os.path.join(V, "tools", f"{kind}_prompt.tmpl")).read()
for key, val in table.items():
    wt = os.path.join(outdir, key)
    if kind == "seed":
        p = props[key.split("-")[0]]
        anchors = "; ".join(f"{m['name']} ({m['where']})" for m in p["anchors"]["mechanism"])
        text = tmpl.format(pid=p["id"], title=p["title"], statement=p["statement"], anchors=anchors, focus=val, wt=wt)
    else:
        text = tmpl.format(rid=key, scope=val["scope"], tests=val["tests"], style=val["style"], wt=wt)
    open(os.path.join(outdir, f"prompt_{key}.txt"), "w").write(text)
    if not os.path.exists(wt):
        subprocess.run(["git", "-C", "/repo", "worktree", "add", "--detach", wt, "HEAD", "-q"], check=True)
print("prompts and worktrees under", outdir, ":", " ".join(table))

#!/usr/bin/env python3
"""Developer aid: mechanical, semantics-preserving rewrites of the whole source tree (one kind per variant), applied to a scratch copy,
followed by all 20 checks.  Any VIOLATION / ANALYSIS-ERROR beyond the base run is a false alarm of the machinery.
usage: tools/auto_benign.py [kind ...]     kinds: nestedif swapcmp pos2kw unpack rename flip rettemp kwrev ifexp2if augassign earlyret"""
import ast, os, shutil, subprocess, sys, tempfile
VERIF = os.path.dirname(os.path.dirname(os.path.abspath(__file__)))
ALL = ["C%02d" % i for i in range(1, 21)]


def has_nested_scope(fn):
    return any(isinstance(n, (ast.FunctionDef, ast.AsyncFunctionDef, ast.Lambda, ast.ClassDef)) and n is not fn for n in ast.walk(fn))


class Rename(ast.NodeTransformer):
    """alpha-rename the assigned locals of every function without nested scopes"""
    def visit_FunctionDef(self, fn):
        self.generic_visit(fn)
        if has_nested_scope(fn):
            return fn
        params = {a.arg for a in fn.args.posonlyargs + fn.args.args + fn.args.kwonlyargs} | ({fn.args.vararg.arg} if fn.args.vararg else set()) | ({fn.args.kwarg.arg} if fn.args.kwarg else set())
        glob = {n_ for n in ast.walk(fn) if isinstance(n, (ast.Global, ast.Nonlocal)) for n_ in n.names}
        stored = {n.id for n in ast.walk(fn) if isinstance(n, ast.Name) and isinstance(n.ctx, ast.Store)} - params - glob
        # names also read before any store could be globals shadowed later: keep only names never used as a call target of a module global
        stored = {s for s in stored if not s.startswith("__")}
        for n in ast.walk(fn):
            if isinstance(n, ast.Name) and n.id in stored:
                n.id = n.id + "_r"
        return fn


class Flip(ast.NodeTransformer):
    def visit_If(self, node):
        self.generic_visit(node)
        if node.orelse and not (len(node.orelse) == 1 and isinstance(node.orelse[0], ast.If)) and not (len(node.body) == 1 and isinstance(node.body[0], ast.If)):
            node.test, node.body, node.orelse = ast.UnaryOp(op=ast.Not(), operand=node.test), node.orelse, node.body
        return node


class RetTemp(ast.NodeTransformer):
    def visit_FunctionDef(self, fn):
        self.generic_visit(fn)
        return fn

    def visit_Return(self, node):
        if node.value is None or isinstance(node.value, (ast.Constant, ast.Name)):
            return node
        return [ast.Assign(targets=[ast.Name(id="_ret", ctx=ast.Store())], value=node.value, lineno=node.lineno),
                ast.Return(value=ast.Name(id="_ret", ctx=ast.Load()))]


class KwRev(ast.NodeTransformer):
    def visit_Call(self, node):
        self.generic_visit(node)
        named = [k for k in node.keywords if k.arg is not None]
        if len(named) >= 2 and len(named) == len(node.keywords):
            node.keywords = list(reversed(node.keywords))
        return node


class IfExp2If(ast.NodeTransformer):
    """`x = a if c else b` / `return a if c else b`  ->  if-statement"""
    def visit_Assign(self, node):
        if isinstance(node.value, ast.IfExp) and len(node.targets) == 1 and isinstance(node.targets[0], ast.Name):
            v = node.value
            mk = lambda val: ast.Assign(targets=[ast.Name(id=node.targets[0].id, ctx=ast.Store())], value=val, lineno=node.lineno)
            return ast.If(test=v.test, body=[mk(v.body)], orelse=[mk(v.orelse)])
        return node

    def visit_Return(self, node):
        if isinstance(node.value, ast.IfExp):
            v = node.value
            return ast.If(test=v.test, body=[ast.Return(value=v.body)], orelse=[ast.Return(value=v.orelse)])
        return node


class AugAssign(ast.NodeTransformer):
    """`x += y` -> `x = x + y` for plain names and attributes"""
    def visit_AugAssign(self, node):
        import copy
        if isinstance(node.target, (ast.Name, ast.Attribute)):
            load = copy.deepcopy(node.target)
            load.ctx = ast.Load()
            return ast.Assign(targets=[node.target], value=ast.BinOp(left=load, op=node.op, right=node.value), lineno=node.lineno)
        return node


class EarlyRet(ast.NodeTransformer):
    """`if c: ...return` followed by the rest  ->  `if c: ...return else: rest`"""
    def _fix(self, stmts):
        out = []
        for i, st in enumerate(stmts):
            if isinstance(st, ast.If) and not st.orelse and st.body and isinstance(st.body[-1], (ast.Return, ast.Raise)) and i + 1 < len(stmts):
                st.orelse = self._fix(stmts[i + 1:])
                out.append(st)
                return out
            out.append(st)
        return out

    def visit_FunctionDef(self, fn):
        self.generic_visit(fn)
        fn.body = self._fix(fn.body)
        return fn


class Pos2Kw(ast.NodeTransformer):
    """f(a, b) -> f(x=a, y=b) for calls of module-level functions / dataclass-like classes of the same module whose signature is plain
    (no positional-only, no *args); the first positional argument is kept positional (it is often the subject)."""
    def __init__(self):
        self.sigs = {}

    def visit_Module(self, mod):
        for st in mod.body:
            if isinstance(st, ast.FunctionDef) and not st.args.posonlyargs and not st.args.vararg and not st.decorator_list:
                self.sigs[st.name] = [a.arg for a in st.args.args]
        self.generic_visit(mod)
        return mod

    def visit_Call(self, node):
        self.generic_visit(node)
        if isinstance(node.func, ast.Name) and node.func.id in self.sigs and not any(isinstance(a, ast.Starred) for a in node.args) \
                and all(k.arg is not None for k in node.keywords):
            names = self.sigs[node.func.id]
            if 2 <= len(node.args) <= len(names):
                extra = [ast.keyword(arg=names[i], value=a) for i, a in enumerate(node.args) if i >= 1]
                if not ({k.arg for k in node.keywords} & {k.arg for k in extra}):
                    node.args = node.args[:1]
                    node.keywords = extra + node.keywords
        return node


class Unpack(ast.NodeTransformer):
    """`a, b = f(x)`  ->  `_t = f(x); a = _t[0]; b = _t[1]` for plain-name targets and call right-hand sides"""
    def visit_Assign(self, node):
        if len(node.targets) == 1 and isinstance(node.targets[0], ast.Tuple) and isinstance(node.value, ast.Call) \
                and all(isinstance(e, ast.Name) for e in node.targets[0].elts) and 2 <= len(node.targets[0].elts) <= 4:
            tmp = f"_t{node.lineno}"
            out = [ast.Assign(targets=[ast.Name(id=tmp, ctx=ast.Store())], value=node.value, lineno=node.lineno)]
            for i, e in enumerate(node.targets[0].elts):
                out.append(ast.Assign(targets=[ast.Name(id=e.id, ctx=ast.Store())], value=ast.Subscript(value=ast.Name(id=tmp, ctx=ast.Load()), slice=ast.Constant(value=i), ctx=ast.Load()), lineno=node.lineno))
            return out
        return node


class NestedIf(ast.NodeTransformer):
    """`if a and b: X` (no else)  ->  `if a: if b: X`"""
    def visit_If(self, node):
        self.generic_visit(node)
        if not node.orelse and isinstance(node.test, ast.BoolOp) and isinstance(node.test.op, ast.And) and len(node.test.values) == 2:
            a, b = node.test.values
            return ast.If(test=a, body=[ast.If(test=b, body=node.body, orelse=[])], orelse=[])
        return node


class SwapCmp(ast.NodeTransformer):
    """`a == b` -> `b == a`, `a != b` -> `b != a` (single comparisons)"""
    def visit_Compare(self, node):
        self.generic_visit(node)
        if len(node.ops) == 1 and isinstance(node.ops[0], (ast.Eq, ast.NotEq)):
            node.left, node.comparators = node.comparators[0], [node.left]
        return node


class Comp2Loop(ast.NodeTransformer):
    """`xs = [e for t in seq]` (single generator, no condition)  ->  `xs = []` + for-loop with append"""
    def visit_Assign(self, node):
        v = node.value
        if isinstance(v, ast.ListComp) and len(v.generators) == 1 and not v.generators[0].ifs and len(node.targets) == 1 and isinstance(node.targets[0], ast.Name):
            nm = node.targets[0].id
            g = v.generators[0]
            return [ast.Assign(targets=[ast.Name(id=nm, ctx=ast.Store())], value=ast.List(elts=[], ctx=ast.Load()), lineno=node.lineno),
                    ast.For(target=g.target, iter=g.iter, body=[ast.Expr(value=ast.Call(func=ast.Attribute(value=ast.Name(id=nm, ctx=ast.Load()), attr="append", ctx=ast.Load()), args=[v.elt], keywords=[]))], orelse=[], lineno=node.lineno)]
        return node


KINDS = {"comp2loop": Comp2Loop, "nestedif": NestedIf, "swapcmp": SwapCmp, "pos2kw": Pos2Kw, "unpack": Unpack, "rename": Rename, "flip": Flip, "rettemp": RetTemp, "kwrev": KwRev, "ifexp2if": IfExp2If, "augassign": AugAssign, "earlyret": EarlyRet}


def run_checks(repo):
    out = {}
    for pid in ALL:
        q = subprocess.run([os.path.join(VERIF, "check"), pid] + (["--repo", repo] if repo else []) + ["--no-evidence"], capture_output=True, text=True)
        lines = [l for l in q.stdout.splitlines() if l and not l.startswith(("KNOWN", "VIOLATION", "[", "  note", "    key"))]
        out[pid] = (q.returncode, lines[:3])
    return out


base = run_checks(None)
kinds = [k for k in sys.argv[1:] if k in KINDS] or list(KINDS)
for kind in kinds:
    tmp = tempfile.mkdtemp(prefix="gx-auto-")
    try:
        shutil.copytree("/repo/src", os.path.join(tmp, "src"), ignore=shutil.ignore_patterns("__pycache__"))
        n = 0
        for root, _, files in os.walk(os.path.join(tmp, "src", "genjax")):
            for fn in files:
                if not fn.endswith(".py"):
                    continue
                p = os.path.join(root, fn)
                src = open(p).read()
                tree = KINDS[kind]().visit(ast.parse(src))
                ast.fix_missing_locations(tree)
                new = ast.unparse(tree)
                compile(new, p, "exec")
                if new != ast.unparse(ast.parse(src)):
                    n += 1
                open(p, "w").write(new + "\n")
        res = run_checks(tmp)
        bad = {pid: r for pid, r in res.items() if r[0] != base[pid][0]}
        print(f"{kind}: {n} files rewritten; " + ("silent on all 20 checks" if not bad else f"ALARMS {sorted(bad)}"))
        for pid, (rc, lines) in bad.items():
            print("   ", pid, "rc", rc, [l[:260] for l in lines])
    finally:
        shutil.rmtree(tmp, ignore_errors=True)

#!/usr/bin/env python3
"""Run the registered checks against every seeded change (applied to a scratch copy of /repo/src).
usage: tools/run_seeded.py [ID-prefix ...] [--all-props]"""
import json, os, shutil, subprocess, sys, tempfile
VERIF = os.path.dirname(os.path.dirname(os.path.abspath(__file__)))
args = [a for a in sys.argv[1:] if not a.startswith("--")]
allp = "--all-props" in sys.argv
ALL = ["C%02d" % i for i in range(1, 21)]
rows = []
for d in sorted(os.listdir(os.path.join(VERIF, "seeded"))):
    if args and not any(d.startswith(a) for a in args):
        continue
    sd = os.path.join(VERIF, "seeded", d)
    meta = json.load(open(os.path.join(sd, "meta.json")))
    tmp = tempfile.mkdtemp(prefix="gx-seeded-")
    try:
        shutil.copytree("/repo/src", os.path.join(tmp, "src"), ignore=shutil.ignore_patterns("__pycache__"))
        p = subprocess.run(["patch", "-p1", "-s", "-i", os.path.join(sd, "patch.diff")], cwd=tmp, capture_output=True, text=True)
        if p.returncode:
            rows.append((d, "PATCH-FAILED", p.stdout + p.stderr)); continue
        props = ALL if allp else [meta["property"]] + meta.get("also_breaks", [])
        res = {}
        for pid in props:
            if not os.path.exists(os.path.join(VERIF, "gxstatic", "rules", pid.lower() + ".py")):
                res[pid] = "no-check"; continue
            q = subprocess.run([os.path.join(VERIF, "check"), pid, "--repo", tmp, "--no-evidence"], capture_output=True, text=True)
            res[pid] = {0: "silent", 1: "VIOLATION", 2: "analysis-error"}.get(q.returncode, str(q.returncode))
            if q.returncode == 1 and "-v" in sys.argv:
                res[pid] += " [" + "; ".join(l.strip()[:160] for l in q.stdout.splitlines() if "  " in l and ":" in l and not l.startswith("VIOL") and not l.startswith("["))[:500] + "]"
            if q.returncode == 2:
                res[pid] += " " + q.stdout[-300:]
        rows.append((d, "caught" if any(v.startswith("VIOLATION") for v in res.values()) else "MISSED", res))
    finally:
        shutil.rmtree(tmp, ignore_errors=True)
for r in rows:
    print(r[0], r[1], r[2])

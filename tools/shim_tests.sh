#!/bin/bash
# Developer aid (NOT a check): run repository tests through the external JAX-compat shim (findings_repro/gxshim).
# usage: tools/shim_tests.sh tests/test_mcmc.py [more pytest args]
cd /repo && PYTHONPATH=/verif/findings_repro/gxshim /venv/bin/python -m pytest -p gxshim_plugin -p no:cacheprovider --no-cov --timeout=1800 -q "$@" 2>&1 | grep -v "conda" | tail -15

#!/usr/bin/env python3
"""Developer aid: print the evaluator's guarded event log / return term of one function.  usage: dump_events.py <dotted> [--repo dir]"""
import os, sys
sys.path.insert(0, os.path.dirname(os.path.dirname(os.path.abspath(__file__))))
from gxstatic import model
from gxstatic.model import Program
from gxstatic.run import Ctx
from gxstatic.rules.util import mk_ev, summarize, short
repo = None
if "--repo" in sys.argv:
    repo = sys.argv[sys.argv.index("--repo") + 1]
    model.REPO = repo
dotted = sys.argv[1]
ctx = Ctx("DBG", "quick", Program(repo))
ev = mk_ev(ctx)
if "--no-ctor-inline" in sys.argv:
    ev.inline_methods_on_ctor = False
s = summarize(ctx, ev, dotted)
ABBR = [("jax._src.util.safe_map(genjax.pjax.Environment().read, each(jaxpr.eqns).invars)", "INVALS"),
        ("each(jaxpr.eqns).primitive.get_bind_params(each(jaxpr.eqns).params)", "GBP"),
        ("genjax.pjax.PPPrimitive.unwrap(each(jaxpr.eqns).primitive)", "UNW"), ("each(jaxpr.eqns)", "EQN"), ("genjax.", "")]
W = int(os.environ.get("W", "220"))
for g, k, pl, ln, q in s.events:
    gs = " & ".join(("" if v else "!") + short(c, ev, 400) for c, v in g)
    if k == "assign":
        txt = f"{pl[0]} := {short(pl[1], ev, W)}"
    elif k == "store":
        txt = f"{short(pl[0], ev, W)} <- {short(pl[1], ev, W)}   (base name {pl[2]})"
    elif k in ("loop", "endloop", "try", "finally"):
        txt = str(pl[0]) if pl else ""
    else:
        txt = short(pl, ev, W) if isinstance(pl, tuple) else str(pl)
    for a, b in ABBR:
        txt = txt.replace(a, b); gs = gs.replace(a, b)
    if "--only" in sys.argv and sys.argv[sys.argv.index("--only") + 1] not in gs + txt:
        continue
    print(f"{ln:5} {k:7} [{gs}]\n        {txt}")
print("RET", short(s.ret, ev, 600))

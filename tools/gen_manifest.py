#!/usr/bin/env python3
"""Regenerate /verif/MANIFEST.json from the table below (claimed checks exist iff gxstatic/rules/<id>.py exists)."""
import json, os
V = os.path.dirname(os.path.dirname(os.path.abspath(__file__)))
props = [json.loads(l) for l in open(os.path.join(V, "properties.jsonl"))]
NOTE = ("Decides the structural clauses listed in DESIGN.md §4 for this property (necessary conditions visible in the shape of the code on every path), "
        "not the behavioural statement itself. Trusted base: CPython ast, the rule/oracle tables in gxstatic/rules, JAX/TFP library semantics as axiomatised in DESIGN.md §7. "
        "No genjax code is imported or executed.")
CLAIMS = {
 "C01": ("symbolic term comparison (abstract interpretation of each GFI method to a term, linear-form normalisation with case splitting) against the GFI contract table; guard/pairing rules on handlers",
         "Every simulate/assess path of Distribution, Fn(+Simulate/Assess handlers), Vmap, Scan, Cond and the CondTr accessors is reduced to a symbolic term and compared with the contract (score = −logpdf of the sampled value with the same arguments, densities summed/selected by the condition, carry threading, argument recording, collision guard before every sub-call)."),
 "C02": ("symbolic term comparison of every generate path against the GFI contract table",
         "Constrained value stored unchanged and never re-sampled, weight term = logpdf (constrained) / 0 (None) / handler accumulation / sum over lanes and steps / where-selection by the condition, for all five implementors and the Generate handler."),
 "C03": ("symbolic term comparison plus the telescoping identity weight + S(new) − S(old) ≡ 0 decided by case splitting on where-conditions",
         "Every update path: new-or-old value and old sub-trace roles in the Update handler, Distribution algebra, Vmap/Scan aggregation, and Cond.update's weight/discard as functions of both the new and the old condition."),
 "C04": ("symbolic term comparison of every regenerate path; selection-threading table; definedness lints (array reduction over pytrees)",
         "Selected leaf → fresh simulate, weight 0, old value discarded; unselected → rescoring with no sampler reachable; handler forwards the remainder selection; Scan/Vmap/Cond aggregation; Selection.match remainder threading."),
 "C16": ("case enumeration of each match method's symbolic return term against the selection-algebra table; path/pairing rules on filter and merge",
         "All 8 selection node classes + Selection wrapper + sel() dispatch + operators are decided for every truth assignment of their atomic conditions (a proof of the Boolean-algebra clause by structural induction, relative to the table); filter/merge consumers are checked for partition pairing, precedence and leaf-decision agreement with regenerate."),
 "C05": ("symbolic term comparison of every trace-construction site; telescoping identity by case splitting; whole-trace select / single-index rules; ownership of trace fields",
         "Induction step of the coherence invariant for every trace-producing operation (all GFI methods of all implementors, the three MCMC kernels' accept/select, resampling by one index vector), the recorded-arguments format shared by producers and consumers, and no writer of trace fields outside constructors."),
 "C09": ("symbolic decomposition of each kernel's return term into proposal / accept test / select, polynomial comparison of proposal means, scales, evaluation points and signed log-ratio constituents",
         "mh: log ratio = regenerate weight; mala: drift step²/2·∇, scale step, backward density at the old value with the gradient at the proposed point, ratio = model + backward − forward; hmc: leapfrog half/full/half steps with the gradient re-evaluated, energy difference, proposed trace = update(final position); rejected move returns the input trace; Cond.regenerate weight re-based on the old visible score (mixture-indicator move); per-leaf noise/momentum shape."),
 "C10": ("symbolic summaries of the per-particle closures under modular_vmap; polynomial comparison of log-weight forms; role checks of the rejuvenation_smc pipeline",
         "init/change/extend weight forms (generate weight, plus proposal score for custom proposals, accumulated on the old weight), rejuvenate leaves weights/estimate/diagnostics untouched, log_marginal_likelihood and ESS formulas, ESS-triggered resampling inside cond with identity else-branch, extend fed by the particles' own retvals, scan carry = post-move particles."),
 "C12": ("single-index dataflow rule over the whole-trace tree_map; algebra of resample; symbolic invariance of log_marginal_likelihood with one library axiom",
         "One index vector (categorical with sample_shape=(N,) or systematic) subscripts axis 0 of every leaf; weights reset to zeros(N), estimate' = estimate + logsumexp(w) − log N, diagnostic weights from the input weights, log_marginal_likelihood() symbolically unchanged (axiom logsumexp(zeros(N)) = log N); systematic positions (arange(N)+u)/N against cumsum of normalised weights with one scalar u."),
 "C17": ("symbolic value of the elbo closure and of the optimisation scan body compared as polynomials with the contract forms",
         "elbo = assess(merge(constraint, q choices)[0], *target_args)[0] + q score from one simulate; update = params + lr·grad_estimate(params) carried and emitted; final_params = final carry; families' covariance constructions and estimator selection; merge precedence."),
 "C18": ("symbolic summary of run_chain: scan body roles, one retained-index term shared by traces and accepts, provenance of accepts from the same state-wrapped run",
         "Post-kernel trace carried and emitted, indices arange(burn_in, n_steps, thinning) applied to every trace leaf and to the accepts collected by the same run, acceptance_rate/n_steps from the retained accepts, multi-chain path = modular_vmap over replicated initial traces with the same n_steps/burn_in/thinning and n_chains=const(1)."),
 "C06": ("ownership / escape / who-may-touch rules over pjax.py; guard rule on Seed's sampling branch; dependence rule on the staged-sampler cache key; sibling comparison of interpreter dispatch sets",
         "The process-global key counter is read/written only in KeylessWrapper.__call__, whose instances flow only into the staged-function slot; Seed's sampling branch never re-binds the primitive and draws from the flat keyful sampler with a fresh sub-key; Seed(key) is call-local; _fake_key is only a staging argument; the flat-sampler memo key; Seed and ModularVmap special-case the same primitive set; fall-through exhaustiveness."),
 "C07": ("PRNG-key linearity analysis of the Seed interpreter; symbolic shape rule for lane randomness; sample_shape threading roles",
         "In each of the 3 key-consuming branches the interpreter key is replaced by split(key)[0] and the sub-key is consumed exactly once; scan iterations use fold_in(carried key, scanned index) and return the carried key unchanged; cond branches are all seeded with one fresh sub-key; under modular_vmap the re-bound sample shape is extended by axis_size whenever no operand carries the batch axis and the output axis is 0 then; sample_shape reaches every keyful sampler."),
 "C08": ("writer/reader agreement rule for the injected dummy operand; role rule for the log-density batch rule; symbolic term comparison of the Vmap combinator; declared-union narrowing; first-leaf guard; dependence rule on batch-axis positions",
         "1 dummy operand injected by ModularVmap and 1 stripped by each of 3 consumers; (dummy, args) paired with in_axes (0, in_axes); density vmapped with the in-axes tree rebuilt from this site's batch axes; Vmap's in_axes prefix table and sum-over-lanes for all five methods; Vmap.in_axes narrowing; axis-size inference on leafless arguments; batch-axis positions in the sample batch rule."),
 "C14": ("who-may-bind and must-carry rules for the sampling primitives; guard-shape rule for the lowering rule and the sample batch rule; single-writer rule for the global flags; exhaustiveness of Seed's fall-through",
         "sample_p/adev_sample_p are bound only in create_sample_primitive and always with lowering_exception/lowering_warning; the lowering rule raises the dedicated exception before lowering unless the warning flag is set; both flags are module constants with no other writer; PPPrimitive forwards lowering with the hidden params; plain jax.vmap raises; ModularVmap's re-bind forwards the original params."),
 "C11": ("protocol-agreement rule over all prim_jvp_estimate implementations; polynomial comparison of tangent forms; non-interference rule for reparameterisation noise; role rules for the CPS interpreter; constructor-binding agreement of keyless/keyful samplers and densities",
         "The dual continuation is applied to Dual arguments and consumed as a Dual (9 implementors vs the interpreter); REINFORCE tangent = df + f·d log p at (X, θ) along (0, θ̇); flip enumeration = jvp of p·f(True) + (1−p)·f(False); measure-valued form with the sign polarity and the flipped outcome; lane-wise Rao-Blackwellised variant flips exactly lane i; reparameterised transforms with parameter-value-independent standard noise; continuations = rest of the program over an environment copy; custom-JVP bridge; estimator parameterisations."),
 "C13": ("table rule: each distribution's defining expression resolved to a TFP class and positional-to-parameter binding using constructor signatures parsed statically from the installed TFP source; documentation/constructor agreement; sibling rule for sampler/density",
         "24 distributions: TFP class, binding of the leading positionals (flip → probs with dtype bool, categorical → logits, exponential → rate, multivariate_normal → covariance_matrix, inverse_gamma → (concentration, scale), …), docstring Args are constructor parameters in order, sampler and log_prob built from one constructor call, sample_shape threaded to .sample, ADEV estimators' keyless/keyful samplers agree with the base distribution."),
 "C15": ("role rules for the default JVP path and the cond branch of the ADEV interpreter; shape-dependence rule for manufactured zero tangents; symbolic comparison of the Dual-tree plumbing",
         "Default path: rule from jax primitive_jvps, tangents canonicalised pairwise (float0 → Zero), primal-only shortcut only when all tangents are zero, zeros instantiated; every fresh zero tangent derived from its primal; cond_p's reversed branch order compensated exactly once with every branch transformed under the post-cond continuation; jvp_estimate/grad_estimate/estimate plumbing."),
 "C19": ("who-writes-where rule over every store into the collected-state dictionary; try/finally pairing rule; writer/reader agreement on the leaf sentinel; sibling rule for batch rules",
         "Named, root and leaf stores are relative to the interpreter's namespace stack; the scan merge; namespace() pushes before try and pops in finally; tagged values pass through and other primitives are re-bound unchanged; scan re-issued with same length/reverse and ys = (ys, body state); save()/tag_state naming; batch rules re-insert the same primitive and parameter and declare out-dims per output."),
 "C20": ("non-commutative matrix-polynomial normal form (transposes pushed to atoms, inv(X)ᵀ = inv(Xᵀ), symmetric covariances, solve/cho_solve axioms with factor-kind typestate) compared with the textbook Kalman/RTS forms; axis-role typing of the HMM recursions; time-index, reversal and guard rules",
         "Kalman filter initial and scan steps (mean, covariance in standard / Joseph / K S Kᵀ forms, Gaussian innovation term) and RTS smoother steps with roles of A, C, Q, R kept distinct (valid for d_obs ≠ d_state); forward filter sums over the from-state axis, emission indexed by y_t, alpha_0, normalisation; backward sampling conditional indexed by the from-state of the transition into the carried next state; backward passes re-ordered into time order; T > 1 guards; step models."),
}
checks, na = [], []
for p in props:
    pid = p["id"]
    if pid in CLAIMS and os.path.exists(os.path.join(V, "gxstatic", "rules", pid.lower() + ".py")):
        tech, text = CLAIMS[pid]
        checks.append({
            "property_id": pid,
            "quick_cmd": f"./check {pid} --tier quick",
            "thorough_cmd": f"./check {pid} --tier thorough",
            "evidence_file": f"/verif/evidence/{pid}.json",
            "replay_cmd_template": f"./check {pid} --replay {{path}}",
            "engine": "gxstatic",
            "level_claimed": {"category": "other", "text": "Static conformance of the resolved program structure to a repository-specific rule table, for every path of every implementor at once. " + text, "design_ref": f"DESIGN.md §4 {pid}"},
            "level_note": NOTE,
            "technique": "static analysis: " + tech,
        })
    else:
        na.append({"property_id": pid, "reason": "check under construction in this build session; will be claimed or declined with a specific reason (see DESIGN.md §4/§5)"})
m = {"version": 1,
     "setup_cmd": "python3 -B -c \"import ast,sys; [ast.parse(open(f).read()) for f in __import__('glob').glob('/verif/gxstatic/**/*.py', recursive=True)]\"",
     "hooks": {"guard": "GENJAX_VERIF", "enable": "no hooks: the checks parse /repo/src/genjax from the working tree and never import it", "baseline_off_cmd": "cd /repo && /venv/bin/python -m pytest -ra -q -p no:cacheprovider --timeout=900 --continue-on-collection-errors", "source_commits": [], "add_only": True},
     "engines": [{"name": "gxstatic", "path": "/verif/gxstatic", "serves_properties": [c["property_id"] for c in checks], "kind_free_text": "repository-specific static analyser over Python ast: symbol model, symbolic value graph, linear-form normaliser, rule tables"}],
     "checks": checks, "not_applicable": na,
     "notes": "All checks are static (exit 0 pass / 1 VIOLATION / 2 ANALYSIS-ERROR). Known findings: /verif/known_findings.json. Seeded changes: /verif/seeded. fix: commits in /repo are listed in known_findings.json under 'fixed'."}
json.dump(m, open(os.path.join(V, "MANIFEST.json"), "w"), indent=1)
print("checks:", [c["property_id"] for c in checks], "n/a:", len(na))

#!/usr/bin/env python3
"""Regenerate /verif/MANIFEST.json from the table below (claimed checks exist iff gxstatic/rules/<id>.py exists)."""
import json, os
V = os.path.dirname(os.path.dirname(os.path.abspath(__file__)))
props = [json.loads(l) for l in open(os.path.join(V, "properties.jsonl"))]
NOTE = ("Decides the structural clauses listed in DESIGN.md §4 for this property (necessary conditions visible in the shape of the code on every path), "
        "not the behavioural statement itself. Trusted base: CPython ast, the rule/oracle tables in gxstatic/rules, JAX/TFP library semantics as axiomatised in DESIGN.md §7. "
        "No genjax code is imported or executed.")
CLAIMS = {
 "C01": ("symbolic term comparison (abstract interpretation of each GFI method to a term, linear-form normalisation with case splitting) against the GFI contract table; guard/pairing rules on handlers",
         "Every simulate/assess path of Distribution, Fn(+Simulate/Assess handlers), Vmap, Scan, Cond and the CondTr accessors is reduced to a symbolic term and compared with the contract (score = −logpdf of the sampled value with the same arguments, densities summed/selected by the condition, carry threading, argument recording, collision guard before every sub-call)."),
 "C02": ("symbolic term comparison of every generate path against the GFI contract table",
         "Constrained value stored unchanged and never re-sampled, weight term = logpdf (constrained) / 0 (None) / handler accumulation / sum over lanes and steps / where-selection by the condition, for all five implementors and the Generate handler."),
 "C03": ("symbolic term comparison plus the telescoping identity weight + S(new) − S(old) ≡ 0 decided by case splitting on where-conditions",
         "Every update path: new-or-old value and old sub-trace roles in the Update handler, Distribution algebra, Vmap/Scan aggregation, and Cond.update's weight/discard as functions of both the new and the old condition."),
 "C04": ("symbolic term comparison of every regenerate path; selection-threading table; definedness lints (array reduction over pytrees)",
         "Selected leaf → fresh simulate, weight 0, old value discarded; unselected → rescoring with no sampler reachable; handler forwards the remainder selection; Scan/Vmap/Cond aggregation; Selection.match remainder threading."),
 "C16": ("case enumeration of each match method's symbolic return term against the selection-algebra table; path/pairing rules on filter and merge",
         "All 8 selection node classes + Selection wrapper + sel() dispatch + operators are decided for every truth assignment of their atomic conditions (a proof of the Boolean-algebra clause by structural induction, relative to the table); filter/merge consumers are checked for partition pairing, precedence and leaf-decision agreement with regenerate."),
}
checks, na = [], []
for p in props:
    pid = p["id"]
    if pid in CLAIMS and os.path.exists(os.path.join(V, "gxstatic", "rules", pid.lower() + ".py")):
        tech, text = CLAIMS[pid]
        checks.append({
            "property_id": pid,
            "quick_cmd": f"./check {pid} --tier quick",
            "thorough_cmd": f"./check {pid} --tier thorough",
            "evidence_file": f"/verif/evidence/{pid}.json",
            "replay_cmd_template": f"./check {pid} --replay {{path}}",
            "engine": "gxstatic",
            "level_claimed": {"category": "other", "text": "Static conformance of the resolved program structure to a repository-specific rule table, for every path of every implementor at once. " + text, "design_ref": f"DESIGN.md §4 {pid}"},
            "level_note": NOTE,
            "technique": "static analysis: " + tech,
        })
    else:
        na.append({"property_id": pid, "reason": "check under construction in this build session; will be claimed or declined with a specific reason (see DESIGN.md §4/§5)"})
m = {"version": 1,
     "setup_cmd": "python3 -B -c \"import ast,sys; [ast.parse(open(f).read()) for f in __import__('glob').glob('/verif/gxstatic/**/*.py', recursive=True)]\"",
     "hooks": {"guard": "GENJAX_VERIF", "enable": "no hooks: the checks parse /repo/src/genjax from the working tree and never import it", "baseline_off_cmd": "cd /repo && /venv/bin/python -m pytest -ra -q -p no:cacheprovider --timeout=900 --continue-on-collection-errors", "source_commits": [], "add_only": True},
     "engines": [{"name": "gxstatic", "path": "/verif/gxstatic", "serves_properties": [c["property_id"] for c in checks], "kind_free_text": "repository-specific static analyser over Python ast: symbol model, symbolic value graph, linear-form normaliser, rule tables"}],
     "checks": checks, "not_applicable": na,
     "notes": "All checks are static (exit 0 pass / 1 VIOLATION / 2 ANALYSIS-ERROR). Known findings: /verif/known_findings.json. Seeded changes: /verif/seeded. fix: commits in /repo are listed in known_findings.json under 'fixed'."}
json.dump(m, open(os.path.join(V, "MANIFEST.json"), "w"), indent=1)
print("checks:", [c["property_id"] for c in checks], "n/a:", len(na))

#!/usr/bin/env python3
"""Apply each benign refactoring (benign/*/patch.diff) to a scratch copy of /repo/src and require every check to exit 0."""
import os, shutil, subprocess, sys, tempfile
V = os.path.dirname(os.path.dirname(os.path.abspath(__file__)))
bad = 0
for d in sorted(os.listdir(os.path.join(V, "benign"))):
    pd = os.path.join(V, "benign", d, "patch.diff")
    if not os.path.exists(pd) or (len(sys.argv) > 1 and d not in sys.argv[1:]):
        continue
    tmp = tempfile.mkdtemp(prefix="gx-benign-")
    try:
        shutil.copytree("/repo/src", os.path.join(tmp, "src"), ignore=shutil.ignore_patterns("__pycache__"))
        p = subprocess.run(["patch", "-p1", "-s", "-F3", "-i", pd], cwd=tmp, capture_output=True, text=True)
        if p.returncode:
            print(d, "PATCH-FAILED (stale against the current tree)", p.stdout[-200:]); continue
        res = {}
        for i in range(1, 21):
            pid = "C%02d" % i
            q = subprocess.run([os.path.join(V, "check"), pid, "--repo", tmp, "--no-evidence"], capture_output=True, text=True)
            if q.returncode:
                res[pid] = q.returncode
                bad += 1
                print("   ", pid, "rc", q.returncode, [l[:200] for l in q.stdout.splitlines() if not l.startswith(("KNOWN", "VIOLATION", "    key"))][:4])
        print(d, "silent on all 20 checks" if not res else f"ALARMS: {res}")
    finally:
        shutil.rmtree(tmp, ignore_errors=True)
sys.exit(1 if bad else 0)

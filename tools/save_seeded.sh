#!/bin/bash
# usage: tools/save_seeded.sh <worktree dir> <seed id> <demo file name>   (confirms demo both ways, stores patch+demo, removes worktree)
set -u
wt=$1; sid=$2; demo=$3
cd "$wt" || exit 2
git diff > /tmp/$sid.patch
[ -s /tmp/$sid.patch ] || { echo "EMPTY DIFF"; exit 2; }
PYTHONPATH=$wt/src timeout 900 /venv/bin/python $demo > /tmp/$sid.with.log 2>&1; w=$?
git apply -R /tmp/$sid.patch || exit 2
PYTHONPATH=$wt/src timeout 900 /venv/bin/python $demo > /tmp/$sid.without.log 2>&1; wo=$?
echo "$sid: with rc=$w  without rc=$wo  changed-lines=$(grep -c '^[-+][^-+]' /tmp/$sid.patch)"
if [ $w -ne 0 ] && [ $wo -eq 0 ]; then
  d=/verif/seeded/$sid; mkdir -p $d; cp /tmp/$sid.patch $d/patch.diff; cp $wt/$demo $d/demo.py
  git -C /repo worktree remove --force $wt; echo "saved $d"
else echo "NOT CONFIRMED"; git apply /tmp/$sid.patch; fi

#!/usr/bin/env python3
"""Developer aid: collect unlisted violations of the given properties as candidate known-findings entries."""
import json, subprocess, sys, os
V = os.path.dirname(os.path.dirname(os.path.abspath(__file__)))
out = []
for pid in sys.argv[1:]:
    p = subprocess.run([os.path.join(V, "check"), pid, "--no-evidence", "--emit-known"], capture_output=True, text=True)
    txt = p.stdout
    if "EMIT:" in txt:
        js = txt.split("EMIT:", 1)[1]
        js = js[: js.rindex("]") + 1]
        out.extend(json.loads(js))
print(json.dumps(out, indent=1))

#!/usr/bin/env python3
"""Run the repository's pinned test command (guard off) and compare passing ids with BASELINE.stable_pass."""
import json, subprocess, sys, tempfile, os, xml.etree.ElementTree as ET
b = json.load(open("/root/.vp/BASELINE.json"))
out = tempfile.mktemp(suffix=".xml")
cmd = b["cmd"].replace("<file>", out)
env = dict(os.environ); env.pop("GENJAX_VERIF", None)
p = subprocess.run(cmd, shell=True, capture_output=True, text=True, env=env)
passed = set()
for tc in ET.parse(out).getroot().iter("testcase"):
    if not any(ch.tag in ("failure", "error", "skipped") for ch in tc):
        passed.add(tc.get("classname") + "::" + tc.get("name"))
os.unlink(out)
want = set(b["stable_pass"])
missing = sorted(want - passed)
print("passed:", len(passed), "baseline:", len(want), "missing from baseline:", missing, "extra:", len(passed - want))
sys.exit(1 if missing else 0)

#!/bin/bash
# usage: tools/save_benign.sh <worktree dir> <R id>   (stores the agent's diff, re-diffs it against the current /repo tree, keeps char script + note)
set -u
wt=$1; r=$2
mkdir -p /verif/benign/$r
(cd $wt && git diff > /verif/benign/$r/patch.orig.diff)
cp $wt/char.py /verif/benign/$r/char_$r.py
if diff -q $wt/char_before.txt $wt/char_after.txt >/dev/null; then echo "$r digests identical ($(wc -l < $wt/char_before.txt) lines)"; else echo "$r DIGESTS DIFFER"; fi
T=$(mktemp -d /tmp/sb-XXXX); cp -r /repo/src $T/
(cd $T && patch -p1 -F3 -i /verif/benign/$r/patch.orig.diff 2>&1 | grep -i "fail\|rej")
if find $T -name "*.rej" | grep -q .; then echo "$r HAS REJECTS (kept in $T)"; else
  find $T -name "*.orig" -delete; mkdir -p $T/x/a $T/x/b; cp -r /repo/src $T/x/a/; mv $T/src $T/x/b/
  (cd $T/x && diff -ruN -x __pycache__ a/src b/src > /verif/benign/$r/patch.diff); rm -rf $T; fi

"""pytest plugin loading the genjax <-> jax 0.11 shim from OUTSIDE the repo.

    cd /repo && PYTHONPATH=/tmp/gxshim /venv/bin/python -m pytest \
        -p gxshim_plugin -p no:cacheprovider --no-cov tests/...

(`--no-cov` only stops the repo's pyproject addopts from rewriting
/repo/.coverage, /repo/coverage.xml and /repo/htmlcov.)

The shim itself is installed at import, i.e. before the repo's conftest.py or
any test module imports genjax.

Two pieces of pure *test-run hygiene* live here (they are not part of the shim
and do not touch genjax or jax behaviour):

* After each test module `jax.clear_caches()` is called.  genjax executes most
  things eagerly, so every distinct `scan`/`cond` is compiled to its own XLA
  CPU executable, each of which holds a few mmaps.  On this image
  (vm.max_map_count = 65530) a single process running the whole tests/
  directory exhausts the limit (test_linear_gaussian alone adds ~34k maps,
  test_smc ~27k) and jaxlib then segfaults/aborts inside
  `backend_compile_and_load`.  Disable with GXSHIM_NO_CLEAR_CACHES=1.

* Opt-in (GXSHIM_RESET_HANDLERS=1): empty `genjax.core.handler_stack` after
  each test.  `Fn.simulate/assess/generate/...` push a handler and pop it
  without try/finally, so the tests in tests/test_core.py::
  TestAddressCollisionDetection (which *expect* a ValueError inside a @gen
  function) leak 4 handlers; every later bare `dist(...)` call in the same
  process then returns a `Thunk`.  That is a genjax issue independent of the JAX
  version; it only shows when test_core.py runs before test_adev.py in one
  process (not the case in the default alphabetical order).
"""

import os

import pytest

import gxshim

gxshim.install()

_CLEAR = os.environ.get("GXSHIM_NO_CLEAR_CACHES", "0") != "1"
_RESET = os.environ.get("GXSHIM_RESET_HANDLERS", "0") == "1"


@pytest.hookimpl(trylast=True)
def pytest_runtest_teardown(item, nextitem):
    if _RESET:
        import importlib

        importlib.import_module("genjax.core").handler_stack.clear()
    if _CLEAR:
        mod = getattr(item, "module", None)
        nxt = getattr(nextitem, "module", None) if nextitem is not None else None
        if nextitem is None or nxt is not mod:
            import gc

            import jax

            jax.clear_caches()
            gc.collect()

"""gxshim: external compatibility shim letting `genjax` run on jax 0.11.x.

Usage
-----
    import sys; sys.path.insert(0, "/tmp/gxshim")   # or PYTHONPATH=/tmp/gxshim
    import gxshim; gxshim.install()                 # before or after `import genjax`

    # pytest (plugin lives next to this file, outside the repo):
    #   PYTHONPATH=/tmp/gxshim python -m pytest -p gxshim_plugin ...

Design rule: only *genjax-facing* names are changed; nothing that JAX itself
relies on is touched (no attribute of any `jax.*` module/class is set).

What is adapted (each guarded by feature detection, so on an older JAX where
the legacy API still exists the corresponding step is a no-op):

1. ``jax.core.get_aval`` / ``jax._src.core.get_aval`` (removed; now
   ``core.typeof``), ``jax.core.DropVar`` and ``jax.core.TraceTag`` (moved to
   ``jax._src.core`` / ``jax.extend.core``): the module globals ``jc`` of
   ``genjax.pjax`` and ``jax`` of ``genjax.adev`` are replaced by thin proxy
   namespaces which forward every attribute to the real module except those.
2. ``Var.count`` (removed; vars are now identity-keyed):
   ``genjax.pjax.Environment`` (a genjax class, shared by the Seed /
   ModularVmap / State / ADEV interpreters) is re-keyed on ``id(var)``.
3. ``Primitive.get_bind_params(params)`` now returns only the bind params
   (sub-functions travel in a ``subfuns=`` keyword): every genjax function
   containing ``subfuns, params = <prim>.get_bind_params(<p>)`` is recompiled
   *from its own source* with just that call replaced by an adapter returning
   ``([], bind_params)``; genjax's beartype checking is re-applied.
4. ``scan_p`` params: ``num_consts`` / ``num_carry`` were replaced by the
   ``ft_in`` flat-tree.  The adapter of (3) hands the interpreters a dict that
   *answers* the two legacy keys on lookup but does not contain them, so
   ``**params`` forwarded to JAX is byte-for-byte JAX's own params.
5. ``ad.jvp(wrapped_fun).call_wrapped(primals, tangents)`` became
   ``ad.jvp(fun, primals_flattree, tangents_flattree)``: ``genjax.pjax.ad`` is
   a proxy whose ``jvp`` speaks the old protocol on top of the new function.
6. ``ad.Zero.from_primal_value`` (now ``ad_util.p2tz``): ``genjax.adev``'s
   ``jax_autodiff`` global is a proxy whose ``Zero`` constructs / isinstance-
   matches real ``Zero`` objects and offers ``from_primal_value``.

Verified unchanged in jax 0.11.1 (no adaptation needed): ``pe.trace_to_jaxpr_
dynamic`` (still ``-> (jaxpr, out_avals, consts)``), legacy ``ClosedJaxpr(jaxpr,
consts)`` / ``.jaxpr`` / ``.literals``, ``api_util.debug_info``, ``lu.wrap_init(
..., debug_info=)``, ``batching.batch_subtrace``, 4-ary ``AxisData``,
``pe.abstract_eval_fun``, ``mlir.lower_fun``, ``jex.core.jaxpr_as_fun`` and the
``cond_p`` branch order (``branches[0]`` is still the *false* branch).

No genjax semantics are altered.
"""

from __future__ import annotations

import ast
import inspect
import textwrap
import types

_INSTALLED = False


# --------------------------------------------------------------------------
# helpers
# --------------------------------------------------------------------------


class _Proxy(types.SimpleNamespace):
    """Namespace forwarding unknown attributes to a wrapped module/object."""

    def __init__(self, target, **overrides):
        super().__init__(**overrides)
        object.__setattr__(self, "_gxshim_target", target)

    def __getattr__(self, name):  # only called when normal lookup fails
        return getattr(object.__getattribute__(self, "_gxshim_target"), name)

    def __repr__(self):
        return f"<gxshim proxy of {object.__getattribute__(self, '_gxshim_target')!r}>"


class _ScanParams(dict):
    """Bind params of a `scan` equation that additionally *answer* the legacy
    keys ``num_consts`` / ``num_carry`` / ``num_xs`` (derived from the new
    ``ft_in`` flat-tree), without *containing* them: ``**params`` and
    ``scan_p.bind(..., **params)`` still see exactly JAX's own params."""

    __slots__ = ()

    def __missing__(self, key):
        if key in ("num_consts", "num_carry", "num_xs"):
            n_consts, n_carry, n_xs = (len(t) for t in self["ft_in"].unpack())
            return {"num_consts": n_consts, "num_carry": n_carry, "num_xs": n_xs}[key]
        raise KeyError(key)


def _bind_params(primitive, params):
    """Old-convention `(subfuns, bind_params)` from new `get_bind_params`.

    In jax 0.11 call-like primitives receive their sub-functions through a
    ``subfuns=`` *keyword* in the returned params, so positionally there are
    never any subfuns to prepend.
    """
    bind_params = primitive.get_bind_params(params)
    if getattr(primitive, "name", None) == "scan" and "ft_in" in bind_params:
        bind_params = _ScanParams(bind_params)
    return [], bind_params


class _BindParamsRewriter(ast.NodeTransformer):
    """`a, b = X.get_bind_params(Y)`  ->  `a, b = _gxshim_bind_params(X, Y)`."""

    def __init__(self):
        self.hits = 0

    def visit_Assign(self, node):
        self.generic_visit(node)
        v = node.value
        if (
            len(node.targets) == 1
            and isinstance(node.targets[0], ast.Tuple)
            and len(node.targets[0].elts) == 2
            and isinstance(v, ast.Call)
            and isinstance(v.func, ast.Attribute)
            and v.func.attr == "get_bind_params"
            and len(v.args) == 1
            and not v.keywords
        ):
            node.value = ast.copy_location(
                ast.Call(
                    func=ast.Name(id="_gxshim_bind_params", ctx=ast.Load()),
                    args=[v.func.value, v.args[0]],
                    keywords=[],
                ),
                v,
            )
            self.hits += 1
        return node


def _recompile_function(fn, module):
    """Recompile `fn` (a plain function defined in `module`) from source with
    the get_bind_params call convention adapted.  Returns new function or None
    if nothing needed rewriting."""
    decorated = fn
    fn = inspect.unwrap(fn)
    try:
        src_lines, lineno = inspect.getsourcelines(fn)
    except (OSError, TypeError):
        return None
    src = textwrap.dedent("".join(src_lines))
    if "get_bind_params" not in src:
        return None
    tree = ast.parse(src)
    fdef = tree.body[0]
    if not isinstance(fdef, (ast.FunctionDef,)):
        return None
    fdef.decorator_list = []  # staticmethod etc. re-applied by caller
    rw = _BindParamsRewriter()
    tree = rw.visit(tree)
    if not rw.hits:
        return None
    ast.fix_missing_locations(tree)
    ast.increment_lineno(tree, lineno - 1)
    if fn.__closure__:
        return None  # cannot faithfully rebuild closures; none in genjax today
    code = compile(tree, inspect.getsourcefile(fn) or "<gxshim>", "exec")
    ns = {}
    module.__dict__["_gxshim_bind_params"] = _bind_params
    exec(code, module.__dict__, ns)
    new = ns[fdef.name]
    new.__qualname__ = fn.__qualname__
    new.__module__ = fn.__module__
    new.__gxshim_rewritten__ = True
    if decorated is not fn:
        # The original was wrapped by genjax's `beartype_this_package` import
        # hook; re-apply the same runtime type-checking to the adapted copy.
        try:
            from beartype import beartype

            import genjax

            checked = beartype(conf=genjax.conf)(new)
            checked.__gxshim_rewritten__ = True
            new = checked
        except Exception:  # pragma: no cover - type checking is best effort
            pass
    return new


def _is_plain_function(obj) -> bool:
    if not callable(obj) or inspect.isclass(obj):
        return False
    try:
        return inspect.isfunction(inspect.unwrap(obj))
    except ValueError:  # wrapper cycle
        return False


def _rewrite_bind_param_sites(module):
    """Rewrite every function / method in `module` using the old convention."""
    count = 0
    for name, obj in list(vars(module).items()):
        if _is_plain_function(obj):
            if getattr(inspect.unwrap(obj), "__module__", None) != module.__name__:
                continue
            new = _recompile_function(obj, module)
            if new is not None:
                setattr(module, name, new)
                count += 1
        elif inspect.isclass(obj) and obj.__module__ == module.__name__:
            for aname, raw in list(vars(obj).items()):
                kind = None
                f = raw
                if isinstance(raw, staticmethod):
                    kind, f = staticmethod, raw.__func__
                elif isinstance(raw, classmethod):
                    kind, f = classmethod, raw.__func__
                if not _is_plain_function(f):
                    continue
                if getattr(inspect.unwrap(f), "__gxshim_rewritten__", False):
                    continue
                new = _recompile_function(f, module)
                if new is None:
                    continue
                setattr(obj, aname, kind(new) if kind else new)
                count += 1
    return count


# --------------------------------------------------------------------------
# Environment re-keyed on id(var)
# --------------------------------------------------------------------------


def _patch_environment(P):
    import jax._src.core as core

    Environment = P.Environment
    Literal = core.Literal
    Var = core.Var
    DropVar = core.DropVar

    # Keep every Var we key on alive for as long as the environment lives so
    # that id() can never be recycled underneath us.
    def _key(self, var):
        k = id(var)
        keep = self.__dict__.get("_gxshim_keep")
        if keep is None:
            keep = self.__dict__["_gxshim_keep"] = {}
        keep[k] = var
        return k

    def read(self, var):
        v = self.get(var)
        if v is None:
            assert isinstance(var, Var)
            raise ValueError(
                f"Unbound variable in interpreter environment at count {id(var)}:\n"
                f"Environment keys (count): {list(self.env.keys())}"
            )
        return v

    def get(self, var):
        if isinstance(var, Literal):
            return var.val
        return self.env.get(id(var))

    def write(self, var, cell):
        if isinstance(var, Literal):
            return cell
        cur_cell = self.get(var)
        if isinstance(var, DropVar):
            return cur_cell
        self.env[_key(self, var)] = cell
        return cell

    def __contains__(self, var):
        if isinstance(var, Literal):
            return True
        return id(var) in self.env

    def copy(self):
        new = Environment({k: self.env[k] for k in list(self.env.keys())})
        keep = self.__dict__.get("_gxshim_keep")
        if keep is not None:
            new.__dict__["_gxshim_keep"] = dict(keep)
        return new

    for f in (read, get, write, __contains__, copy):
        f.__qualname__ = f"Environment.{f.__name__}"
        f.__module__ = P.__name__
        setattr(Environment, f.__name__, f)
    Environment.__getitem__ = lambda self, var: self.read(var)


# --------------------------------------------------------------------------
# ad.jvp: old `ad.jvp(wrapped_fun).call_wrapped(primals, tangents)` protocol
# --------------------------------------------------------------------------


def _make_old_style_jvp():
    from jax._src import flattree as ft
    from jax._src import linear_util as lu
    from jax._src.interpreters import ad as real_ad

    real_jvp = real_ad.jvp

    class _OldStyleJvpFun:
        """Result of legacy `ad.jvp(fun: lu.WrappedFun, ...)`."""

        def __init__(self, fun, has_aux, instantiate, transform_stack):
            self.fun = fun
            self.kw = dict(
                has_aux=has_aux,
                instantiate=instantiate,
                transform_stack=transform_stack,
            )

        def call_wrapped(self, primals, tangents):
            # Flat lists whose *elements* are leaves (tangents may be
            # symbolic `Zero`s, which are childless pytree nodes and would
            # vanish under a regular tree-flatten).
            ps = ft.flatten_list(list(primals))
            ts = ft.flatten_list(list(tangents))
            f = self.fun.call_wrapped if isinstance(self.fun, lu.WrappedFun) else self.fun
            out = real_jvp(f, ps, ts, **self.kw)
            out_primals, out_tangents, *aux = out
            return (list(out_primals), list(out_tangents), *aux)

    def jvp(fun, *args, has_aux=False, instantiate=True, transform_stack=True, **kw):
        if args or kw:  # already the new calling convention
            return real_jvp(
                fun,
                *args,
                has_aux=has_aux,
                instantiate=instantiate,
                transform_stack=transform_stack,
                **kw,
            )
        return _OldStyleJvpFun(fun, has_aux, instantiate, transform_stack)

    return jvp


# --------------------------------------------------------------------------
# install
# --------------------------------------------------------------------------


def _legacy_bind_params_protocol() -> bool:
    """True iff this JAX still returns `(subfuns, params)` from get_bind_params."""
    import jax._src.core as core

    try:
        out = core.Primitive("gxshim_probe").get_bind_params({})
    except Exception:
        return False
    return isinstance(out, tuple)


def install():
    """Install the shim (idempotent).  Safe before or after `import genjax`."""
    global _INSTALLED
    if _INSTALLED:
        return
    import importlib

    import jax
    import jax._src.core as core
    from jax._src import ad_util
    from jax._src.interpreters import ad as real_ad

    import genjax  # noqa: F401  (triggers the beartype import hook + submodules)

    # NB: the attribute `genjax.state` is shadowed by the `state` *function*
    # re-exported in genjax/__init__.py, so resolve modules via sys.modules.
    P = importlib.import_module("genjax.pjax")
    S = importlib.import_module("genjax.state")
    A = importlib.import_module("genjax.adev")

    def get_aval(x):
        return core.typeof(x)

    # ---- (1) removed / relocated jax.core names --------------------------
    jc_overrides = {}
    real_jc = P.jc
    if not _has(real_jc, "get_aval"):
        jc_overrides["get_aval"] = get_aval
    if not _has(real_jc, "DropVar"):
        jc_overrides["DropVar"] = core.DropVar
    if not _has(real_jc, "TraceTag"):
        jc_overrides["TraceTag"] = core.TraceTag
    if jc_overrides:
        P.jc = _Proxy(real_jc, **jc_overrides)

    if not _has(core, "get_aval"):
        # adev calls `jax._src.core.get_aval`; give it a private `jax` whose
        # `_src.core` has it, leaving the real jax._src.core untouched.
        core_proxy = _Proxy(core, get_aval=get_aval)
        src_proxy = _Proxy(jax._src, core=core_proxy)
        A.jax = _Proxy(jax, _src=src_proxy)

    # ---- (2) Var.count ----------------------------------------------------
    if not hasattr(core.Var, "count"):
        _patch_environment(P)

    # ---- (3)+(4) get_bind_params / scan params ----------------------------
    if not _legacy_bind_params_protocol():
        for mod in (P, S, A):
            _rewrite_bind_param_sites(mod)

    # ---- (5) ad.jvp --------------------------------------------------------
    if "primals" in inspect.signature(real_ad.jvp).parameters:
        P.ad = _Proxy(P.ad, jvp=_make_old_style_jvp())

    # ---- (6) ad.Zero.from_primal_value -------------------------------------
    RealZero = ad_util.Zero
    if not hasattr(RealZero, "from_primal_value"):

        class _ZeroMeta(type):
            def __instancecheck__(cls, inst):
                return isinstance(inst, RealZero)

            def __subclasscheck__(cls, sub):
                return issubclass(sub, RealZero)

            def __call__(cls, aval):
                return RealZero(aval)

        class Zero(metaclass=_ZeroMeta):
            """genjax-private stand-in for the *name* `ad.Zero`: builds and
            matches real `Zero` objects, so JAX never sees a foreign type."""

            @staticmethod
            def from_primal_value(val):
                return RealZero(core.typeof(val).to_tangent_aval())

        A.jax_autodiff = _Proxy(A.jax_autodiff, Zero=Zero)

    _INSTALLED = True


def _has(obj, name) -> bool:
    try:
        getattr(obj, name)
        return True
    except AttributeError:
        return False


def installed() -> bool:
    return _INSTALLED

import sys; sys.path.insert(0, "/tmp/gxshim"); import gxshim; gxshim.install()
import jax, jax.numpy as jnp
from genjax.state import state, save, namespace

def f(xs):
    namespace(lambda: save(x=1.0), "a")()
    def body(c, x):
        namespace(lambda: save(y=x), "a")()
        return c + x, None
    return jax.lax.scan(body, 0.0, xs)[0]
print("clobber  ", state(f)(jnp.arange(3.)))
g = lambda xs: namespace(lambda: jax.lax.scan(lambda c, x: (c + x, None), 0.0, xs)[0], "a")()
print("spurious ", state(g)(jnp.arange(3.)))

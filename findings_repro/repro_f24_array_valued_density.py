import sys; sys.path.insert(0, "/tmp/gxshim"); import gxshim; gxshim.install()
import jax, jax.numpy as jnp, jax.random as jr
from genjax import gen, normal, seed, sel, Cond
from jax.scipy.stats import norm

@gen
def f():
    a = normal(0., 1.) @ "a"
    b = normal(jnp.zeros(3), 1.) @ "b"
    return a

tr = seed(f.simulate)(jr.key(0))
ch = tr.get_choices()
manual = norm.logpdf(ch["a"], 0., 1.) + jnp.sum(norm.logpdf(ch["b"], 0., 1.))
d, r = f.assess(ch)
print("choices", ch)
print("manual joint log density", float(manual))
print("-score", float(-tr.get_score()))
print("assess density", d, "shape", jnp.shape(d))
print("log_density", float(f.log_density(ch)))
# generate weight with everything constrained
tr2, w = f.generate(ch)
print("generate weight (all constrained)", w)
tr3, w3, _ = f.update(tr, {"a": ch["a"] + 0.5})
print("update weight", w3)

import sys; sys.path.insert(0, "/tmp/gxshim"); import gxshim; gxshim.install()
import jax, jax.numpy as jnp, jax.random as jr
from genjax import gen, normal, flip, seed, Cond
from jax.scipy.stats import norm

@gen
def br_a(m):
    a = normal(m, 1.) @ "a"
    b = normal(a, 1.) @ "b"
    return b
@gen
def br_b(m):
    a = normal(m, 2.) @ "a"
    b = normal(a, 3.) @ "b"
    return b
@gen
def model(p):
    z = flip(p) @ "z"
    y = Cond(br_a, br_b)(z, 0.5) @ "y"
    return y

tr = seed(model.simulate)(jr.key(1), 0.5)
ch = tr.get_choices()
print("old", ch)
new_tr, w, disc = model.update(tr, {"z": ~ch["z"], "y": {"a": 0.3}}, 0.5)
nch = new_tr.get_choices()
print("new", nch, "w", float(w))
# expected: y.b keeps the old visible value; weight = log p(new) - log p(old)
def logp(c):
    z = c["z"]; a = c["y"]["a"]; b = c["y"]["b"]
    lz = jnp.log(0.5)
    return lz + jnp.where(z, norm.logpdf(a, .5, 1.) + norm.logpdf(b, a, 1.), norm.logpdf(a, .5, 2.) + norm.logpdf(b, a, 3.))
want = {"z": ~ch["z"], "y": {"a": jnp.float32(0.3), "b": ch["y"]["b"]}}
print("kept b?", float(nch["y"]["b"]), "old b", float(ch["y"]["b"]))
print("weight if b kept", float(logp(want) - logp(ch)), " weight vs returned choices", float(logp(nch) - logp(ch)))
print("score consistent?", float(-new_tr.get_score()), float(logp(nch)))

import sys, os
sys.path.insert(0, os.path.join(os.path.dirname(os.path.abspath(__file__)), "gxshim"))
import gxshim; gxshim.install()
import jax, jax.numpy as jnp
import tensorflow_probability.substrates.jax as tfp
tfd = tfp.distributions
from genjax import seed, modular_vmap
from genjax.core import tfp_distribution
key = jax.random.key(0)
loc = jnp.array([10.0, 20.0, 30.0])
d0 = tfp_distribution(lambda loc, scale: tfd.Normal(loc, scale), name="explicit_loc")
d = tfp_distribution(lambda scale: tfd.Normal(loc, scale), name="closed_over_loc")
ref = seed(lambda: d0.sample(loc, 0.001))(key)
print("explicit loc, seeded:        ", ref)
print("closed-over loc, unseeded:   ", d.sample(0.001))
try:
    got = seed(lambda: d.sample(0.001))(key)
    print("closed-over loc, seeded:     ", got, "same as explicit:", bool(jnp.all(got == ref)))
except Exception as e:
    print("closed-over loc, seeded RAISED:", type(e).__name__, str(e)[:120])
# under modular_vmap (scalar closed-over constant, one scale per lane)
c = jnp.array(100.0)
dc = tfp_distribution(lambda scale: tfd.Normal(c, scale), name="closed_over_scalar")
scales = jnp.array([0.001, 0.002, 0.003, 0.004])
try:
    out = seed(modular_vmap(lambda s: dc.sample(s), in_axes=0))(key, scales)
    print("closed-over scalar under modular_vmap:", out)
except Exception as e:
    print("closed-over scalar under modular_vmap RAISED:", type(e).__name__, str(e)[:160])

"""Dynamic confirmation (not a check): reproduces the genuine defects found by the static rules, against the real
code, using only paths that run on this image (custom distributions; no pjax staging).
run: cd /repo && /venv/bin/python /verif/findings_repro/repro_core.py"""
import jax, jax.numpy as jnp
from genjax import gen, Scan, Cond, const, sel
from genjax.core import distribution

_k = [0]
def samp(mu, sigma):
    _k[0] += 1
    return mu + sigma * jax.random.normal(jax.random.key(_k[0]))
def lp(x, mu, sigma):
    return -0.5 * ((x - mu) / sigma) ** 2 - jnp.log(sigma) - 0.5 * jnp.log(2 * jnp.pi)
N = distribution(samp, lp, name="n")
out = {}

# F1: Cond.update with a branch switch
@gen
def b1(): return N(0., 1.) @ "v"
@gen
def b2(): return N(5., 1.) @ "v"
c = Cond(b1, b2)
tr = c.simulate(jnp.array(True))
old_v = tr.get_choices()["v"]
t2, w, d = c.update(tr, {"v": 0.3}, jnp.array(False))
want = lp(0.3, 5., 1.) - lp(old_v, 0., 1.)
out["F1 weight"] = (float(w), float(want), abs(float(w) - float(want)) < 1e-5)
out["F1 discard is the visible old value"] = (float(d["v"]), float(old_v), abs(float(d["v"]) - float(old_v)) < 1e-6)

# F2 (discard polarity, no switch): Cond.regenerate, shared address, check True
tr = c.simulate(jnp.array(True))
old_v = tr.get_choices()["v"]
t3, w, d = c.regenerate(tr, sel("v"), jnp.array(True))
out["F2 regenerate discard is the visible old value"] = (float(d["v"]), float(old_v), abs(float(d["v"]) - float(old_v)) < 1e-6)

# F3: Scan.regenerate over a @gen step
@gen
def step(cy, x):
    z = N(cy, 1.0) @ "z"
    return z, z + x
s = Scan(step, length=const(3))
tr = s.simulate(0.0, jnp.arange(3.0))
try:
    s.regenerate(tr, sel("z"), 0.0, jnp.arange(3.0)); out["F3 Scan.regenerate defined"] = ("ok", "", True)
except Exception as e:
    out["F3 Scan.regenerate defined"] = (type(e).__name__, str(e)[:80], False)

# F10: filter vs regenerate disagreement
@gen
def inner():
    b = N(0., 1.) @ "b"; cc = N(0., 1.) @ "c"; return b + cc
@gen
def outer():
    return inner() @ "a"
tr = outer.simulate()
selection = ~sel(("a", "b"))
selected, unselected = outer.filter(tr.get_choices(), selection)
t4, w, d = outer.regenerate(tr, selection)
moved = [k for k in ("b", "c") if float(t4.get_choices()["a"][k]) != float(tr.get_choices()["a"][k])]
out["F10a filter(~sel(('a','b'))) selects what regenerate resamples"] = (str(selected), str(moved), (selected is not None and "c" in (selected or {}).get("a", {})) == ("c" in moved))
@gen
def flat():
    return N(0., 1.) @ "x"
tr = flat.simulate()
selection = sel(("x", "y"))
selected, _ = flat.filter(tr.get_choices(), selection)
t5, w, d = flat.regenerate(tr, selection)
moved = float(t5.get_choices()["x"]) != float(tr.get_choices()["x"])
out["F10b filter(sel(('x','y'))) on leaf x agrees with regenerate"] = (str(selected), str(moved), (selected is not None) == moved)
bad = 0
for k, v in out.items():
    print(("OK   " if v[2] else "DEFECT"), k, v[:2])
    bad += (not v[2])
print("defects reproduced:", bad)

import sys; sys.path.insert(0, "/tmp/gxshim"); import gxshim; gxshim.install()
import jax, jax.numpy as jnp, jax.random as jr
from genjax import normal, seed
f = lambda x: normal.sample(x, 1.0) * 2.0
h = jax.jit(jax.value_and_grad(f))
print("jit(value_and_grad(f)) twice:", h(0.0), h(0.0))
try:
    print("jit(f):", jax.jit(f)(0.0))
except Exception as e:
    print("jit(f) raises", type(e).__name__)
g = lambda x: normal.sample(x, 1.0) ** 2
print("seed(grad(g)) same key twice:", seed(jax.grad(g))(jr.key(0), 0.0), seed(jax.grad(g))(jr.key(0), 0.0))
print(jax.make_jaxpr(jax.grad(g))(0.0))

import sys
import os; sys.path.insert(0, os.path.join(os.path.dirname(os.path.abspath(__file__)), "gxshim"))
import gxshim; gxshim.install()
import jax, jax.numpy as jnp
from jax import lax
from genjax.adev import expectation
from genjax import normal_reparam

def f(x):
    keys = jnp.array([3, 1, 2])
    vals = x * jnp.array([1.0, 2.0, 3.0])
    k, v = lax.sort_key_val(keys, vals)
    return jnp.sum(v * jnp.array([1.0, 10.0, 100.0]))

print("jax.grad:", jax.grad(f)(2.0))
e = expectation(f)
try:
    print("adev grad:", e.grad_estimate(2.0))
except Exception as ex:
    print("ADEV raised:", type(ex).__name__, str(ex)[:300])

def g(x):
    v, i = lax.top_k(x * jnp.array([1.0, 3.0, 2.0]), 2)
    return jnp.sum(v)
print("jax.grad topk:", jax.grad(g)(2.0))
try:
    print("adev grad topk:", expectation(g).grad_estimate(2.0))
except Exception as ex:
    print("ADEV raised:", type(ex).__name__, str(ex)[:300])

"""Dynamic confirmation (not a check) of F2-weight: mh on a mixture indicator that decides a Cond whose own
choice is observed.  Runs eagerly with custom distributions; uniform.sample is replaced by a keyed pure-JAX draw.
run: cd /repo && /venv/bin/python /verif/findings_repro/repro_mixture.py"""
import jax, jax.numpy as jnp, numpy as np
from genjax import gen, Cond, sel
from genjax.core import distribution
import genjax.inference.mcmc as mcmc

_k = [0]
def nk():
    _k[0] += 1
    return jax.random.key(_k[0])
def nsamp(mu, sigma): return mu + sigma * jax.random.normal(nk())
def nlp(x, mu, sigma): return -0.5*((x-mu)/sigma)**2 - jnp.log(sigma) - 0.5*jnp.log(2*jnp.pi)
N = distribution(nsamp, nlp, name="n")
def bsamp(p): return jax.random.bernoulli(nk(), p)
def blp(x, p): return jnp.where(x, jnp.log(p), jnp.log1p(-p))
B = distribution(bsamp, blp, name="b")

class U:  # stand-in for genjax.distributions.uniform (the real one needs pjax staging)
    @staticmethod
    def sample(lo, hi): return jax.random.uniform(nk(), minval=lo, maxval=hi)
mcmc.uniform = U
mcmc.save = lambda **kw: kw

@gen
def near(): return N(0.0, 1.0) @ "y"
@gen
def far(): return N(3.0, 1.0) @ "y"
@gen
def model():
    z = B(0.3) @ "z"
    Cond(near, far)(z) @ "obs"
    return z

y = 2.2
p1 = 0.3 * np.exp(float(nlp(y, 0.0, 1.0))); p0 = 0.7 * np.exp(float(nlp(y, 3.0, 1.0)))
exact = p1 / (p0 + p1)
tr, _ = model.generate({"obs": {"y": y}})
n, acc = 600, 0
for i in range(n):
    tr = mcmc.mh(tr, sel("z"))
    acc += int(tr.get_choices()["z"])
    assert abs(float(tr.get_choices()["obs"]["y"]) - y) < 1e-6
est = acc / n
print(f"exact P(z=1|y)={exact:.3f}  mh estimate={est:.3f}  prior={0.3:.3f}")
ok = abs(est - exact) < 0.08
print("OK" if ok else "DEFECT: mh on the mixture indicator does not target the posterior (it samples the prior)")
raise SystemExit(0 if ok else 1)

import sys; sys.path.insert(0, "/tmp/gxshim"); import gxshim; gxshim.install()
import jax, jax.numpy as jnp, jax.random as jr
from genjax import normal, seed, modular_vmap as mv
def show(label, f):
    try:
        print(label, f())
    except Exception as e:
        print(label, "RAISES", type(e).__name__, str(e).splitlines()[0][:100])
show("unseeded plain site      ", lambda: mv(lambda: normal.sample(0.0, 1.0), in_axes=(), axis_size=4)())
show("unseeded inside checkpoint", lambda: mv(lambda: jax.checkpoint(lambda: normal.sample(0.0, 1.0))(), in_axes=(), axis_size=4)())
show("unseeded inside jit callee", lambda: mv(lambda: jax.jit(lambda: normal.sample(0.0, 1.0))(), in_axes=(), axis_size=4)())
show("unseeded custom_jvp       ", lambda: mv(lambda: jax.nn.relu(normal.sample(0.0, 1.0)), in_axes=(), axis_size=4)())
@jax.custom_jvp
def noisy(x): return x + normal.sample(0.0, 1.0)
noisy.defjvp(lambda p, t: (noisy(*p), t[0]))
show("unseeded site in custom_jvp", lambda: mv(lambda: noisy(0.0), in_axes=(), axis_size=4)())
show("batched operand checkpoint ", lambda: mv(lambda m: jax.checkpoint(lambda m: normal.sample(m, 1.0))(m), in_axes=(0,))(jnp.arange(4.)*100))

import sys; sys.path.insert(0, "/tmp/gxshim"); import gxshim; gxshim.install()
import jax, jax.numpy as jnp, jax.random as jr
from genjax import normal, seed, modular_vmap as mv

def show(label, f):
    try:
        print(label, f())
    except Exception as e:
        print(label, "RAISES", type(e).__name__, str(e)[:100])

k = jr.key(0)
show("plain site      ", lambda: seed(mv(lambda: normal.sample(0.0, 1.0), in_axes=(), axis_size=4))(k))
show("inside checkpoint", lambda: seed(mv(lambda: jax.checkpoint(lambda: normal.sample(0.0, 1.0))(), in_axes=(), axis_size=4))(k))
show("inside jit callee", lambda: seed(mv(lambda: jax.jit(lambda: normal.sample(0.0, 1.0))(), in_axes=(), axis_size=4))(k))
show("inside while_loop", lambda: seed(mv(lambda: jax.lax.while_loop(lambda c: c[0] < 1, lambda c: (c[0] + 1, normal.sample(0.0, 1.0)), (0, 0.0))[1], in_axes=(), axis_size=4))(k))
show("list in_axes     ", lambda: mv(lambda a, b: a + b, in_axes=[0, None])(jnp.arange(4.), 1.0))
show("jax.vmap list    ", lambda: jax.vmap(lambda a, b: a + b, in_axes=[0, None])(jnp.arange(4.), 1.0))

import sys, os
sys.path.insert(0, os.path.join(os.path.dirname(os.path.abspath(__file__)), "gxshim"))
import gxshim; gxshim.install()
import jax, jax.numpy as jnp
from genjax import bernoulli, beta, seed, modular_vmap

key = jax.random.key(0)
N = 20000
# reference: positional call (probs is the first positional in genjax's bernoulli? check both ways)
f_kw = lambda: bernoulli.sample(probs=0.1)
f_kw2 = lambda: beta.sample(concentration1=2.0, concentration0=5.0)
for name, f, want in (("bernoulli(probs=0.1) freq", f_kw, 0.1), ("beta(c1=2,c0=5) mean", f_kw2, 2/7)):
    plain = seed(lambda: jax.vmap(lambda k: seed(f)(k))(jax.random.split(key, N)))  # independent seeded draws
    xs = jax.vmap(lambda k: seed(f)(k))(jax.random.split(key, N))
    ys = seed(modular_vmap(f, axis_size=N))(key)
    print(name, "seeded per-key:", float(jnp.mean(xs.astype(float))), " modular_vmap:", float(jnp.mean(ys.astype(float))), " expected", want)

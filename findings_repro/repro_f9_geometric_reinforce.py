import sys; sys.path.insert(0, "/tmp/gxshim"); import gxshim; gxshim.install()
import jax, jax.numpy as jnp, jax.random as jr
from genjax import seed, geometric_reinforce, modular_vmap
th=0.3
f=seed(modular_vmap(lambda: geometric_reinforce.sample(th), axis_size=20000))
x=f(jr.key(0))
p=jax.nn.sigmoid(th)
print("seeded mean", float(x.mean()), "expected under logits", float((1-p)/p), "under probs", (1-th)/th)
assert abs(float(x.mean())-float((1-p)/p))<0.05

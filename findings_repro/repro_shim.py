"""Dynamic confirmation (not a check) of the remaining findings, run through the external JAX-compat shim
(findings_repro/gxshim/gxshim.py adapts genjax to jax 0.11.1 without changing its semantics).
run: cd /repo && /venv/bin/python /verif/findings_repro/repro_shim.py"""
import sys, os
sys.path.insert(0, os.path.join(os.path.dirname(os.path.abspath(__file__)), "gxshim"))
import gxshim; gxshim.install()
import jax, jax.numpy as jnp, jax.random as jrand, numpy as np
import genjax
from genjax import gen, normal, flip, seed, modular_vmap, sel, const, Scan
from genjax.inference.mcmc import mala, hmc
from genjax.pjax import sample_binder
import tensorflow_probability.substrates.jax as tfp
tfd = tfp.distributions
out = {}

def attempt(name, fn):
    try:
        ok, info = fn()
    except Exception as e:
        ok, info = False, f"{type(e).__name__}: {str(e)[:110]}"
    out[name] = (ok, info)

# F5: Vmap with int in_axes (GFI.vmap default) beyond simulate
def f5():
    v = normal.vmap(in_axes=0)
    tr = seed(v.simulate)(jrand.key(0), jnp.zeros(3), jnp.ones(3))
    d, _ = v.assess(tr.get_choices(), jnp.zeros(3), jnp.ones(3))
    return True, f"assess ok {float(d):.3f}"
attempt("F5 Vmap(in_axes=0).assess defined", f5)

# F16: kwargs through Vmap
def f16():
    @gen
    def g(x, scale=1.0):
        return normal(x, scale) @ "z"
    tr = seed(g.vmap(in_axes=(0,)).simulate)(jrand.key(0), jnp.zeros(3), scale=2.0)
    return True, "ok"
attempt("F16 Vmap forwards keyword arguments", f16)

# F6: mala / hmc on a vector-valued choice: per-coordinate independent noise?
from genjax import multivariate_normal
@gen
def vec_model():
    return multivariate_normal(jnp.zeros(4), jnp.eye(4)) @ "x"
def f6a():
    tr = seed(vec_model.simulate)(jrand.key(1))
    x0 = tr.get_choices()["x"]
    deltas = []
    for i in range(6):
        t2 = seed(lambda t: mala(t, sel("x"), 1e-3))(jrand.key(10 + i), tr)
        d = np.asarray(t2.get_choices()["x"] - x0)
        if np.any(d != 0):
            deltas.append(d)
    if not deltas:
        return False, "no accepted move"
    d = deltas[0] + 0.5e-6 * np.asarray(-x0)  # remove the (tiny) drift
    spread = float(np.std(deltas[0] - (1e-3 ** 2 / 2) * np.asarray(-x0)))
    return spread > 1e-5, f"coordinate-wise spread of the noise = {spread:.2e} (0 means one shared scalar)"
attempt("F6a mala noise is independent per coordinate", f6a)
def f6b():
    tr = seed(vec_model.simulate)(jrand.key(1))
    x0 = np.asarray(tr.get_choices()["x"])
    t2 = seed(lambda t: hmc(t, sel("x"), 1e-3, 1))(jrand.key(3), tr)
    d = np.asarray(t2.get_choices()["x"]) - x0
    # one leapfrog step: dx = eps * (p + eps/2 * grad); grad = -x0
    p = d / 1e-3 - 0.5e-3 * (-x0)
    return float(np.std(p)) > 1e-3, f"implied momentum per coordinate = {np.round(p, 4)}"
attempt("F6b hmc momentum is independent per coordinate", f6b)

# F7: Expectation.estimate with an array argument and a shape-sensitive primitive
def f7():
    from genjax.adev import expectation
    e = expectation(lambda x: jnp.sum(x.T @ x))
    v = e.estimate(jnp.ones((2, 3)))
    return abs(float(v) - 18.0) < 1e-5, f"value {float(v)} (= sum of the 3x3 matrix of 2s)"
attempt("F7 estimate works for array arguments", f7)

# F8: enum-parallel primitives
def f8():
    from genjax.adev import expectation, flip_enum_parallel
    e = expectation(lambda p: jnp.where(flip_enum_parallel(p), 1.0, 2.0))
    g = e.grad_estimate(0.3)
    return abs(float(g) + 1.0) < 1e-5, f"grad {float(g)}"
attempt("F8 flip_enum_parallel usable", f8)

# F9: geometric_reinforce seeded sample vs its own score
def f9():
    from genjax.adev import geometric_reinforce
    ks = jrand.split(jrand.key(0), 400)
    xs = np.array([float(seed(geometric_reinforce.simulate)(k, 0.3).get_choices()) for k in ks[:200]])
    m = xs.mean()
    want_probs = (1 - 0.3) / 0.3
    p_logit = 1 / (1 + np.exp(-0.3)); want_logits = (1 - p_logit) / p_logit
    lp = float(geometric_reinforce.logpdf(jnp.array(2.0), 0.3)); lp_probs = float(tfd.Geometric(probs=0.3).log_prob(2.0))
    return abs(lp - lp_probs) < 1e-5, f"seeded mean {m:.2f} (probs→{want_probs:.2f}, logits→{want_logits:.2f}); logpdf(2)={lp:.3f} vs probs-density {lp_probs:.3f}"
attempt("F9 geometric_reinforce samples and scores with one parameterisation", f9)

# F11a: save inside scan under a namespace
def f11a():
    from genjax.state import save, namespace
    st = sys.modules["genjax.state"].state
    def body(c, x):
        save(v=c + x)
        return c + x, None
    f = st(lambda: namespace(lambda: jax.lax.scan(body, 0.0, jnp.arange(3.0)), "ns")())
    _, d = f()
    return "ns" in d and "v" in d.get("ns", {}), f"collected keys: {list(d.keys())}"
attempt("F11a values saved in a scan under a namespace land under that namespace", f11a)

# F12: sampling inside jax.checkpoint under seed
def f12():
    def f():
        return jax.checkpoint(lambda: normal.sample(0.0, 1.0))()
    a = float(seed(f)(jrand.key(0))); b = float(seed(f)(jrand.key(1))); c = float(seed(f)(jrand.key(2)))
    plain = [float(seed(lambda: normal.sample(0.0, 1.0))(jrand.key(i))) for i in range(3)]
    return len({a, b, c}) == 3, f"keys 0,1,2 give {a:.4f}, {b:.4f}, {c:.4f} inside checkpoint (outside: {[round(p, 4) for p in plain]})"
attempt("F12 seed(f) depends on the key when f samples inside jax.checkpoint", f12)

# F17: one binder used with two shapes
def f17():
    n = sample_binder(lambda key, loc, scale, sample_shape=(): tfd.Normal(loc, scale).sample(seed=key, sample_shape=sample_shape), name="n")
    a = seed(lambda l: n(l, 1.0))(jrand.key(0), jnp.zeros(3))
    b = seed(lambda l: n(l, 1.0))(jrand.key(0), jnp.zeros(5))
    return b.shape == (5,), f"shapes {a.shape} then {b.shape}"
attempt("F17 a binder re-used with a different shape draws with the new shape", f17)

# F18: modular_vmap over axis 1
def f18():
    m = jnp.stack([jnp.zeros(4), 100.0 * jnp.ones(4), 200.0 * jnp.ones(4)])   # (3, 4); map over axis 1 -> 4 lanes of 3-vectors
    r = seed(modular_vmap(lambda col: normal.sample(col, 1e-3), in_axes=1))(jrand.key(0), m)
    want = np.asarray(jax.vmap(lambda col: col, in_axes=1)(m))
    return r.shape == want.shape and np.allclose(np.asarray(r), want, atol=1.0), f"result shape {r.shape}, expected {want.shape}"
attempt("F18 modular_vmap(in_axes=1) lays draws out like jax.vmap", f18)

bad = 0
for k, (ok, info) in out.items():
    print(("OK    " if ok else "DEFECT"), k, "|", info)
    bad += (not ok)
print("defects reproduced:", bad)

import sys; sys.path.insert(0, "/tmp/gxshim"); import gxshim; gxshim.install()
import jax, jax.numpy as jnp, jax.random as jr
from genjax import gen, normal, flip, seed, Cond, sel
@gen
def br_a(m):
    a = normal(m, 1.) @ "a"
    b = normal(a, 1.) @ "b"
    return b
@gen
def br_b(m):
    a = normal(m, 2.) @ "a"
    b = normal(a, 3.) @ "b"
    return b
c = Cond(br_a, br_b)
tr = seed(c.simulate)(jr.key(1), jnp.array(True), 0.5)
print("old choices", tr.get_choices())
# regenerate only 'a', with the condition flipped
new_tr, w, disc = seed(c.regenerate)(jr.key(2), tr, sel("a"), jnp.array(False), 0.5)
print("new choices", new_tr.get_choices(), "w", w)
print("unselected b kept?", float(new_tr.get_choices()["b"]), "old", float(tr.get_choices()["b"]))
# same through a @gen model where z is regenerated (selected) and flips
@gen
def model(p):
    z = flip(p) @ "z"
    y = Cond(br_a, br_b)(z, 0.5) @ "y"
    return y
for k in range(6):
    t = seed(model.simulate)(jr.key(10 + k), 0.5)
    t2, w2, _ = seed(model.regenerate)(jr.key(100 + k), t, sel("z"), 0.5)
    if bool(t.get_choices()["z"]) != bool(t2.get_choices()["z"]):
        print("z flipped: y.b old", float(t.get_choices()["y"]["b"]), "new", float(t2.get_choices()["y"]["b"]), "w", float(w2))
        break
from jax.scipy.stats import norm
def ly(z, a, b):
    return jnp.where(z, norm.logpdf(a, .5, 1.) + norm.logpdf(b, a, 1.), norm.logpdf(a, .5, 2.) + norm.logpdf(b, a, 3.))
ok = True
for k in range(12):
    t = seed(model.simulate)(jr.key(10 + k), 0.5)
    t2, w2, _ = seed(model.regenerate)(jr.key(100 + k), t, sel("z"), 0.5)
    c, c2 = t.get_choices(), t2.get_choices()
    want = ly(c2["z"], c2["y"]["a"], c2["y"]["b"]) - ly(c["z"], c["y"]["a"], c["y"]["b"])
    same = float(c2["y"]["b"]) == float(c["y"]["b"]) and float(c2["y"]["a"]) == float(c["y"]["a"])
    score_ok = abs(float(-t2.get_score()) - float(jnp.log(0.5) + ly(c2["z"], c2["y"]["a"], c2["y"]["b"]))) < 1e-4
    print(k, "flip" if bool(c["z"]) != bool(c2["z"]) else "same", "kept", same, "w", round(float(w2), 4), "want", round(float(want), 4), "score_ok", score_ok)

import sys; sys.path.insert(0, "/tmp/gxshim"); import gxshim; gxshim.install()
import jax, jax.numpy as jnp, jax.random as jr
from genjax import seed
from genjax.adev import expectation, flip_enum, Dual
@expectation
def prog(p, flag):
    y = jax.lax.cond(flag > 0., lambda p: jnp.float32(flip_enum(p)), lambda p: p, p)
    return (y + 1.) ** 2
@expectation
def prog_nocond(p):
    y = jnp.float32(flip_enum(p))
    return (y + 1.) ** 2
# exact: E[(b+1)^2] = p*4 + (1-p)*1 = 1 + 3p ; d/dp = 3
est = seed(prog.estimate)(jr.key(0), 0.3, 1.0)
tan = seed(lambda: prog.jvp_estimate(Dual(0.3, 1.0), Dual(1.0, 0.0)).tangent)(jr.key(0))
print("site inside cond branch: estimate", float(est), "(exact 1.9); tangent", float(tan), "(exact 3.0)")
print("same site outside cond : estimate", float(seed(prog_nocond.estimate)(jr.key(0), 0.3)), "tangent", float(seed(lambda: prog_nocond.jvp_estimate(Dual(0.3, 1.0)).tangent)(jr.key(0))))
assert abs(float(est) - 1.9) < 1e-5 and abs(float(tan) - 3.0) < 1e-5

import sys; sys.path.insert(0, "/tmp/gxshim"); import gxshim; gxshim.install()
import jax, jax.numpy as jnp, jax.random as jr
from genjax import gen, normal, seed, modular_vmap, sel
@gen
def g(mu, scale=1.0):
    x = normal(mu, scale) @ "x"
    return x
xs = jnp.arange(4.0); sc = jnp.full(4, 0.001)
print("modular_vmap kw:", modular_vmap(lambda x, s=1.0: x * s, in_axes=(0,))(xs, s=jnp.arange(4.) + 1), " jax.vmap:", jax.vmap(lambda x, s=1.0: x * s, in_axes=(0,))(xs, s=jnp.arange(4.) + 1))
vm = g.vmap(in_axes=(0,))
tr = seed(vm.simulate)(jr.key(0), xs, scale=sc)
print("simulate", tr.get_choices()["x"])
assert float(jnp.max(jnp.abs(tr.get_choices()["x"] - xs))) < 0.01
d, r = vm.assess(tr.get_choices(), xs, scale=sc)
manual = jnp.sum(jax.scipy.stats.norm.logpdf(tr.get_choices()["x"], xs, 0.001))
print("assess", float(d), float(manual), "-score", float(-tr.get_score()))
assert abs(float(d) - float(manual)) < 1e-2 and abs(float(d) + float(tr.get_score())) < 1e-2
tr2, w = seed(vm.generate)(jr.key(1), {"x": xs + 0.001}, xs, scale=sc)
tr3, w3, disc = vm.update(tr, {"x": xs}, xs, scale=sc)
tr4, w4, disc4 = seed(vm.regenerate)(jr.key(2), tr, sel("x"), xs, scale=sc)
print("generate/update/regenerate ok", float(w), float(w3), float(w4))
@gen
def outer(xs, sc):
    ys = g.vmap(in_axes=(0,))(xs, scale=sc) @ "ys"
    return ys
t = seed(outer.simulate)(jr.key(3), xs, sc)
assert float(jnp.max(jnp.abs(t.get_retval() - xs))) < 0.01
try:
    seed(vm.simulate)(jr.key(0), xs, scale=0.001)
    print("scalar kwarg accepted")
except Exception as e:
    print("scalar kwarg:", type(e).__name__, "(as jax.vmap)")
try:
    jax.vmap(lambda x, s=1.0: x * s, in_axes=(0,))(xs, s=2.0)
except Exception as e:
    print("jax.vmap scalar kwarg:", type(e).__name__)
print("OK")

import sys; sys.path.insert(0, "/tmp/gxshim"); import gxshim; gxshim.install()
import itertools, jax, jax.numpy as jnp, jax.random as jr
from genjax import gen, normal, sel, seed
@gen
def inner():
    b = normal(0., 1.) @ "b"
    c = normal(b, 1.) @ "c"
    return b + c
@gen
def model():
    a = inner() @ "a"
    d = normal(a, 1.) @ "d"
    return d
tr = seed(model.simulate)(jr.key(0))
x = tr.get_choices()
paths = [("a", "b"), ("a", "c"), ("d",)]
def leaves(m, pre=()):
    out = set()
    for k, v in (m or {}).items():
        out |= leaves(v, pre + (k,)) if isinstance(v, dict) else {pre + (k,)}
    return out
atoms = [sel("a"), sel(("a", "b")), sel(("a", "c")), sel("d"), sel(), sel(()), sel({"a": sel("c")})]
exprs = list(atoms) + [~s for s in atoms] + [s | t for s, t in itertools.combinations(atoms, 2)] + [s ^ ~t for s, t in itertools.permutations(atoms[:5], 2)] + [~(s | ~t) for s, t in itertools.permutations(atoms[:5], 2)]
bad = 0
for s in exprs:
    selected, unselected = model.filter(x, s)
    moved_tr, _, _ = seed(model.regenerate)(jr.key(1), tr, s)
    y = moved_tr.get_choices()
    moved = {p for p in paths if float(jnp.abs((y[p[0]] if len(p) == 1 else y[p[0]][p[1]]) - (x[p[0]] if len(p) == 1 else x[p[0]][p[1]]))) > 0}
    if leaves(selected) != moved or leaves(unselected) != set(paths) - moved or (leaves(selected) & leaves(unselected)):
        bad += 1
        print("DISAGREE", s, sorted(leaves(selected)), sorted(moved))
    merged, _ = model.merge(unselected or {}, selected or {}) if (selected and unselected) else ((selected or unselected), None)
    if leaves(merged) != set(paths):
        bad += 1; print("MERGE", s)
print(len(exprs), "selection expressions;", bad, "disagreements")
sys.exit(1 if bad else 0)

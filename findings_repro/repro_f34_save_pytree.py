import sys; sys.path.insert(0, "/tmp/gxshim"); import gxshim; gxshim.install()
import jax, jax.numpy as jnp
from genjax.state import state, save, tag_state, namespace
@state
def f(x):
    d = save(d={"a": x, "b": x * 2})
    l = save(l=[x + 1])
    t = tag_state((x, x+1), x+2, name="t")
    return d["d"]["a"] + l["l"][0]
r, s = f(jnp.float32(1.0))
print(r, s)
ok = isinstance(s["d"], dict) and set(s["d"]) == {"a","b"} and isinstance(s["l"], list) and len(s["l"]) == 1
ok = ok and isinstance(s["t"], tuple) and len(s["t"]) == 2 and isinstance(s["t"][0], tuple)
# scan
@state
def g(xs):
    def body(c, x):
        save(p={"u": x, "v": c})
        return c + x, x
    return jax.lax.scan(body, 0.0, xs)
r2, s2 = g(jnp.arange(3.0))
print(s2)
ok = ok and isinstance(s2["p"], dict)
# vmap
@state
def h(xs):
    return jax.vmap(lambda x: save(q={"u": x})["q"]["u"])(xs)
r3, s3 = h(jnp.arange(3.0)); print(s3)
ok = ok and isinstance(s3["q"], dict)
sys.exit(0 if ok else 1)

import sys; sys.path.insert(0, "/tmp/gxshim"); import gxshim; gxshim.install()
import jax, jax.numpy as jnp, jax.random as jr
from genjax import seed, normal
from genjax.pjax import LoweringSamplePrimitiveToMLIRException
@jax.checkpoint
def inner(m):
    return normal.sample(m, 1.0)
def f(m):
    return inner(m) + 0.0
@jax.custom_jvp
def g(m):
    return normal.sample(m, 1.0)
@g.defjvp
def g_jvp(p, t):
    return g(p[0]), t[0]
bad = 0
for name, fn in (("checkpoint", f), ("custom_jvp", g)):
    try:
        vals = [float(seed(fn)(jr.key(i), 0.0)) for i in range(3)]
        print(name, "returned", vals)
        if len(set(vals)) == 1 or True:
            # without the exception the draws do not depend on the key alone (hidden global counter)
            again = [float(seed(fn)(jr.key(i), 0.0)) for i in range(3)]
            print(name, "again   ", again)
            if vals != again: bad += 1; print("  -> same key, different result: hidden randomness")
            elif len(set(vals)) == 1: bad += 1; print("  -> key ignored")
    except LoweringSamplePrimitiveToMLIRException as e:
        print(name, "raised the lowering exception")
# sanity: plain seeded sampling and jit still fine
print(float(seed(lambda: normal.sample(0.0, 1.0))(jr.key(1))), float(jax.jit(seed(lambda m: jnp.tanh(normal.sample(m, 1.0))))(jr.key(1), 0.0)))
sys.exit(1 if bad else 0)

import sys; sys.path.insert(0, "/tmp/gxshim"); import gxshim; gxshim.install()
import jax, jax.numpy as jnp, jax.random as jr
from genjax import seed, modular_vmap as mv
from genjax.distributions import geometric
k = jr.key(0)
print("single         ", seed(lambda: geometric.sample(None, 0.02))(k))
print("vmap positional", seed(mv(lambda: geometric.sample(None, 0.02), in_axes=(), axis_size=8))(k))
print("vmap keyword   ", seed(mv(lambda: geometric.sample(probs=0.02), in_axes=(), axis_size=8))(k))
print("repeat simulate", seed(lambda: geometric.repeat(5).simulate(None, 0.02).get_choices())(k))

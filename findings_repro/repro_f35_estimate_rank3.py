"""F35 (known finding, C10; DESIGN 10.3): ParticleCollection.estimate weights per-particle values of rank >= 2
(stacked rank >= 3) with w[:, None]: a shape error unless the first value dimension equals the particle count, in which case the weights are
applied along the wrong axis and the result is silently wrong.  Run through the shim:  PYTHONPATH=/repo/src /venv/bin/python this_file.py
Exits 0 if the estimate is the weighted average for matrix-valued fn, 1 if it is wrong, 2 if it raises."""
import sys; sys.path.insert(0, "/tmp/gxshim"); sys.path.insert(0, "/verif/findings_repro/gxshim"); import gxshim; gxshim.install()
import jax, jax.numpy as jnp, jax.random as jrand
from genjax.core import gen, const
from genjax.pjax import seed
from genjax.distributions import normal
from genjax.inference.smc import init

@gen
def model():
    x = normal(0.0, 1.0) @ "x"
    normal(x, 0.5) @ "y"

N = 3
parts = seed(lambda: init(model, (), const(N), {"y": 1.0}))(jrand.key(0))
fn = lambda ch: jnp.outer(jnp.arange(1.0, N + 1), jnp.array([1.0, ch["x"]]))     # (N, 2) per particle -> (N, N, 2) stacked
w = jnp.exp(parts.log_weights - jax.scipy.special.logsumexp(parts.log_weights))
vals = jax.vmap(fn)(parts.traces.get_choices())
want = jnp.einsum("i,iab->ab", w, vals)
try:
    got = parts.estimate(fn)
except Exception as e:
    print("raises:", type(e).__name__, str(e)[:120]); sys.exit(2)
print("got", got, "\nwant", want)
sys.exit(0 if got.shape == want.shape and jnp.allclose(got, want, atol=1e-6) else 1)

import sys; sys.path.insert(0, "/tmp/gxshim"); import gxshim; gxshim.install()
import jax, jax.numpy as jnp, jax.random as jr
from genjax import gen, normal, seed, sel, Cond
@gen
def a(m): return normal(m, 1.) @ "y"
@gen
def b(m): return normal(m, 3.) @ "y"
vc = Cond(a, b).vmap(in_axes=(0, 0))
flags = jnp.array([True, False, True]); ms = jnp.array([0., 1., 2.])
tr = seed(vc.simulate)(jr.key(0), flags, ms)
d, r = vc.assess(tr.get_choices(), flags, ms)
print("score", tr.get_score(), "assess", d)
tr2, w = vc.generate(tr.get_choices(), flags, ms)
print("generate weight", w, "score", tr2.get_score())

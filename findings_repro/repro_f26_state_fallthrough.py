import sys; sys.path.insert(0, "/tmp/gxshim"); import gxshim; gxshim.install()
import jax, jax.numpy as jnp
from genjax.state import state, save, namespace

def show(label, f, *a):
    try:
        print(label, f(*a))
    except Exception as e:
        print(label, "RAISES", type(e).__name__, str(e)[:120])

show("plain      ", state(lambda x: save(a=x * 2)["a"]), 2.0)
show("jit callee ", state(lambda x: jax.jit(lambda y: save(a=y * 2)["a"])(x)), 2.0)
show("cond       ", state(lambda x: jax.lax.cond(x > 0, lambda: save(a=x)["a"], lambda: save(a=-x)["a"])), 2.0)
show("while_loop ", state(lambda x: jax.lax.while_loop(lambda c: c < 3, lambda c: save(c=c + 1)["c"], x)), 0.0)
show("checkpoint ", state(lambda x: jax.checkpoint(lambda y: save(a=y * 2)["a"])(x)), 2.0)
show("jit(state) ", jax.jit(state(lambda x: save(a=x * 2)["a"])), 2.0)
